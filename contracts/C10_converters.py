"""C10 - the typed environment survives the trip to child processes and back: converter / detyper pairs.

Pattern (guidance: function against a spec function): the detyper gets `ensures result == enc(v)`; the
converter is verified under `requires x == enc(v)` (v a ghost parameter: some valid value) with
`ensures result == v`.  The round trip convert(detype(v)) == v is then the composition of the two."""
from pyvc.contract import *

T_ = "xonsh/tools.py::"
FALSES = frozenset(["", "0", "n", "f", "no", "none", "false", "off"])
G = {"_FALSES": FALSES}
CFG = {"fold_strings": sorted(FALSES | {"1", "None", "none"})}
PROP = "converting a value to its string form and back yields an equal value"

# ---- bool ---------------------------------------------------------------------------------------------
contract(T_ + "bool_to_str", "C10", params=dict(x=Bool), returns=Str,
         ensures={"encoding": "result == ('1' if x else '')"}, from_property=PROP)
contract(T_ + "to_bool", "C10", params=dict(x=Str, v=Bool), globals=G, config=dict(CFG, aliases={"x": "('1' if v else '')"}), returns=Bool,
         ensures={"round-trip": "result == v"}, from_property=PROP)

# ---- bool or None ---------------------------------------------------------------------------------------
BN = Union(NoneT, Bool)
contract(T_ + "bool_or_none_to_str", "C10", params=dict(x=BN), returns=Str,
         ensures={"encoding": "result == ('None' if x is None else ('1' if x else ''))"}, from_property=PROP)
contract(T_ + "to_bool_or_none", "C10", params=dict(x=Str, v=BN), globals=G, config=dict(CFG, aliases={"x": "('None' if v is None else ('1' if v else ''))"}), returns=BN,
         ensures={"round-trip": "result == v"}, from_property=PROP)

# ---- bool or int ($XONSH_DEBUG) ---------------------------------------------------------------------------
BI = Union(Bool, Int)
ENC_BI = "(('1' if v else '') if isinstance(v, bool) else str(v))"
contract(T_ + "bool_or_int_to_str", "C10", params=dict(x=BI), returns=Str, inline=["is_bool", "bool_to_str"],
         ensures={"encoding": "result == " + ENC_BI.replace("v", "x")}, from_property=PROP)
contract(T_ + "to_bool_or_int", "C10", params=dict(x=Str, v=BI), globals=G, config=dict(CFG, aliases={"x": ENC_BI}), returns=BI, inline=["is_int", "to_bool"],
         ensures={"round-trip-up-to-bool/int-identification": "result == v or (isinstance(v, bool) and isinstance(result, int) and result == (1 if v else 0)) "
                                                               "or (isinstance(v, bool) and not v and result == False)"},
         notes="a stored True detypes to '1', which reads back as the integer 1 (== True): equal values, as the statement asks",
         from_property=PROP)

# ---- int or None ------------------------------------------------------------------------------------------------
contract(T_ + "to_int_or_none", "C10", params=dict(x=Str, v=Int), config=dict(CFG, aliases={"x": "str(v)"}), returns=Union(NoneT, Int),
         ensures={"round-trip": "result == v"}, from_property=PROP)

# ---- $SHLVL -----------------------------------------------------------------------------------------------------
contract(T_ + "adjust_shlvl", "C10", params=dict(old_lvl=Int, change=Int), returns=Int,
         ensures={"bash-rule": "result == (0 if old_lvl + change < 0 else (1 if old_lvl + change >= 1000 else old_lvl + change))"},
         from_property=PROP)
contract(T_ + "to_shlvl", "C10", params=dict(x=Str, v=Int), returns=Int, config={"aliases": {"x": "str(v)"}},
         requires={"a-valid-level": "0 <= v and v < 1000"},
         ensures={"round-trip": "result == v"}, from_property=PROP)
