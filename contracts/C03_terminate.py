"""C03 - "Detection always terminates": the wrap-and-reparse loop of Execer._parse_ctx_free._try_parse.

Every iteration either leaves the loop (parsed, or an error is raised) or consumes one unit of a retry budget fixed before the loop
(2 x (lines + chain operators) + 10 since fix dde0af8).  The body of the `try:` statement - parser call, error analysis, wrapping - is ABSTRACTED here: it may raise, may
change the text and the bookkeeping locals, but it cannot touch the budget (it never assigns it: checked syntactically by the
engine's assigned-names analysis on the real source).  What is NOT proved: that each parser / lexer / helper call inside the body
terminates, and the depth-1 recursion on a logical line (guarded by `not logical_input`)."""
import ast as _ast
from pyvc.contract import *

EX = "xonsh/execer.py::"


def _the_try(node, fv):
    return isinstance(node, _ast.Try)


contract(
    EX + "Execer._parse_ctx_free._try_parse", "C03", params=dict(input=Str, greedy=Bool),
    globals={"logical_input": Bool, "self": Opaque("execer"), "mode": Str, "filename": Str},
    externals={"starting_whitespace": Ext(ret=Str, pure=True), "str.splitlines": Ext(ret=Seq(Str), pure=True),
               "re.findall": Ext(ret=Seq(Str), pure=True, note="the chain operators of the input (a finite list)")},
    locals={"max_retries": Int, "n_segments": Int, "parsed": Bool, "last_error_line": Int, "last_error_col": Int, "original_error": Union(NoneT, Opaque("exc")), "tree": Opaque("tree"),
            "beg_spaces": Str},
    abstract=[dict(match=_the_try, may_raise=True, reason="one parse attempt and, on a SyntaxError, one wrapping step (may raise, may rewrite the text; never assigns the retry budget)")],
    loops={"while#1": dict(invariant={"the-budget-never-goes-negative": "max_retries >= 0"}, variant="max_retries", defined=["tree"])},
    raises={"Exception+": True},
    ensures={"terminates-with-a-program": "True"},
    assumptions=["parser.parse, find_next_break, subproc_toks, get_logical_line, replace_logical_line terminate (get_logical_line: proved, see its contract)",
                 "`raise original_error` with original_error None (budget exhausted before any SyntaxError) cannot happen: the budget is >= 10"],
    from_property="Detection always terminates: every input yields either a program or a SyntaxError, never a hang",
)
