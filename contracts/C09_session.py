"""C09 - running a command leaves the session as it found it: what the pipeline constructor, the process wrappers and the
error path must undo on EVERY exit path, as effect-trace contracts on the real source."""
from pyvc.contract import *

P = "xonsh/procs/pipelines.py::"
STREAM = Opaque("stream")
HS = Union(NoneT, Int, STREAM)
SPEC = ObjRec("SubprocSpec", background=Bool, captured=Union(Bool, Str), is_proxy=Bool, output_format=Str, ident=Int)
PROC = Rec("Proc", pid=Int, ident=Int)
PIPELINE = Obj("CommandPipeline", procs=List(PROC), proc=Union(NoneT, PROC), term_pgid=Union(NoneT, Int), captured=Union(Bool, Str),
               starttime=Union(NoneT, Real), _pgid=Union(NoneT, Int))
INIT_EXT = {
    "SubprocSpec.run": Ext(ret=PROC, raises=["Exception+"], event="run", log="result", log_type=PROC,
                           ensures=["result.ident == recv.ident"], note="spawns the stage (process or proxy thread); may fail: command not found, permission, fork"),
    "SubprocSpec.close": Ext(event="close-spec", log="recv", log_type=SPEC, note="closes the stage's pipe ends and files (PipeChannel.close is idempotent)"),
    "xt.print_exception": Ext(), "xt.on_main_thread": Ext(ret=Bool), "os.getpgid": Ext(ret=Int), "time.time": Ext(ret=Real),
    "self._return_terminal": Ext(event="return-terminal", log="const", log_type=Int), "CommandPipeline._return_terminal": Ext(event="return-terminal", log="const", log_type=Int),
    "update_process_group": Ext(ret=Bool), "self._save_term_state": Ext(), "CommandPipeline._save_term_state": Ext(),
}
RAN = "len(log('run'))"
INIT_POST = {
    "a-stage-that-cannot-be-spawned-leaves-no-process-handle": "implies(%s < len(specs), self.proc is None)" % RAN,
    "and-every-stage-not-yet-running-is-closed-in-order": "implies(%s < len(specs), log('close-spec') == specs[%s:])" % (RAN, RAN),
    "and-the-terminal-is-returned-exactly-once": "implies(%s < len(specs), len(log('return-terminal')) == 1)" % RAN,
    "otherwise-every-stage-runs-once-in-order-and-the-last-one-is-the-pipeline's-process":
        "implies(%s == len(specs), len(self.procs) == len(specs) and forall(lambda k: self.procs[k].ident == specs[k].ident, 0, len(specs)) "
        "and self.proc == self.procs[len(specs) - 1] and len(log('close-spec')) == 0)" % RAN,
    "no-stage-is-started-after-a-failure": "%s <= len(specs) and forall(lambda k: log('run')[k].ident == specs[k].ident, 0, %s)" % (RAN, RAN),
}
for _prop, _from in (("C09", "After any command or pipeline finishes - ... with command-not-found ... - the shell process holds no additional open file descriptors ... terminal "
                              "ownership ... unchanged (CommandPipeline.__init__ failure branch)"),
                     ("C05", "a pipeline's code is its last stage's; a pipeline whose stage could not be started has no process and reports failure (returncode 1)")):
    contract(
        P + "CommandPipeline.__init__", _prop, params=dict(self=PIPELINE, specs=List(SPEC)),
        globals={"xp.ON_POSIX": Bool}, externals=INIT_EXT,
        config={"untracked_attrs": ("pipeline_index",)},
        requires={"at-least-one-stage": "len(specs) >= 1"},
        locals={"proc": PROC, "pipeline_group": Union(NoneT, Int)},
        loops={"for#1": dict(invariant={
            "one-process-per-stage-so-far": "len(self.procs) == _i and %s == _i" % RAN,
            "in-order": "forall(lambda k: self.procs[k].ident == specs[k].ident and log('run')[k] == self.procs[k], 0, _i)",
            "nothing-closed-yet": "len(log('close-spec')) == 0 and len(log('return-terminal')) == 0"},
            havoc_only=[], havoc_shallow=["self"], havoc_exprs=["self.procs"]),
            "for#3": dict(invariant={"closed-so-far-in-order": "log('close-spec') == specs[i:i + _i]",
                                     "nothing-else-happens": "len(log('return-terminal')) == 1 and %s == i and len(self.procs) == i" % RAN}, havoc_only=[])},
        abstract=[dict(line_contains="for mod in spec.decorators:", may_raise=False, reason="decorator aliases' pre-run hooks (user code)")],
        modifies=["self", "self.procs"],
        ensures=INIT_POST,
        assumptions=["spec.run either returns the started stage or raises having started nothing", "decorate_spec_pre_run hooks do not touch the pipeline's process list"],
        from_property=_from,
    )


# ---- PopenThread: signal handlers installed by the constructor are restored on every failing exit ------------------------
import ast as _ast  # noqa: E402

X = "xonsh/procs/posix.py::"
HANDLER = Opaque("handler")
OLD = Union(NoneT, HANDLER)
PT = Obj("PopenThread", old_int_handler=OLD, old_winch_handler=OLD, old_tstp_handler=OLD, old_quit_handler=OLD, old_break_handler=OLD,
         proc=Union(NoneT, Opaque("popen")))
_KEEP = ("signal.signal(", "subprocess.Popen(", "self._clean_up()", "xt.on_main_thread()", "self.old_", "self.proc = None")


def _setup_noise(node, fv):
    """every top-level statement of __init__ that neither installs a handler, nor spawns, nor cleans up"""
    if not isinstance(node, _ast.stmt) or node not in fv.fn.body:
        return False
    src = _ast.unparse(node)
    return not any(k in src for k in _KEEP)


PT_EXT = {
    "signal.signal": Ext(ret=HANDLER, event="install", log=0, log_type=Int, note="installs a handler, returns the previous one"),
    "xt.on_main_thread": Ext(ret=Bool, pure=True, uf="on_main_thread"), "on_main_thread": Ext(ret=Bool, pure=True, uf="on_main_thread"),
    "subprocess.Popen": Ext(ret=Opaque("popen"), raises=["OSError", "ValueError", "Exception+"],
                            note="spawn; fails with OSError (not found, permission), ValueError (NUL byte in an argument or env value), SubprocessError (preexec_fn), ..."),
    "self._clean_up": Ext(event="clean-up", log="const", log_type=Int), "PopenThread._clean_up": Ext(event="clean-up", log="const", log_type=Int),
    "self._signal_int": Ext(ret=HANDLER, pure=True, attr=True), "self._signal_tstp": Ext(ret=HANDLER, pure=True, attr=True),
    "self._signal_quit": Ext(ret=HANDLER, pure=True, attr=True), "self._signal_winch": Ext(ret=HANDLER, pure=True, attr=True),
    "self._signal_break": Ext(ret=HANDLER, pure=True, attr=True),
    "self._restore_suspend_keybind": Ext(note="terminal suspend key (termios)"), "PopenThread._restore_suspend_keybind": Ext(note="terminal suspend key (termios)"),
    "self._disable_cbreak_stdin": Ext(), "PopenThread._disable_cbreak_stdin": Ext(),
}
contract(
    X + "PopenThread.__init__", "C09", params=dict(self=PT, args=Opaque("args"), stdin=Opaque("any"), stdout=Opaque("any"), stderr=Opaque("any"), kwargs=Opaque("kwargs")),
    globals={"xp.ON_WINDOWS": False, "xp.ON_POSIX": True, "xp.CAN_RESIZE_WINDOW": Bool, "signal.SIGINT": 2, "signal.SIGTSTP": 20, "signal.SIGQUIT": 3, "signal.SIGWINCH": 28},
    externals=PT_EXT,
    abstract=[dict(match=_setup_noise, may_raise=False, reason="attribute / stream set-up of the thread object (ASSUMED not to raise once handlers are installed)")],
    modifies=["self"],
    raises={"Exception+": True},
    ensures_exc={"a-failed-spawn-restores-the-handlers-it-installed": "implies(len(log('install')) >= 1, len(log('clean-up')) == 1)"},
    ensures={"on-success-the-handlers-stay-for-the-thread-to-restore": "len(log('clean-up')) == 0"},
    from_property="After any command ... with a failure ... Ctrl-C still interrupts (handler restoration: posix.py _clean_up)",
)
RESTORE = {"_restore_sigint": ("old_int_handler", "signal.SIGINT", 2), "_restore_sigtstp": ("old_tstp_handler", "signal.SIGTSTP", 20),
           "_restore_sigquit": ("old_quit_handler", "signal.SIGQUIT", 3), "_restore_sigwinch": ("old_winch_handler", "signal.SIGWINCH", 28)}
for _fn, (_fld, _sig, _num) in RESTORE.items():
    contract(
        X + "PopenThread." + _fn, "C09", params=dict(self=PT, frame=NoneT) if _fn != "_restore_sigwinch" else dict(self=PT),
        globals={"xp.ON_WINDOWS": False, "xp.ON_POSIX": True, "xp.CAN_RESIZE_WINDOW": True, "signal.SIGINT": 2, "signal.SIGTSTP": 20, "signal.SIGQUIT": 3, "signal.SIGWINCH": 28},
        externals=PT_EXT, modifies=["self." + _fld],
        ensures={"the-saved-handler-goes-back-once": "implies(old(self.%s) is not None and on_main_thread(), len(log('install')) == 1 and log('install')[0] == %d)" % (_fld, _num),
                 "and-is-forgotten": "self.%s is None" % _fld,
                 "nothing-is-installed-otherwise": "implies(old(self.%s) is None, len(log('install')) == 0)" % _fld},
        from_property="handler restoration (posix.py _restore_sig*)",
    )

RESTORE2 = {"_restore_sigbreak": ("old_break_handler", 21)}
contract(
    X + "PopenThread._clean_up", "C09", params=dict(self=PT),
    globals={"xp.ON_WINDOWS": False, "xp.ON_POSIX": True, "xp.CAN_RESIZE_WINDOW": True, "signal.SIGINT": 2, "signal.SIGTSTP": 20, "signal.SIGQUIT": 3, "signal.SIGWINCH": 28},
    externals=dict(PT_EXT, **{"PopenThread._restore_sigbreak": Ext(note="Windows only (SIGBREAK)"), "self._restore_sigbreak": Ext(note="Windows only (SIGBREAK)")}),
    modifies=["self"],
    ensures={"every-saved-handler-is-restored-and-forgotten": "self.old_int_handler is None and self.old_tstp_handler is None and self.old_quit_handler is None "
                                                               "and self.old_winch_handler is None",
             "exactly-the-installed-ones-go-back":
                 "implies(on_main_thread(), len(log('install')) == (1 if old(self.old_int_handler) is not None else 0) + (1 if old(self.old_tstp_handler) is not None else 0) "
                 "+ (1 if old(self.old_quit_handler) is not None else 0) + (1 if old(self.old_winch_handler) is not None else 0))"},
    from_property="handler restoration (posix.py _clean_up)",
)

# ---- the error path of a finished pipeline hands the terminal back before raising (same contract as C05's) -----------------
from contracts import C05_raise as R5  # noqa: E402

contract(
    P + "CommandPipeline._raise_subproc_error", "C09", params=dict(self=R5.PIPE), globals={"XSH": Obj("XSH", env=Obj("Env"))},
    externals=dict(R5.EXT, **{"CommandPipeline._return_terminal": Ext(event="return_terminal", log="const")}),
    emits=["return_terminal"],
    raises={"CalledProcessError": True},
    ensures={"terminal-untouched-without-error": 'len(log("return_terminal")) == 0'},
    ensures_exc={"terminal-returned-before-raising": 'len(log("return_terminal")) == 1'},
    from_property="terminal ownership ... unchanged (pipelines.py _return_terminal on the raise path)",
)


# ---- single-owner pipe ends: each descriptor is closed at most once, and is forgotten BEFORE it is closed ---------------------
PI = "xonsh/procs/pipes.py::"
FD = Union(NoneT, Int)
CHAN = Obj("PipeChannel", _read_fd=FD, _write_fd=FD, _lock=Opaque("lock"))
PIPE_EXT = {"os.close": Ext(raises=["OSError"], event="close-fd", log=0, log_type=FD, note="closes a descriptor; EBADF etc. are swallowed by the callers")}
for _fn, _fld, _other in (("close_writer", "_write_fd", "_read_fd"), ("close_reader", "_read_fd", "_write_fd")):
    contract(
        PI + "PipeChannel." + _fn, "C09", params=dict(self=CHAN), externals=PIPE_EXT, modifies=["self"],
        ensures={"the-end-is-forgotten": "self.%s is None" % _fld,
                 "closed-exactly-once-if-it-was-open-and-never-otherwise": "implies(old(self.%s) is not None, len(log('close-fd')) == 1 and log('close-fd')[0] == old(self.%s)) and "
                                                                           "implies(old(self.%s) is None, len(log('close-fd')) == 0)" % (_fld, _fld, _fld),
                 "the-other-end-is-untouched": "self.%s == old(self.%s)" % (_other, _other)},
        emits=["close-fd"],
        from_property="holds no additional open file descriptors ... repeating any command any number of times cannot exhaust resources "
                      "(idempotent single-owner fd close: a second close closes nothing, so a recycled descriptor number is never closed by mistake)",
    )
contract(
    PI + "PipeChannel.close", "C09", params=dict(self=CHAN), externals=PIPE_EXT, modifies=["self"],
    ensures={"both-ends-forgotten": "self._read_fd is None and self._write_fd is None",
             "each-open-end-closed-exactly-once-writer-first":
                 "len(log('close-fd')) == (1 if old(self._write_fd) is not None else 0) + (1 if old(self._read_fd) is not None else 0) and "
                 "implies(old(self._write_fd) is not None, log('close-fd')[0] == old(self._write_fd)) and "
                 "implies(old(self._read_fd) is not None, log('close-fd')[len(log('close-fd')) - 1] == old(self._read_fd))"},
    emits=["close-fd"],
    from_property="idempotent single-owner fd close (pipes.py PipeChannel.close*)",
)

CHANREC = ObjRec("PipeChannel", ident=Int)
SPECC = Obj("SubprocSpec", _stdin=HS, _stdout=HS, _stderr=HS, captured_stdout=HS, captured_stderr=HS, pipe_channels=List(CHANREC))
contract(
    "xonsh/procs/specs.py::SubprocSpec.close", "C09", params=dict(self=SPECC),
    externals={"safe_close": Ext(event="safe-close", log=0, log_type=HS, note="closes a file object if it is one and still open (never raises)"),
               "PipeChannel.close": Ext(event="close-channel", log="recv", log_type=CHANREC, note="PipeChannel.close (its own contract): both ends, idempotent")},
    modifies=["self.pipe_channels"],
    loops={"for#1": dict(invariant={"closed-so-far-in-order": "log('close-channel') == self.pipe_channels[:_i]"}, havoc_only=[])},
    ensures={"every-handle-of-the-stage-is-released": "log('safe-close') == [old(self._stdin), old(self._stdout), old(self._stderr), old(self.captured_stdout), old(self.captured_stderr)]",
             "every-channel-is-closed-once-in-order": "log('close-channel') == old(self.pipe_channels)",
             "and-forgotten-so-a-second-close-does-nothing": "len(self.pipe_channels) == 0"},
    emits=["safe-close", "close-channel"],
    from_property="close everything on every exit path (specs.py SubprocSpec.close; idempotent)",
)
