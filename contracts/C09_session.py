"""C09 - running a command leaves the session as it found it: what the pipeline constructor, the process wrappers and the
error path must undo on EVERY exit path, as effect-trace contracts on the real source."""
from pyvc.contract import *

P = "xonsh/procs/pipelines.py::"
STREAM = Opaque("stream")
HS = Union(NoneT, Int, STREAM)
SPEC = ObjRec("SubprocSpec", background=Bool, captured=Union(Bool, Str), is_proxy=Bool, output_format=Str, ident=Int)
PROC = Rec("Proc", pid=Int, ident=Int)
PIPELINE = Obj("CommandPipeline", procs=List(PROC), proc=Union(NoneT, PROC), term_pgid=Union(NoneT, Int), captured=Union(Bool, Str),
               starttime=Union(NoneT, Real), _pgid=Union(NoneT, Int))
INIT_EXT = {
    "SubprocSpec.run": Ext(ret=PROC, raises=["Exception+"], event="run", log="result", log_type=PROC,
                           ensures=["result.ident == recv.ident"], note="spawns the stage (process or proxy thread); may fail: command not found, permission, fork"),
    "SubprocSpec.close": Ext(event="close-spec", log="recv", log_type=SPEC, note="closes the stage's pipe ends and files (PipeChannel.close is idempotent)"),
    "xt.print_exception": Ext(), "xt.on_main_thread": Ext(ret=Bool), "os.getpgid": Ext(ret=Int), "time.time": Ext(ret=Real),
    "self._return_terminal": Ext(event="return-terminal", log="const", log_type=Int), "CommandPipeline._return_terminal": Ext(event="return-terminal", log="const", log_type=Int),
    "update_process_group": Ext(ret=Bool), "self._save_term_state": Ext(), "CommandPipeline._save_term_state": Ext(),
}
RAN = "len(log('run'))"
INIT_POST = {
    "a-stage-that-cannot-be-spawned-leaves-no-process-handle": "implies(%s < len(specs), self.proc is None)" % RAN,
    "and-every-stage-not-yet-running-is-closed-in-order": "implies(%s < len(specs), log('close-spec') == specs[%s:])" % (RAN, RAN),
    "and-the-terminal-is-returned-exactly-once": "implies(%s < len(specs), len(log('return-terminal')) == 1)" % RAN,
    "otherwise-every-stage-runs-once-in-order-and-the-last-one-is-the-pipeline's-process":
        "implies(%s == len(specs), len(self.procs) == len(specs) and forall(lambda k: self.procs[k].ident == specs[k].ident, 0, len(specs)) "
        "and self.proc == self.procs[len(specs) - 1] and len(log('close-spec')) == 0)" % RAN,
    "no-stage-is-started-after-a-failure": "%s <= len(specs) and forall(lambda k: log('run')[k].ident == specs[k].ident, 0, %s)" % (RAN, RAN),
}
for _prop, _from in (("C09", "After any command or pipeline finishes - ... with command-not-found ... - the shell process holds no additional open file descriptors ... terminal "
                              "ownership ... unchanged (CommandPipeline.__init__ failure branch)"),
                     ("C05", "a pipeline's code is its last stage's; a pipeline whose stage could not be started has no process and reports failure (returncode 1)")):
    contract(
        P + "CommandPipeline.__init__", _prop, params=dict(self=PIPELINE, specs=List(SPEC)),
        globals={"xp.ON_POSIX": Bool}, externals=INIT_EXT,
        config={"untracked_attrs": ("pipeline_index",)},
        requires={"at-least-one-stage": "len(specs) >= 1"},
        locals={"proc": PROC, "pipeline_group": Union(NoneT, Int)},
        loops={"for#1": dict(invariant={
            "one-process-per-stage-so-far": "len(self.procs) == _i and %s == _i" % RAN,
            "in-order": "forall(lambda k: self.procs[k].ident == specs[k].ident and log('run')[k] == self.procs[k], 0, _i)",
            "nothing-closed-yet": "len(log('close-spec')) == 0 and len(log('return-terminal')) == 0"},
            havoc_only=[], havoc_shallow=["self"], havoc_exprs=["self.procs"]),
            "for#3": dict(invariant={"closed-so-far-in-order": "log('close-spec') == specs[i:i + _i]",
                                     "nothing-else-happens": "len(log('return-terminal')) == 1 and %s == i and len(self.procs) == i" % RAN}, havoc_only=[])},
        abstract=[dict(line_contains="for mod in spec.decorators:", may_raise=False, reason="decorator aliases' pre-run hooks (user code)")],
        modifies=["self", "self.procs"],
        ensures=INIT_POST,
        assumptions=["spec.run either returns the started stage or raises having started nothing", "decorate_spec_pre_run hooks do not touch the pipeline's process list"],
        from_property=_from,
    )


# ---- PopenThread: signal handlers installed by the constructor are restored on every failing exit ------------------------
import ast as _ast  # noqa: E402

X = "xonsh/procs/posix.py::"
HANDLER = Opaque("handler")
OLD = Union(NoneT, HANDLER)
PT = Obj("PopenThread", old_int_handler=OLD, old_winch_handler=OLD, old_tstp_handler=OLD, old_quit_handler=OLD, old_break_handler=OLD,
         proc=Union(NoneT, Opaque("popen")))
_KEEP = ("signal.signal(", "subprocess.Popen(", "self._clean_up()", "xt.on_main_thread()", "self.old_", "self.proc = None")


def _setup_noise(node, fv):
    """every top-level statement of __init__ that neither installs a handler, nor spawns, nor cleans up"""
    if not isinstance(node, _ast.stmt) or node not in fv.fn.body:
        return False
    src = _ast.unparse(node)
    return not any(k in src for k in _KEEP)


PT_EXT = {
    "signal.signal": Ext(ret=HANDLER, event="install", log=0, log_type=Int, note="installs a handler, returns the previous one"),
    "xt.on_main_thread": Ext(ret=Bool, pure=True, uf="on_main_thread"), "on_main_thread": Ext(ret=Bool, pure=True, uf="on_main_thread"),
    "subprocess.Popen": Ext(ret=Opaque("popen"), raises=["OSError", "ValueError", "Exception+"],
                            note="spawn; fails with OSError (not found, permission), ValueError (NUL byte in an argument or env value), SubprocessError (preexec_fn), ..."),
    "self._clean_up": Ext(event="clean-up", log="const", log_type=Int), "PopenThread._clean_up": Ext(event="clean-up", log="const", log_type=Int),
    "self._signal_int": Ext(ret=HANDLER, pure=True, attr=True), "self._signal_tstp": Ext(ret=HANDLER, pure=True, attr=True),
    "self._signal_quit": Ext(ret=HANDLER, pure=True, attr=True), "self._signal_winch": Ext(ret=HANDLER, pure=True, attr=True),
    "self._signal_break": Ext(ret=HANDLER, pure=True, attr=True),
    "self._restore_suspend_keybind": Ext(note="terminal suspend key (termios)"), "PopenThread._restore_suspend_keybind": Ext(note="terminal suspend key (termios)"),
    "self._disable_cbreak_stdin": Ext(), "PopenThread._disable_cbreak_stdin": Ext(),
}
contract(
    X + "PopenThread.__init__", "C09", params=dict(self=PT, args=Opaque("args"), stdin=Opaque("any"), stdout=Opaque("any"), stderr=Opaque("any"), kwargs=Opaque("kwargs")),
    globals={"xp.ON_WINDOWS": False, "xp.ON_POSIX": True, "xp.CAN_RESIZE_WINDOW": Bool, "signal.SIGINT": 2, "signal.SIGTSTP": 20, "signal.SIGQUIT": 3, "signal.SIGWINCH": 28},
    externals=PT_EXT,
    abstract=[dict(match=_setup_noise, may_raise=False, reason="attribute / stream set-up of the thread object (ASSUMED not to raise once handlers are installed)")],
    modifies=["self"],
    raises={"Exception+": True},
    ensures_exc={"a-failed-spawn-restores-the-handlers-it-installed": "implies(len(log('install')) >= 1, len(log('clean-up')) == 1)"},
    ensures={"on-success-the-handlers-stay-for-the-thread-to-restore": "len(log('clean-up')) == 0"},
    from_property="After any command ... with a failure ... Ctrl-C still interrupts (handler restoration: posix.py _clean_up)",
)
RESTORE = {"_restore_sigint": ("old_int_handler", "signal.SIGINT", 2), "_restore_sigtstp": ("old_tstp_handler", "signal.SIGTSTP", 20),
           "_restore_sigquit": ("old_quit_handler", "signal.SIGQUIT", 3), "_restore_sigwinch": ("old_winch_handler", "signal.SIGWINCH", 28)}
for _fn, (_fld, _sig, _num) in RESTORE.items():
    contract(
        X + "PopenThread." + _fn, "C09", params=dict(self=PT, frame=NoneT) if _fn != "_restore_sigwinch" else dict(self=PT),
        globals={"xp.ON_WINDOWS": False, "xp.ON_POSIX": True, "xp.CAN_RESIZE_WINDOW": True, "signal.SIGINT": 2, "signal.SIGTSTP": 20, "signal.SIGQUIT": 3, "signal.SIGWINCH": 28},
        externals=PT_EXT, modifies=["self." + _fld], config={"opaque_truthiness": ("handler",)},
        ensures={"the-saved-handler-goes-back-once": "implies(old(self.%s) is not None and on_main_thread(), len(log('install')) == 1 and log('install')[0] == %d)" % (_fld, _num),
                 "and-is-forgotten": "self.%s is None" % _fld,
                 "nothing-is-installed-otherwise": "implies(old(self.%s) is None, len(log('install')) == 0)" % _fld},
        from_property="handler restoration (posix.py _restore_sig*)",
    )

RESTORE2 = {"_restore_sigbreak": ("old_break_handler", 21)}
contract(
    X + "PopenThread._clean_up", "C09", params=dict(self=PT),
    globals={"xp.ON_WINDOWS": False, "xp.ON_POSIX": True, "xp.CAN_RESIZE_WINDOW": True, "signal.SIGINT": 2, "signal.SIGTSTP": 20, "signal.SIGQUIT": 3, "signal.SIGWINCH": 28},
    externals=dict(PT_EXT, **{"PopenThread._restore_sigbreak": Ext(note="Windows only (SIGBREAK)"), "self._restore_sigbreak": Ext(note="Windows only (SIGBREAK)")}),
    modifies=["self"], config={"opaque_truthiness": ("handler",)},
    ensures={"every-saved-handler-is-restored-and-forgotten": "self.old_int_handler is None and self.old_tstp_handler is None and self.old_quit_handler is None "
                                                               "and self.old_winch_handler is None",
             "exactly-the-installed-ones-go-back":
                 "implies(on_main_thread(), len(log('install')) == (1 if old(self.old_int_handler) is not None else 0) + (1 if old(self.old_tstp_handler) is not None else 0) "
                 "+ (1 if old(self.old_quit_handler) is not None else 0) + (1 if old(self.old_winch_handler) is not None else 0))"},
    from_property="handler restoration (posix.py _clean_up)",
)

# ---- the error path of a finished pipeline hands the terminal back before raising (same contract as C05's) -----------------
from contracts import C05_raise as R5  # noqa: E402

contract(
    P + "CommandPipeline._raise_subproc_error", "C09", params=dict(self=R5.PIPE), globals={"XSH": Obj("XSH", env=Obj("Env"))},
    externals=dict(R5.EXT, **{"CommandPipeline._return_terminal": Ext(event="return_terminal", log="const")}),
    emits=["return_terminal"],
    raises={"CalledProcessError": True},
    ensures={"terminal-untouched-without-error": 'len(log("return_terminal")) == 0'},
    ensures_exc={"terminal-returned-before-raising": 'len(log("return_terminal")) == 1'},
    from_property="terminal ownership ... unchanged (pipelines.py _return_terminal on the raise path)",
)


# ---- single-owner pipe ends: each descriptor is closed at most once, and is forgotten BEFORE it is closed ---------------------
PI = "xonsh/procs/pipes.py::"
FD = Union(NoneT, Int)
CHAN = Obj("PipeChannel", _read_fd=FD, _write_fd=FD, _lock=Opaque("lock"))
PIPE_EXT = {"os.close": Ext(raises=["OSError"], event="close-fd", log=0, log_type=FD, note="closes a descriptor; EBADF etc. are swallowed by the callers")}
for _fn, _fld, _other in (("close_writer", "_write_fd", "_read_fd"), ("close_reader", "_read_fd", "_write_fd")):
    contract(
        PI + "PipeChannel." + _fn, "C09", params=dict(self=CHAN), externals=PIPE_EXT, modifies=["self"],
        ensures={"the-end-is-forgotten": "self.%s is None" % _fld,
                 "closed-exactly-once-if-it-was-open-and-never-otherwise": "implies(old(self.%s) is not None, len(log('close-fd')) == 1 and log('close-fd')[0] == old(self.%s)) and "
                                                                           "implies(old(self.%s) is None, len(log('close-fd')) == 0)" % (_fld, _fld, _fld),
                 "the-other-end-is-untouched": "self.%s == old(self.%s)" % (_other, _other)},
        emits=["close-fd"],
        from_property="holds no additional open file descriptors ... repeating any command any number of times cannot exhaust resources "
                      "(idempotent single-owner fd close: a second close closes nothing, so a recycled descriptor number is never closed by mistake)",
    )
contract(
    PI + "PipeChannel.close", "C09", params=dict(self=CHAN), externals=PIPE_EXT, modifies=["self"],
    ensures={"both-ends-forgotten": "self._read_fd is None and self._write_fd is None",
             "each-open-end-closed-exactly-once-writer-first":
                 "len(log('close-fd')) == (1 if old(self._write_fd) is not None else 0) + (1 if old(self._read_fd) is not None else 0) and "
                 "implies(old(self._write_fd) is not None, log('close-fd')[0] == old(self._write_fd)) and "
                 "implies(old(self._read_fd) is not None, log('close-fd')[len(log('close-fd')) - 1] == old(self._read_fd))"},
    emits=["close-fd"],
    from_property="idempotent single-owner fd close (pipes.py PipeChannel.close*)",
)

CHANREC = ObjRec("PipeChannel", ident=Int)
SPECC = Obj("SubprocSpec", _stdin=HS, _stdout=HS, _stderr=HS, captured_stdout=HS, captured_stderr=HS, pipe_channels=List(CHANREC))
contract(
    "xonsh/procs/specs.py::SubprocSpec.close", "C09", params=dict(self=SPECC),
    externals={"safe_close": Ext(event="safe-close", log=0, log_type=HS, note="closes a file object if it is one and still open (never raises)"),
               "PipeChannel.close": Ext(event="close-channel", log="recv", log_type=CHANREC, note="PipeChannel.close (its own contract): both ends, idempotent")},
    modifies=["self.pipe_channels"],
    loops={"for#1": dict(invariant={"closed-so-far-in-order": "log('close-channel') == self.pipe_channels[:_i]"}, havoc_only=[])},
    ensures={"every-handle-of-the-stage-is-released": "log('safe-close') == [old(self._stdin), old(self._stdout), old(self._stderr), old(self.captured_stdout), old(self.captured_stderr)]",
             "every-channel-is-closed-once-in-order": "log('close-channel') == old(self.pipe_channels)",
             "and-forgotten-so-a-second-close-does-nothing": "len(self.pipe_channels) == 0"},
    emits=["safe-close", "close-channel"],
    from_property="close everything on every exit path (specs.py SubprocSpec.close; idempotent)",
)


# ---- cmds_to_specs: whatever fails while the stages are being built and wired, every stage built so far is closed ---------------------
# (the try-body is abstracted here - it is verified for C07/C10 - so this contract is about the handler alone: statements of the body may
#  do anything to the list of stages and may raise anything)
SP = "xonsh/procs/specs.py::"
CLEAN_EXT = {
    "SubprocSpec.close": Ext(event="close-spec", log="recv", log_type=SPEC, note="its own contract: releases all handles and channels, idempotent"),
    "_update_last_spec": Ext(raises=["Exception+"]),
}
_BODY = [dict(line_contains=k, may_raise=True, havoc=["specs"], reason="try-body statement (verified for C07 / C10); may raise anything")
         for k in ("for i, cmd in enumerate(cmds):", "for i, redirect in enumerate(redirects):", "for spec in specs:", "if not XSH.env.get(", "if len(specs) > 1:")]
contract(
    SP + "cmds_to_specs", "C09", variant_id="cleanup", params=dict(cmds=Seq(Opaque("cmd")), captured=Union(Bool, Str), envs=Opaque("envs"), in_boolop=Bool),
    externals=CLEAN_EXT, locals={"specs": List(SPEC), "redirects": List(Str)}, returns=List(SPEC),
    abstract=_BODY,
    loops={"for#5": dict(invariant={"closed-so-far-in-order": "log('close-spec') == specs[:_i]"}, havoc_only=[])},
    raises={"BaseException+": True},
    ensures={"nothing-is-closed-on-success": "len(log('close-spec')) == 0"},
    ensures_exc_locals={"every-stage-built-so-far-is-closed-exactly-once-in-order-before-the-error-escapes": "log('close-spec') == specs"},
    emits=["close-spec"],
    from_property="After any command or pipeline finishes - ... with a failure ... - the shell process holds no additional open file descriptors "
                  "(a pipeline that cannot be wired, e.g. an unknown redirect or two redirections of one stream, closes every pipe end and file it had opened)",
)


# ---- safe_fdclose: the one place where pipeline code closes files - never the shell's own streams, never twice, never raising ----------
RD = "xonsh/procs/readers.py::"
CACHE = Opaque("closecache")
FD_EXT = {
    "closecache.get": Ext(ret=Bool, pure=True, uf="recorded_closed", note="ghost read: the handle is recorded in the pipeline's cache as already closed successfully"),
    "recorded_closed": Ext(ret=Bool, pure=True, uf="recorded_closed", args=[CACHE, HS]),
    "closecache.__setitem__": Ext(event="record", log=0, log_type=HS),
    "os.close": Ext(event="close-fd", log=0, log_type=Int, raises=["OSError"]),
    "stream.close": Ext(event="close-stream", log="recv", log_type=STREAM, raises=["OSError"]),
}
contract(
    RD + "safe_fdclose", "C09", params=dict(handle=HS, cache=Union(NoneT, CACHE)), globals={"sys.stdin": STREAM, "sys.stdout": STREAM, "sys.stderr": STREAM},
    externals=FD_EXT, emits=["close-fd", "close-stream", "record"],
    ensures={
        "the-shell's-own-descriptors-0-1-2-are-never-closed": "forall(lambda k: log('close-fd')[k] >= 3, 0, len(log('close-fd')))",
        "the-shell's-own-standard-streams-are-never-closed":
            "forall(lambda k: log('close-stream')[k] != sys.stdin and log('close-stream')[k] != sys.stdout and log('close-stream')[k] != sys.stderr, 0, len(log('close-stream')))",
        "a-handle-recorded-as-closed-is-not-closed-again (a recycled descriptor number would be closed by mistake)":
            "implies(cache is not None and recorded_closed(cache, handle, False), len(log('close-fd')) == 0 and len(log('close-stream')) == 0)",
        "at-most-one-close-and-only-of-the-handle-given":
            "len(log('close-fd')) + len(log('close-stream')) <= 1 and forall(lambda k: log('close-fd')[k] == handle, 0, len(log('close-fd'))) "
            "and forall(lambda k: log('close-stream')[k] == handle, 0, len(log('close-stream')))",
        "a-closable-handle-not-yet-recorded-IS-closed":
            "implies(handle is not None and not (cache is not None and recorded_closed(cache, handle, False)) and not (isinstance(handle, int) and handle < 3) "
            "and handle != sys.stdin and handle != sys.stdout and handle != sys.stderr, len(log('close-fd')) + len(log('close-stream')) == 1)",
    },
    from_property="the shell process holds no additional open file descriptors ... and its own standard streams are unchanged (a failing close is swallowed: no exception may "
                  "interrupt the closing of the remaining handles)",
)


# ---- CommandPipeline._safe_close / _end / end: the closing steps run on EVERY exit of the drain, exactly once ---------------------------
PL2 = Obj("CommandPipeline", proc=Union(NoneT, Opaque("proc")), ended=Bool, _closed_handle_cache=CACHE)
contract(
    P + "CommandPipeline._safe_close", "C09", params=dict(self=PL2, handle=HS), globals={"sys.stdin": STREAM, "sys.stdout": STREAM, "sys.stderr": STREAM},
    externals=FD_EXT, calls={"safe_fdclose": RD + "safe_fdclose"}, emits=["close-fd", "close-stream", "record"],
    ensures={"an-integer-descriptor-is-never-closed-here (it belongs to a PipeChannel, which closes it once)": "len(log('close-fd')) == 0",
             "at-most-one-stream-and-only-the-handle-given": "len(log('close-stream')) <= 1 and forall(lambda k: log('close-stream')[k] == handle, 0, len(log('close-stream')))",
             "never-the-shell's-own-standard-streams":
                 "forall(lambda k: log('close-stream')[k] != sys.stdin and log('close-stream')[k] != sys.stdout and log('close-stream')[k] != sys.stderr, 0, len(log('close-stream')))"},
    from_property="no additional open file descriptors ... its own standard streams unchanged (descriptor numbers may be recycled: only their owner closes them)",
)
END_EXT = {
    "hasattr": Ext(ret=Bool, pure=True, uf="has_attr", args=[Union(NoneT, Opaque("proc")), Str], ensures=["implies(a0 is None, not result)"], note="None has no such attribute"),
    "has_attr": Ext(ret=Bool, pure=True, uf="has_attr", args=[Union(NoneT, Opaque("proc")), Str]), "prevs_closed": Ext(ret=Bool, pure=True, uf="prevs_closed", args=[Opaque("proc")]),
    "proc.prevs_are_closed": Ext(ret=Bool, pure=True, attr=True, uf="prevs_closed", args=[Opaque("proc")]),
    "CommandPipeline._close_prev_procs": Ext(event="close-prevs", log="const", log_type=Int, note="its own contract: no exception escapes"),
    "CommandPipeline._close_proc": Ext(event="close-last", log="const", log_type=Int, note="its own contract: no exception escapes"),
    "CommandPipeline._check_signal": Ext(), "CommandPipeline._apply_to_history": Ext(), "CommandPipeline._apply_to_thread_local": Ext(),
    "CommandPipeline._raise_subproc_error": Ext(raises=["Exception+"], note="its own contract (C05/C09): CalledProcessError after the terminal was returned"),
    "CommandPipeline._endtime": Ext(), "CommandPipeline._set_input": Ext(raises=["Exception+"]),
}
_CLOSED = {"the-last-stage-is-closed-exactly-once": "len(log('close-last')) == 1",
           "the-earlier-stages-are-closed-unless-the-reader-already-did": "len(log('close-prevs')) == (0 if (self.proc is not None and has_attr(self.proc, 'prevs_are_closed') and prevs_closed(self.proc)) else 1)",
           "the-pipeline-is-marked-ended": "self.ended"}
contract(
    P + "CommandPipeline._end", "C09", params=dict(self=PL2, tee_output=Bool), externals=END_EXT, emits=["close-prevs", "close-last"],
    abstract=[dict(line_contains="if tee_output:", may_raise="BaseException", reason="draining the output (reader threads, C06); may be interrupted by anything, KeyboardInterrupt included")],
    modifies=["self.ended"],
    raises={"BaseException+": True},
    ensures=_CLOSED, ensures_exc=_CLOSED,
    from_property="After any command or pipeline finishes - successfully, with a failure, ... or interrupted - the shell process holds no additional open file descriptors "
                  "(the closing steps sit in a finally: they run on every exit of the drain, once)",
)
contract(
    P + "CommandPipeline.end", "C09", params=dict(self=PL2, tee_output=Bool),
    externals={"CommandPipeline._end": Ext(event="end", log="const", log_type=Int, raises=["BaseException+"], havoc=["self"]),
               "CommandPipeline._return_terminal": Ext(event="return-terminal", log="const", log_type=Int)},
    modifies=["self"], raises={"BaseException+": True}, emits=["end", "return-terminal"],
    ensures={"an-ended-pipeline-is-not-ended-twice (its handles are closed: a second drain would read closed pipes)": "implies(old(self.ended), len(log('end')) == 0 and len(log('return-terminal')) == 0)",
             "otherwise-it-is-ended-once-and-the-terminal-goes-back-once": "implies(not old(self.ended), len(log('end')) == 1 and len(log('return-terminal')) == 1)"},
    ensures_exc={"the-closing-steps-were-attempted-once": "len(log('end')) == 1"},
    from_property="terminal ownership ... unchanged after any command finishes",
)


# ---- CommandPipeline._close_proc: the last stage's handles and channels, each released once, no exception escaping ------------------------
PROCH = Obj("ProcHandles", stdin=HS, stdout=HS, stderr=HS, pipe_channels=List(CHANREC))
SPECL = Obj("SubprocSpec", stdin=HS, stdout=HS, stderr=HS, captured_stdout=HS, captured_stderr=HS, pipe_channels=List(CHANREC))
PL3 = Obj("CommandPipeline", spec=SPECL, proc=Nullable(PROCH))
CP_EXT = {
    "hasattr": Ext(ret=Bool, pure=True, uf="has_attr2", note="whether the process object is a thread (has join)"),
    "ProcHandles.join": Ext(raises=["Exception+"], note="waits (3 s) for a proxy thread; may fail: swallowed"),
    "getattr": Ext(ret=List(CHANREC), model=lambda R, a, k, n, f, r: R.getattr(a[0], "pipe_channels"), note="getattr(p, 'pipe_channels', ()): the channels of the process object (modelled as always present, possibly empty)"),
    "CommandPipeline._safe_close": Ext(event="safe-close", log=0, log_type=HS, note="its own contract: never an integer descriptor, never the shell's std streams, at most once, never raises"),
    "PipeChannel.close": Ext(event="close-channel", log="recv", log_type=CHANREC, note="its own contract: both ends, each at most once"),
}
contract(
    P + "CommandPipeline._close_proc", "C09", params=dict(self=PL3), externals=CP_EXT, emits=["safe-close", "close-channel"],
    loops={"for#1": dict(invariant={"spec-channels-closed-so-far-in-order": "log('close-channel') == self.spec.pipe_channels[:_i]"}, havoc_only=[]),
           "for#2": dict(invariant={"then-the-process's-channels-in-order": "log('close-channel') == self.spec.pipe_channels + self.proc.pipe_channels[:_i]"}, havoc_only=[])},
    ensures={
        "every-handle-of-the-last-stage-is-released-once-in-order":
            "implies(self.proc is None, log('safe-close') == [self.spec.stdin, self.spec.stdout, self.spec.stderr, self.spec.captured_stdout, self.spec.captured_stderr]) and "
            "implies(self.proc is not None, log('safe-close') == [self.spec.stdin, self.spec.stdout, self.spec.stderr, self.spec.captured_stdout, self.spec.captured_stderr, "
            "self.proc.stdin, self.proc.stdout, self.proc.stderr])",
        "every-channel-is-closed-once-in-order": "implies(self.proc is None, log('close-channel') == self.spec.pipe_channels) and "
                                                 "implies(self.proc is not None, log('close-channel') == self.spec.pipe_channels + self.proc.pipe_channels)",
    },
    from_property="the shell process holds no additional open file descriptors (closing the last stage: nothing may be skipped, and a failing wait must not prevent the closing)",
)


# ---- CommandPipeline._close_prev_procs: an interrupted or failing wait for an earlier stage must not stop the closing of the rest ----------
SPECR = ObjRec("SubprocSpec", ident=Int, stdin=HS, stdout=HS, stderr=HS, pipe_channels=Seq(CHANREC))
PROCR = ObjRec("ProcHandles", ident=Int, stdin=HS, stdout=HS, stderr=HS, pipe_channels=Seq(CHANREC))
PL4 = Obj("CommandPipeline", specs=List(SPECR), procs=List(Union(NoneT, PROCR)))
CPP_EXT = {
    "hasattr": Ext(ret=Bool, pure=True, uf="has_attr3"),
    "ProcHandles.join": Ext(raises=["BaseException+"], note="waits for a proxy thread; may be interrupted (KeyboardInterrupt) or fail"),
    "ProcHandles.wait": Ext(raises=["BaseException+"], note="waits for a process; may be interrupted or time out"),
    "getattr": Ext(ret=Seq(CHANREC), pure=True, uf="channels_of"),
    "CommandPipeline._safe_close": Ext(event="safe-close", log=0, log_type=HS, note="its own contract: never raises"),
    "PipeChannel.close": Ext(event="close-channel", log="recv", log_type=CHANREC), "PipeChannel.close_reader": Ext(event="close-reader", log="recv", log_type=CHANREC),
}
contract(
    P + "CommandPipeline._close_prev_procs", "C09", params=dict(self=PL4), externals=CPP_EXT, emits=["safe-close", "close-channel", "close-reader"],
    requires={"one-process-slot-per-stage": "len(self.procs) == len(self.specs)"},
    loops={"for#1": dict(invariant={"three-spec-handles-per-stage-so-far-at-least": "len(log('safe-close')) >= 3 * _i"}, havoc_only=[]),
           "for#2": dict(invariant={"t": "True"}, havoc_only=[]), "for#3": dict(invariant={"t": "True"}, havoc_only=[]), "for#4": dict(invariant={"t": "True"}, havoc_only=[])},
    ensures={"every-earlier-stage-had-its-three-handles-released": "len(log('safe-close')) >= 3 * (len(self.specs) - 1) or len(self.specs) == 0"},
    from_property="no additional open file descriptors ... Ctrl-C still interrupts (an interrupted wait for an earlier stage - KeyboardInterrupt is a BaseException - must not prevent "
                  "closing the descriptors of the remaining stages: NO exception may escape this function)",
)
