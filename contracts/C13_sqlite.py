"""C13 - the SQLite backend: a rewrite is all-or-nothing because every data-changing statement of one operation runs inside ONE
transaction of a connection opened with python's default isolation level.

What is ASSUMED (the database engine, not xonsh): with the default `isolation_level`, sqlite3 opens an implicit transaction before
the first INSERT / UPDATE / DELETE, `with conn:` commits it on normal exit and rolls it back on an exception, and a process killed
inside a transaction leaves the file as it was before the transaction (journal).  What is PROVED on xonsh's source:
 * _xh_sqlite_get_conn opens the connection in that default mode (any keyword argument to sqlite3.connect is outside the declared
   behaviour), hands it out INSIDE `with conn:` and closes it on every path;
 * each writer issues all its statements inside one such block and never commits before its last statement."""
from pyvc.contract import *

Q = "xonsh/history/sqlite.py::"
CONN = Opaque("file")      # the connection object; used as a context manager (`with conn:` = one transaction)
CUR = Opaque("cursor")


def _yield_log(R, frame, val, ynode):
    from pyvc.core import mk_none, mk_int
    R.ctx.emit_log(R, "txn", mk_int(2))   # 2 = the connection is handed to the caller here
    return mk_none()


def _conn_ctx(R, cmv, node, frame):
    """`with conn:` on the connection: transaction begin / end markers in the shared `txn` log"""
    from pyvc import models
    from pyvc.core import mk_int
    if cmv.t.kind == "opaque" and cmv.t.name == "file":
        ctxv = R.ctx

        class _T(models.CtxMgr):
            def enter(self, R2):
                ctxv.emit_log(R2, "txn", mk_int(1))   # 1 = transaction scope entered
                return cmv

            def exit(self, R2, exc):
                ctxv.emit_log(R2, "txn", mk_int(3))   # 3 = scope left (commit, or rollback on an exception)
                return False

        return _T()
    return None


contract(
    Q + "_xh_sqlite_get_conn", "C13", params=dict(filename=Union(NoneT, Str)),
    externals={"_xh_sqlite_get_file_name": Ext(ret=Str, pure=True), "str": Ext(ret=Str, pure=True),
               "sqlite3.connect": Ext(ret=CONN, raises=["Exception+"], allowed_kwargs=[], event="connect", log="const", log_type=Int,
                                      note="default isolation level: implicit transactions (ASSUMED sqlite3 behaviour)"),
               "file.close": Ext(event="txn", log=("const", 4), log_type=Int),
               "<txn>": Ext(event="txn", log_type=Int)},
    hooks={"yield": _yield_log, "ctxmgr": _conn_ctx},
    raises={"Exception+": True},
    ensures={"the-connection-is-handed-out-inside-one-transaction-scope-and-closed-afterwards": "log('txn') == [1, 2, 3, 4]"},
    ensures_exc={"a-failed-open-leaves-nothing-behind": "len(log('connect')) == 1 and len(log('txn')) == 0"},
    from_property="deleting from or de-duplicating the history files (SQLite backend): either the complete previous or the complete new version",
)

W_EXT = {
    "_xh_sqlite_get_conn": Ext(ret=CONN, raises=["Exception+"], note="its own contract: a connection in default isolation mode, inside one transaction scope"),
    "file.cursor": Ext(ret=CUR, pure=True), "_xh_sqlite_create_history_table": Ext(raises=["Exception+"], event="sql", log=("const", 1), log_type=Int),
    "cursor.execute": Ext(raises=["Exception+"], event="sql", log=("const", 1), log_type=Int),
    "cursor.fetchone": Ext(ret=Tuple(Int), raises=["Exception+"]), "cursor.fetchall": Ext(ret=Seq(Tuple(Str, Int, Int)), raises=["Exception+"]),
    "cursor.rowcount": Ext(ret=Int, pure=True, attr=True),
    "file.commit": Ext(raises=["Exception+"], event="sql", log=("const", 2), log_type=Int),
    "_xh_sqlite_get_records": Ext(ret=Seq(Tuple(Str, Int)), raises=["Exception+"], event="sql", log=("const", 1), log_type=Int),
    "rx.match": Ext(ret=Bool, pure=True),
}
NO_EARLY_COMMIT = "2 not in log('sql')[:len(log('sql')) - 1]"    # a commit (2) can only be the very last entry of the statement log
ONE_SCOPE = "len(log('close')) <= 1"
contract(
    Q + "xh_sqlite_erasedups", "C13", params=dict(filename=Union(NoneT, Str)), globals={"XH_SQLITE_TABLE_NAME": Str}, externals=W_EXT,
    returns=Tuple(Int, Int), locals={"dups": Seq(Tuple(Str, Int, Int)), "removed": Int, "total": Int},
    loops={"for#1": dict(invariant={"nothing-committed-yet": "2 not in log('sql')"})},
    raises={"Exception+": True},
    ensures={"no-commit-before-the-last-statement": NO_EARLY_COMMIT, "one-connection-scope": ONE_SCOPE},
    ensures_exc={"no-commit-before-the-last-statement": NO_EARLY_COMMIT},
    from_property="de-duplicating ... SQLite: all statements of the rewrite in one transaction",
)
contract(
    Q + "xh_sqlite_delete_input_matching", "C13", params=dict(pattern=Opaque("rx"), filename=Union(NoneT, Str)), globals={"XH_SQLITE_TABLE_NAME": Str}, externals=W_EXT,
    returns=Int, locals={"deleted": Int, "sql": Str},
    loops={"for#1": dict(invariant={"nothing-committed-yet": "2 not in log('sql')"})},
    raises={"Exception+": True},
    ensures={"no-commit-before-the-last-statement": NO_EARLY_COMMIT, "one-connection-scope": ONE_SCOPE},
    ensures_exc={"no-commit-before-the-last-statement": NO_EARLY_COMMIT},
    from_property="deleting from ... SQLite: all statements of the rewrite in one transaction",
)

W2 = dict(W_EXT)
W2.update({"_xh_sqlite_insert_command": Ext(raises=["Exception+"], event="sql", log=("const", 1), log_type=Int),
           "_xh_sqlite_delete_records": Ext(ret=Union(NoneT, Int), raises=["Exception+"], event="sql", log=("const", 1), log_type=Int), "str": Ext(ret=Str, pure=True)})
for _fn, _params in (("xh_sqlite_append_history", dict(cmd=Opaque("cmd"), sessionid=Opaque("sid"), store_stdout=Bool, filename=Union(NoneT, Str))),
                     ("xh_sqlite_delete_items", dict(size_to_keep=Int, filename=Union(NoneT, Str))),
                     ("xh_sqlite_wipe_session", dict(sessionid=Opaque("sid"), filename=Union(NoneT, Str)))):
    contract(
        Q + _fn, "C13", params=_params, globals={"XH_SQLITE_TABLE_NAME": Str}, externals=W2, locals={"sql": Str},
        raises={"Exception+": True},
        ensures={"no-commit-before-the-last-statement": NO_EARLY_COMMIT, "one-connection-scope": ONE_SCOPE},
        ensures_exc={"no-commit-before-the-last-statement": NO_EARLY_COMMIT},
        from_property="SQLite backend: every statement of one history operation inside one transaction",
    )
