"""C15 - alias expansion always terminates and preserves the user's arguments."""
from pyvc.contract import *

Fn = Opaque("FuncAlias")          # callable alias (FuncAlias / ExecAlias / plain function)
Dec = Opaque("DecoratorAlias")    # decorator alias
Word = Union(Str, Fn, Dec)        # one element of a command list
AVAL = Union(Seq(Word), Fn, Dec)  # value stored in the alias table
RAW = Dict(Str, AVAL)
ALIASES = Obj("Aliases", _raw=RAW)
ENVOUT = Union(NoneT, Opaque("envdict"))
RES = Union(NoneT, Seq(Word))

CFG = {
    "isinstance": {"DecoratorAlias": ["DecoratorAlias"]},
    "callable_types": ("FuncAlias", "DecoratorAlias"),
    "order_independent": ["self._raw"],
}

A = "xonsh/aliases.py::"

COMMON_EXT = {
    "getattr": Ext(ret=Str, pure=True, note="getattr(value, 'return_what', 'result') of a callable alias"),
    "repr": Ext(ret=Str, pure=True),
    "Env.swap": Ext(ret=Opaque("lock"), note="scoped env overlay while a return_command alias runs (C11)"),
    "<call:FuncAlias>": Ext(ret=Opaque("rcresult"), raises=["Exception+"], event="rc_call", log="const",
                            note="user code of a return_command alias: returns anything or raises"),
    "<call:DecoratorAlias>": Ext(ret=Opaque("rcresult"), raises=["Exception+"], event="rc_call", log="const"),
    "print_exception": Ext(),
    "_normalize_return_command_result": Ext(ret=Tuple(Union(Seq(Word), Fn, Dec), Opaque("envdict")), raises=["ValueError"],
                                            note="returns (non-empty list | ..., env dict) or raises ValueError"),
    "envdict.update": Ext(),
    "XSH.expand_path": Ext(ret=Word, pure=True, args=[Word], note="$VAR / ~ expansion of one word (C04); a pure function of the word"),
    "unseen": Ext(ret=Int, pure=True, note="ghost: number of alias names not yet in the seen set = card(keys(_raw) - seen)"),
}

# finite-set cardinality facts (the alias table is a finite map, A4); re-checked in lemmas/FinsetCard.lean
CARD_AXIOMS = {
    "card-nonneg": "forall_strset(lambda s: unseen(s) >= 0)",
    "card-insert": "forall_strset(lambda s: forall_str(lambda t: implies(t in self._raw and t not in s, "
                   "unseen(s | {t}) == unseen(s) - 1)))",
}

contract(
    A + "Aliases.eval_alias", "C15",
    params=dict(self=ALIASES, value=AVAL, seen_tokens=VSet(Str), acc_args=Seq(Word), decorators=Nullable(List(Dec)), env_out=ENVOUT),
    returns=RES, config=CFG, externals=COMMON_EXT,
    globals={"XSH": Obj("XSH", env=Obj("Env"))},
    locals={"kwarg_env": Dict(Str, Str), "decorators": List(Dec), "rtn": List(Word)},
    axioms=CARD_AXIOMS,
    variant="unseen(seen_tokens)",
    emits=["rc_call", "expand"],
    modifies=["decorators"],
    asserts=[dict(before="seen_tokens = seen_tokens | {token}", emit=("expand", "token", Str))],
    loops={"for#1": dict(invariant={
        "counts-leading-decorators": "i == _i",
        "collected-in-order": "len(decorators) == pre(len(decorators)) + _i and decorators[:pre(len(decorators))] == pre(decorators)"})},
    raises={"ValueError": True, "TypeError": True},
    ensures={
        # "appends the user's arguments after the alias's own in their original order"
        "user-arguments-last-in-order": 'implies(result is not None and len(log("rc_call")) == 0, '
                                        "len(result) >= len(acc_args) and result[len(result) - len(acc_args):] == acc_args)",
        # "each alias at most once per chain"
        "each-alias-at-most-once": 'forall(lambda i, j: implies(i < j, log("expand")[i] != log("expand")[j]), 0, len(log("expand"))) and '
                                   'forall(lambda i: log("expand")[i] not in seen_tokens, 0, len(log("expand")))',
        # "until it is no longer an unexpanded alias"
        "stops-at-a-fixed-point": "result is None or len(result) == 0 or not isinstance(result[0], str) or result[0] not in self._raw "
                                  'or result[0] in seen_tokens or result[0] in log("expand") '
                                  'or len(log("rc_call")) > 0',
        "a-command-is-never-empty": "result is None or len(result) >= 1",
        # "collects decorator aliases in order" (append-only at every level)
        "decorators-append-only": "old(decorators is None) or (len(decorators) >= old(len(decorators)) and decorators[:old(len(decorators))] == old(decorators))",
    },
    from_property="terminates for every alias table, including self-referential and mutually recursive definitions; expands the leading "
                  "word repeatedly until it is no longer an unexpanded alias (each alias at most once per chain); appends the user's "
                  "arguments after the alias's own in their original order; collects decorator aliases in order; the outcome does not "
                  "depend on the order in which the aliases were defined",
    assumptions=["the alias table is a finite map (cardinality axioms card-nonneg / card-insert)",
                 "a return_command alias replaces the whole command line: the argument-order clause applies to chains without one"],
)

for _c in BY_PROP["C15"]:
    pass

KEY = Union(Str, Seq(Word))
GETRES = Union(NoneT, Seq(Word), Opaque("default"))
GET_EXT = dict(COMMON_EXT)
GET_EXT["AliasReturnCommandResult"] = Ext(ret=Seq(Word), ensures=["result == a0"], note="list subclass carrying the env overlay")

contract(
    A + "Aliases.get", "C15",
    params=dict(self=ALIASES, key=KEY, default=Union(NoneT, Opaque("default")), decorators=Nullable(List(Dec))),
    returns=GETRES, config=dict(CFG, default_set_elem=Str), externals=GET_EXT,
    globals={"XSH": Obj("XSH", env=Obj("Env"))},
    locals={"kwarg_env": Dict(Str, Str), "returned_env": Dict(Str, Str), "decorators": List(Dec), "args": List(Word), "seen_tokens": Set(Str)},
    axioms=CARD_AXIOMS,
    emits=["rc_call", "expand"],
    modifies=["decorators"],
    requires={"non-empty-command": "isinstance(key, str) or len(key) >= 1"},
    raises={"ValueError": True, "TypeError": True},
    ensures={
        "user-arguments-last-in-order": 'implies(isinstance(key, list) and result is not None and result is not default and len(log("rc_call")) == 0, '
                                        "len(result) >= len(key) - 1 and result[len(result) - (len(key) - 1):] == key[1:])",
        "a-command-is-never-empty": "result is None or result is default or len(result) >= 1",
        "unknown-name-gives-default": "implies((key if isinstance(key, str) else key[0]) not in self._raw, result is default)",
        "each-alias-at-most-once": 'forall(lambda i, j: implies(i < j, log("expand")[i] != log("expand")[j]), 0, len(log("expand")))',
        "the-alias-looked-up-is-not-expanded-again-in-its-own-chain (ls -> ls --color; a return_command alias that returns its own name)":
            'implies(isinstance(key, str), forall(lambda i: log("expand")[i] != key, 0, len(log("expand"))))',
    },
    from_property="appends the user's arguments after the alias's own in their original order; each alias at most once per chain; "
                  "terminates (every expansion goes through eval_alias, whose recursion carries the termination variant)",
)

# ---- spec level ----------------------------------------------------------------------------------
CFG2 = {k: v for k, v in CFG.items() if k != "order_independent"}
S = "xonsh/procs/specs.py::"
SPEC = Obj("SubprocSpec", cmd=List(Word), decorators=List(Dec), alias_stack=List(Str),
           alias=Union(NoneT, Seq(Word), Fn, Dec), alias_name=Union(NoneT, Word), binary_loc=Union(NoneT, Str))
DECORATE = Ext(event="decorate", log="recv", args=[Dec], log_type=Dec, note="DecoratorAlias.decorate_spec(spec): sets spec attributes (C05)")

contract(
    S + "SubprocSpec.add_decorator", "C15", params=dict(self=SPEC, mod=Dec),
    externals={"DecoratorAlias.decorate_spec": DECORATE}, emits=["decorate"],
    modifies=["self.decorators"],
    ensures={"appended-once": "self.decorators == old(self.decorators) + [mod]",
             "applied-once": 'len(log("decorate")) == 1 and log("decorate")[0] == mod'},
    from_property="collects decorator aliases in order",
)

contract(
    S + "SubprocSpec.resolve_decorators", "C15", params=dict(self=SPEC),
    globals={"XSH": Obj("XSH", aliases=RAW)}, config=CFG2,
    externals={"DecoratorAlias.decorate_spec": DECORATE}, emits=["decorate"],
    modifies=["self.decorators", "self"],
    requires={"non-empty-command": "len(self.cmd) >= 1"},
    locals={"mod": Union(NoneT, Seq(Word), Fn, Dec)},
    loops={"for#1": dict(invariant={
        "collected-in-source-order": "len(self.decorators) == pre(len(self.decorators)) + _i and self.decorators[:pre(len(self.decorators))] == pre(self.decorators) and "
                                     "forall(lambda k: self.cmd[k] in XSH.aliases and "
                                     "self.decorators[pre(len(self.decorators)) + k] == XSH.aliases[self.cmd[k]], 0, _i)",
        "command-untouched": "self.cmd == pre(self.cmd)"},
        havoc=["self"], final_target=True)},
    let={"added": "len(self.decorators) - old(len(self.decorators))"},
    ensures={
        "leading-decorators-collected-in-order": "added >= 0 and self.decorators[:old(len(self.decorators))] == old(self.decorators) and "
            "forall(lambda k: self.decorators[old(len(self.decorators)) + k] == old(XSH.aliases[self.cmd[k]]), 0, added)",
        "stops-at-the-first-non-decorator": "implies(old(len(self.cmd)) > 1 and added < old(len(self.cmd)), "
            "not (old(self.cmd)[added] in XSH.aliases and isinstance(XSH.aliases[old(self.cmd)[added]], DecoratorAlias)))",
        "decorator-words-removed": "implies(old(len(self.cmd)) > 1 and added < old(len(self.cmd)), self.cmd == old(self.cmd)[added:])",
    },
    from_property="collects decorator aliases in order",
    assumptions=["XSH.aliases is read through `in` and `[]` only (modelled as the mapping it wraps)"],
)

contract(
    S + "SubprocSpec.resolve_binary_loc", "C15", params=dict(self=SPEC),
    externals={"locate_executable": Ext(ret=Union(NoneT, Str), pure=True, note="command lookup (C08)")},
    requires={"non-empty-command": "len(self.cmd) >= 1", "list-alias-non-empty": "self.alias is None or callable(self.alias) or len(self.alias) >= 1"},
    config=CFG2,
    modifies=["self"],
    raises={"Exception": "self.alias is None and isinstance(self.cmd[0], str) and locate_executable(self.cmd[0]) is None and self.cmd[0] != '' and self.cmd[0] in self.alias_stack"},
    raises_iff=["Exception"],
    ensures={"callable-alias-has-no-binary": "implies(old(callable(self.alias)), self.binary_loc is None)"},
    from_property="terminates ... including self-referential definitions (a name that only resolves to itself is reported as a recursive alias, not looped on)",
)

contract(
    S + "SubprocSpec.resolve_alias", "C15", params=dict(self=SPEC),
    globals={"XSH": Obj("XSH", aliases=ALIASES)}, config=CFG2,
    externals=dict(COMMON_EXT, **{"DecoratorAlias.decorate_spec": DECORATE}),
    axioms={k: v.replace("self._raw", "XSH.aliases._raw") for k, v in CARD_AXIOMS.items()},
    calls={"Aliases.get": A + "Aliases.get", "SubprocSpec.add_decorator": S + "SubprocSpec.add_decorator"},
    emits=["decorate", "rc_call", "expand"],
    modifies=["self", "self.decorators"],
    requires={"non-empty-command": "len(self.cmd) >= 1"},
    locals={"decorators": List(Dec)},
    abstract=[dict(line_contains='if hasattr(alias, "local_env")', may_raise=False,
                   reason="env overlay returned by a return_command alias is merged into spec.env (C10/C11)")],
    loops={"for#1": dict(invariant={"applied-in-order": "self.decorators == pre(self.decorators) + decorators[:_i]"},
                         havoc=["self"])},
    raises={"ValueError": True, "TypeError": True},
    ensures={
        "no-re-entry-for-a-running-alias": "implies(old(self.cmd[0] in self.alias_stack), self.alias is None and self.cmd == old(self.cmd))",
        "callable-command-runs-as-is": "implies(old(not (self.cmd[0] in self.alias_stack) and callable(self.cmd[0])), self.alias == old(self.cmd[0]))",
        "decorators-only-appended": "self.decorators[:old(len(self.decorators))] == old(self.decorators)",
    },
    ensures_locals={
        "every-collected-decorator-applied-once-in-order": "self.decorators == old(self.decorators) + decorators",
    },
    from_property="collects decorator aliases in order",
)


# ---- native world (replay / bounded stand-in / cross-check) ----------------------------------------
def _mk_aliases(table):
    """real Aliases object holding `table` (name -> list of words) without going through __setitem__"""
    from xonsh.aliases import Aliases

    al = Aliases()
    al._raw.clear()
    for k, v in table.items():
        if isinstance(v, dict) and "rc" in v:
            def f(args, decorators=None, env=None, _cmd=v["rc"]):
                return list(_cmd) + list(args)
            f.return_what = "command"
            f.__name__ = "rc_" + k
            al._raw[k] = f
        else:
            al._raw[k] = list(v)
    return al


def _alias_world():
    from xonsh.built_ins import XSH
    from xonsh.environ import Env

    saved = XSH.env
    XSH.env = Env({"EXPAND_ENV_VARS": False, "HOME": "/nonexistent-home"})
    return saved


def _eval_alias_replay(inputs):
    from xonsh.built_ins import XSH
    from xonsh.aliases import Aliases

    saved = _alias_world()
    logs = {"expand": [], "rc_call": []}
    al = _mk_aliases(inputs["table"])
    real = Aliases.eval_alias

    def wrapped(self, value, seen_tokens=frozenset(), acc_args=(), decorators=None, env_out=None):
        prev = wrapped.seen[-1] if wrapped.seen else frozenset(inputs["seen_tokens"])
        for t in seen_tokens:
            if t not in prev and t not in logs["expand"]:
                logs["expand"].append(t)
        wrapped.seen.append(frozenset(seen_tokens))
        return real(self, value, seen_tokens, acc_args, decorators=decorators, env_out=env_out)

    wrapped.seen = []
    Aliases.eval_alias = wrapped
    out = {"__logs__": logs}
    import sys
    lim = sys.getrecursionlimit()
    sys.setrecursionlimit(300)  # a non-terminating expansion shows up as RecursionError quickly
    try:
        inputs["self"] = al
        for k_, v_ in al._raw.items():
            if callable(v_):
                def counted(args, decorators=None, env=None, _f=v_):
                    logs["rc_call"].append(1)
                    return _f(args, decorators=decorators, env=env)
                counted.return_what = "command"
                counted.__name__ = v_.__name__
                al._raw[k_] = counted
        out["__result__"] = al.eval_alias(list(inputs["value"]), frozenset(inputs["seen_tokens"]), tuple(inputs["acc_args"]), decorators=None)
    except BaseException as e:  # noqa
        out["__result__"], out["__exc__"] = None, e
    finally:
        sys.setrecursionlimit(lim)
        Aliases.eval_alias = real
        XSH.env = saved
    return out


def _eval_alias_domain(tier, seed):
    import itertools
    names = ["a", "b", "c"]
    words = names + ["x"]
    bodies = [list(p) for n in (1, 2) for p in itertools.product(words, repeat=n)]
    cases = []
    pick = bodies if tier == "thorough" else bodies[::2]
    for ba in pick:
        for bb in pick:
            table = {"a": ba, "b": bb, "c": ["c", "-v"]}
            for value in (["a"], ["a", "u1", "u2"], ["b", "u1"], ["x", "u1"]):
                for seen in ([], ["a"]):
                    cases.append({"table": table, "value": value, "seen_tokens": seen, "acc_args": ["z1", "z2"], "decorators": None, "env_out": None})
    # tables with a return_command alias (it returns its command + the arguments it was given)
    for rc_cmd in (["a"], ["b", "-r"], ["x"], ["c"]):
        for ba in (["c", "p"], ["b"], ["a", "q"], ["x"]):
            for bb in (["c"], ["a"], ["x", "y"]):
                table = {"a": ba, "b": bb, "c": {"rc": rc_cmd}}
                for value in (["a", "u1"], ["b"], ["c", "u1"]):
                    cases.append({"table": table, "value": value, "seen_tokens": [], "acc_args": ["z1"], "decorators": None, "env_out": None})
    return {"cases": cases, "bound": "alias tables over names a,b,c with bodies of <= 2 words from {a,b,c,x}, c optionally a return_command alias; %d cases" % len(cases),
            "domain": "list aliases and one return_command alias, every cycle shape among 3 names"}


class _Raw:
    """view of the table for native clause evaluation"""


def _alias_native_env(inputs):
    table = inputs.get("table", {})

    class SelfView:
        _raw = table

    def unseen(s):
        return len(set(table) - set(s))

    return {"self": SelfView(), "unseen": unseen, "forall_strset": lambda f: True, "forall_str": lambda f: True}


_ea = [c for c in BY_PROP["C15"] if c.target.endswith("Aliases.eval_alias")][0]
_ea.replay = _eval_alias_replay
_ea.native_domain = _eval_alias_domain
_ea.native_env = _alias_native_env


# ---- bounded stand-in: return_command aliases through the real Aliases.get (each alias body runs at most once per chain) ----------------
def return_command_chains(tier, seed):
    """alias tables over the names {a, b, c} where each alias is a list alias or a return_command alias whose command starts with any of the
    names (itself included) or with a plain word: Aliases.get terminates, runs no alias body twice in one chain and keeps the user's arguments last"""
    import itertools
    from xonsh.aliases import Aliases
    from xonsh.built_ins import XSH
    from xonsh.environ import Env

    saved = XSH.env
    XSH.env = Env(HOME="/tmp")
    failures, n, samples = [], 0, []
    names = ["a", "b", "c"] if tier != "quick" else ["a", "b"]
    heads = names + ["tool"]
    kinds = ["list", "rc"]
    try:
        for combo in itertools.product(itertools.product(kinds, heads), repeat=len(names)):
            for start in names:
                n += 1
                ales = Aliases()
                calls = {}
                for nm, (kind, head) in zip(names, combo):
                    if kind == "list":
                        ales[nm] = [head, "own-" + nm]
                    else:
                        def _mk(nm=nm, head=head):
                            def fn(args):
                                calls[nm] = calls.get(nm, 0) + 1
                                return [head, "own-" + nm] + args
                            return fn
                        ales.register(nm)(ales.return_command(_mk()))
                obs = None
                try:
                    got = ales.get([start, "U1", "U2"])
                    twice = {k: v for k, v in calls.items() if v > 1}
                    if twice:
                        obs = "alias bodies run more than once in one chain: %r (result %r)" % (twice, got)
                    elif got is not None and (len(got) < 2 or list(got[-2:]) != ["U1", "U2"] or list(got).count("U1") != 1):
                        obs = "the user's arguments are not last / not once: %r" % (got,)
                    elif got is not None and sum(1 for w in got if isinstance(w, str) and w.startswith("own-")) != len({w for w in got if isinstance(w, str) and w.startswith("own-")}):
                        obs = "an alias's own argument appears twice: %r" % (got,)
                except RecursionError:
                    obs = "RecursionError (the expansion does not terminate)"
                except Exception as e:  # noqa
                    obs = "%s: %s" % (type(e).__name__, e)
                if obs and len(failures) < 5:
                    failures.append({"clause": "each alias at most once per chain, the user's arguments last", "inputs": {"aliases": {nm: list(c) for nm, c in zip(names, combo)}, "command": [start, "U1", "U2"]}, "observed": obs})
                elif not obs and len(samples) < 3 and combo[0][0] == "rc":
                    samples.append({"aliases": {nm: list(c) for nm, c in zip(names, combo)}, "command": [start, "U1", "U2"]})
    finally:
        XSH.env = saved
    return {"kind": "bounded", "evaluations": n, "distinct_nontrivial": n, "failures": failures, "exhaustive": False,
            "bound": "all tables over %d names x {list, return_command} x %d heads, every start name" % (len(names), len(heads)),
            "domain": "real Aliases.get with real return_command aliases", "samples": samples}


native_check("C15", "return-command-chains-expand-each-alias-once", "bounded", return_command_chains, doc="return_command aliases through the real Aliases.get")
