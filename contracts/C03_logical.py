"""C03 - a bare command line means its explicit form across backslash continuations: the logical-line reconstruction
(xonsh/tools.py get_logical_line) that both wrapping phases use to find the text to wrap.

LINK(j): physical line j continues line j-1 - line j-1 ends with a line continuation, or the text of all lines before j ends
inside an open triple-quoted string.  The logical line containing line i starts at the FIRST line of the maximal chain of links
ending at i, for chains of any length."""
from pyvc.contract import *

TL = "xonsh/tools.py::"
EXT = {
    "get_line_continuation": Ext(ret=Str, pure=True),
    "_ends_with_line_continuation": Ext(ret=Bool, pure=True, uf="cont", args=[Str]), "cont": Ext(ret=Bool, pure=True, uf="cont", args=[Str]),
    "_have_open_triple_quotes": Ext(ret=Bool, pure=True, uf="open3", note="only its truth value is used here"), "open3": Ext(ret=Bool, pure=True, uf="open3"),
    "str.join": Ext(ret=Str, pure=True, uf="joined"), "joined": Ext(ret=Str, pure=True, uf="joined"),
}
LINK = "(cont(lines[%s - 1], get_line_continuation()) or open3('\\n'.join(lines[:%s])))"   # line j continues line j-1
contract(
    TL + "get_logical_line", "C03", params=dict(lines=Seq(Str), idx=Int), externals=EXT, returns=Tuple(Str, Int, Int),
    requires={"a-line-of-the-source": "0 <= idx and idx < len(lines)"},
    locals={"line": Str, "n": Int, "start": Int, "nlines": Int, "linecont": Str, "open_triple": Bool},
    loops={
        "while#1": dict(invariant={"still-inside-the-chain": "0 <= idx and idx <= old(idx) and forall(lambda k: %s, idx + 1, old(idx) + 1)" % (LINK % ("k", "k")),
                                   "nothing-else-moves": "n == 1 and nlines == len(lines)"},
                        variant="idx"),
        "while#2": dict(invariant={"spans-n-lines-from-the-start": "n >= 1 and idx == start + n - 1 and idx <= nlines - 1 and nlines == len(lines) and "
                                                                   "0 <= start and start <= old(idx) and forall(lambda k: %s, start + 1, old(idx) + 1) and "
                                                                   "(start == 0 or not %s)" % (LINK % ("k", "k"), LINK % ("start", "start"))},
                        variant="nlines - idx"),
    },
    ensures={
        "starts-at-the-first-line-of-the-whole-continuation-chain":
            "0 <= result[2] and result[2] <= old(idx) and forall(lambda k: %s, result[2] + 1, old(idx) + 1) and (result[2] == 0 or not %s)" % (
                LINK % ("k", "k"), LINK % ("result[2]", "result[2]")),
        "spans-at-least-one-line-and-stays-inside-the-source": "result[1] >= 1 and result[2] + result[1] <= len(lines)"},
    from_property="behaves exactly as if the user had wrapped each segment in ![...] by hand ... across backslash continuations (of any number of physical lines)",
)


# ---- the paren test that ends a subprocess token window -------------------------------------------------------------------------
TOK = Rec("tok", type=Str)
contract(
    TL + "_is_not_lparen_and_rparen", "C03", params=dict(lparens=Seq(Str), rtok=TOK), returns=Bool,
    ensures={"a-closing-paren-while-ANY-open-bracket-on-the-stack-is-not-a-plain-LPAREN":
             "result == (rtok.type == 'RPAREN' and exists(lambda j: lparens[j] != 'LPAREN', 0, len(lparens)))"},
    from_property="words ... `@()`, `$()` ... (a `)` belongs to the command while an `@(` / `$(` / `![` opened anywhere before it is still open - not only the innermost one, "
                  "so `@(str(x))` followed by a chain operator is still one word)",
)
