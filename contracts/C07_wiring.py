"""C07 - pipes deliver each stream to the documented place: the wiring done by cmds_to_specs, on the real source.

A pipeline arrives as cmds = [cmd0, sep0, cmd1, sep1, ...] (separators are the strings "|" / "&") with envs aligned to cmds.
SubprocSpec objects are kept as records in the `specs` list (identity = list slot); the stream setters `stdin`/`stdout`/`stderr`
are the REAL property setters of the class, inlined from the source (first assignment wins, a second non-None one raises)."""
from pyvc.contract import *

S = "xonsh/procs/specs.py::"
CMD = Opaque("cmd")
ENVMAP = Opaque("envmap")
STREAM = Opaque("stream")             # file objects and the two pipe-redirect sentinels
H = Union(NoneT, Int, STREAM)         # what a stream slot may hold: nothing, an fd / flag, a file or sentinel
SPEC = ObjRec("SubprocSpec", _stdin=H, _stdout=H, _stderr=H, background=Bool, pipeline_index=Int, in_boolop=Bool,
              src_cmd=CMD, src_env=Union(NoneT, ENVMAP))
PIPE = Rec("PipeChannel", read_fd=Int, write_fd=Int)

EXT = {
    "SubprocSpec.build": Ext(ret=SPEC, raises=["XonshError", "Exception+"],
                             ensures=["result.src_cmd == a0", "result.src_env == env", "not result.background"],
                             note="builds one stage (aliases, redirect decoding - see the enum check): ASSUMED to record its cmd and env arguments"),
    "PipeChannel.from_pipe": Ext(ret=PIPE, raises=["OSError"], event="pipe", log="result", log_type=PIPE,
                                 ensures=["result.read_fd >= 3 and result.write_fd >= 3 and result.read_fd != result.write_fd"]),
    "safe_close": Ext(event="close-rejected", log_type=H),
    "self.get_command_str": Ext(ret=Str, pure=True), "SubprocSpec.get_command_str": Ext(ret=Str, pure=True),
    "xt.XonshError": Ext(ret=Opaque("exc")),
}
EVEN = "forall(lambda j: (j % 2 == 0) == (not isinstance(cmds[j], str)), 0, len(cmds))"
BUILT = ("forall(lambda k: specs[k].src_cmd == cmds[2 * k] and specs[k].src_env == (envs[2 * k] if envs is not None else None) "
         "and specs[k].pipeline_index == k and specs[k].in_boolop == in_boolop and not specs[k].background, 0, len(specs))")

contract(
    S + "cmds_to_specs", "C07", shards=4,
    params=dict(cmds=List(Union(Str, CMD)), captured=Union(Bool, Str), envs=Nullable(List(Union(NoneT, ENVMAP))), in_boolop=Bool),
    globals={"_PIPE_ALL": STREAM, "_PIPE_ERR": STREAM},
    externals=EXT, returns=List(SPEC),
    config={"properties": {"SubprocSpec": ["stdin", "stdout", "stderr"]}, "isinstance": {"str": ["str"]}},
    locals={"specs": List(SPEC), "redirects": List(Str), "spec": SPEC, "pipe": PIPE},
    requires={"a-pipeline-from-the-parser": "len(cmds) >= 1 and " + EVEN,
              "envs-aligned-with-cmds": "envs is None or len(envs) == len(cmds)",
              "the-two-sentinels-differ": "_PIPE_ALL != _PIPE_ERR"},
    loops={
        "for#1": dict(invariant={
            "one-spec-per-command": "len(specs) == (_i + 1) // 2 and len(redirects) == _i // 2",
            "each-built-from-its-own-command-and-overlay": BUILT,
            "separators-in-order": "forall(lambda k: redirects[k] == cmds[2 * k + 1], 0, len(redirects))"},
            havoc_only=["specs", "redirects"]),
    },
    abstract=[dict(line_contains="for i, redirect in enumerate(redirects):", may_raise=True, havoc=["specs"], reason="pipe wiring (verified in the second contract of this function)"),
              dict(line_contains="for spec in specs:", may_raise=True, reason="sentinel check"),
              dict(line_contains='if not XSH.env.get("XONSH_CAPTURE_ALWAYS"):', may_raise=True, havoc=["specs"], reason="capture boundary"),
              dict(line_contains="if len(specs) > 1:", may_raise=True, reason="unthreadable alias validation"),
              dict(line_contains="_update_last_spec(specs[-1])", may_raise=True, havoc=["specs"], reason="capture plumbing of the last stage (C06)"),
              dict(line_contains="for s in specs:", may_raise=False, reason="closes every stream of the specs built so far (C09)")],
    asserts=[dict(before="for i, redirect in enumerate(redirects):", label="stage-k-is-built-from-the-k-th-command-with-its-own-overlay",
                  clause="len(specs) == (len(cmds) + 1) // 2 and " + BUILT)],
    raises={"XonshError": True, "Exception+": True},
    from_property="for every stage of a pipeline ... at every pipeline position; per-command `$X=1 cmd` overlays (C10) reach the stage they prefix",
)


# ---- the wiring loop (second contract of the same function: stage construction is taken from the contract above) --------
def B(e):
    return "at('built', %s)" % e


NPIPES = "len(log('pipe'))"
P = "log('pipe')[k]"
# what iteration k (a "|" between stage k and k+1) must have done, in terms of the stages as built
_F = dict(P=P, Bse=B("specs[k]._stderr"), Bso=B("specs[k]._stdout"))
WIRED_PARTS = {
    "stdin-of-the-next-stage-is-the-pipe": "specs[k + 1]._stdin == {P}.read_fd".format(**_F),
    "e>p-sends-stderr-into-the-pipe": "implies({Bse} == _PIPE_ERR, specs[k]._stderr == {P}.write_fd)".format(**_F),
    "e>p-leaves-a-redirected-stdout-alone-else-pipes-it":
        "implies({Bse} == _PIPE_ERR, (specs[k]._stdout == {P}.write_fd if {Bso} is None else specs[k]._stdout == {Bso}))".format(**_F),
    "otherwise-stderr-is-untouched": "implies({Bse} != _PIPE_ERR, specs[k]._stderr == {Bse})".format(**_F),
    "unredirected-or-a>p-stdout-goes-into-the-pipe":
        "implies({Bse} != _PIPE_ERR, specs[k]._stdout == {P}.write_fd and ({Bso} is None or {Bso} == _PIPE_ALL))".format(**_F),
}
WIRED = "(" + " and ".join("(%s)" % v for v in WIRED_PARTS.values()) + ")"
UNTOUCHED_AFTER = "forall(lambda k: specs[k] == {b}, _i + 1, len(specs))".format(b=B("specs[k]"))
NEXT_UP = ("implies(_i < len(specs), specs[_i]._stdout == {bo} and specs[_i]._stderr == {be} and specs[_i].background == {bb} "
           "and specs[_i].src_cmd == {bc} and specs[_i].src_env == {bv})").format(
    bo=B("specs[_i]._stdout"), be=B("specs[_i]._stderr"), bb=B("specs[_i].background"), bc=B("specs[_i].src_cmd"), bv=B("specs[_i].src_env"))
STDIN_OF_FIRST = "specs[0]._stdin == " + B("specs[0]._stdin")
ALLPIPES = "forall(lambda k: redirects[k] == '|', 0, _i - 1) and implies(_i >= 1, redirects[_i - 1] == '|' or (redirects[_i - 1] == '&' and _i == len(redirects)))"
FINAL = {
    **{lbl: "forall(lambda k: implies(redirects[k] == '|', %s), 0, len(redirects))" % cl for lbl, cl in WIRED_PARTS.items()},
    "a-trailing-&-backgrounds-the-last-stage-and-wires-nothing":
        "implies(len(redirects) >= 1 and redirects[len(redirects) - 1] == '&', specs[len(redirects) - 1].background "
        "and specs[len(redirects) - 1]._stdout == {bo} and specs[len(redirects) - 1]._stderr == {be})".format(
            bo=B("specs[len(redirects) - 1]._stdout"), be=B("specs[len(redirects) - 1]._stderr")),
    "the-first-stage-keeps-its-stdin": STDIN_OF_FIRST,
    "one-pipe-per-|": "%s == len(redirects) - (1 if len(redirects) >= 1 and redirects[len(redirects) - 1] == '&' else 0)" % NPIPES,
}
BUILD_OK = ("len(specs) == (len(cmds) + 1) // 2 and len(redirects) == len(cmds) // 2 and "
            "forall(lambda k: redirects[k] == cmds[2 * k + 1], 0, len(redirects)) and "
            "forall(lambda k: not (specs[k]._stdout == _PIPE_ALL and specs[k]._stderr == _PIPE_ERR), 0, len(specs))")
contract(
    S + "cmds_to_specs", "C07", shards=4, variant_id="wiring",
    params=dict(cmds=List(Union(Str, CMD)), captured=Union(Bool, Str), envs=Nullable(List(Union(NoneT, ENVMAP))), in_boolop=Bool),
    globals={"_PIPE_ALL": STREAM, "_PIPE_ERR": STREAM},
    externals=EXT, returns=List(SPEC),
    config={"properties": {"SubprocSpec": ["stdin", "stdout", "stderr"]}, "isinstance": {"str": ["str"]}},
    locals={"specs": List(SPEC), "redirects": List(Str), "spec": SPEC, "pipe": PIPE, "upstream": SPEC},
    requires={"a-pipeline-from-the-parser": "len(cmds) >= 1 and " + EVEN,
              "the-two-sentinels-differ": "_PIPE_ALL != _PIPE_ERR"},
    loops={
        "for#2": dict(snapshot="built", invariant={
            "same-stages": "len(specs) == %s" % B("len(specs)"),
            "one-pipe-per-processed-separator": "%s == (_i if (_i == 0 or redirects[_i - 1] == '|') else _i - 1)" % NPIPES,
            "only-a-final-&-is-not-a-pipe": ALLPIPES,
            **{"wired:" + lbl: "forall(lambda k: implies(redirects[k] == '|', %s), 0, _i)" % cl for lbl, cl in WIRED_PARTS.items()},
            "a-processed-&-backgrounds-its-stage": "implies(_i >= 1 and redirects[_i - 1] == '&', specs[_i - 1].background and specs[_i - 1]._stdout == {bo} "
                                                   "and specs[_i - 1]._stderr == {be})".format(bo=B("specs[_i - 1]._stdout"), be=B("specs[_i - 1]._stderr")),
            "later-stages-untouched": UNTOUCHED_AFTER,
            "next-upstream-keeps-its-output-slots": NEXT_UP,
            "the-first-stage-keeps-its-stdin": STDIN_OF_FIRST},
            havoc_only=["specs"]),
        "for#3": dict(invariant={"no-dangling-pipe-redirect-so-far": "forall(lambda k: specs[k]._stdout != _PIPE_ALL and specs[k]._stderr != _PIPE_ERR, 0, _i)"},
                      havoc_only=[]),
    },
    abstract=[dict(line_contains="for i, cmd in enumerate(cmds):", may_raise=True, havoc=["specs", "redirects"], ensures=[BUILD_OK],
                   reason="stage construction: verified in the first contract of this function (its assert) + ASSUMED: no stage comes out of build "
                          "with both pipe sentinels (a>p and e>p both set stderr, the second store is rejected by the setter)"),
              dict(line_contains="upstream.pipe_channels.append(pipe)", may_raise=False, reason="records the channel for closing (C09)"),
              dict(line_contains='if not XSH.env.get("XONSH_CAPTURE_ALWAYS"):', may_raise=True, havoc=["specs"], reason="capture boundary"),
              dict(line_contains="if len(specs) > 1:", may_raise=True, reason="unthreadable alias validation"),
              dict(line_contains="_update_last_spec(specs[-1])", may_raise=True, havoc=["specs"], reason="capture plumbing of the last stage (C06)"),
              dict(line_contains="for s in specs:", may_raise=False, reason="closes every stream of the specs built so far (C09)")],
    asserts=[dict(before="for spec in specs:", label=k, clause=v) for k, v in FINAL.items()] + [
        dict(before='if not XSH.env.get("XONSH_CAPTURE_ALWAYS"):', label="a>p-or-e>p-without-a-following-pipe-is-an-error",
             clause="forall(lambda k: specs[k]._stdout != _PIPE_ALL and specs[k]._stderr != _PIPE_ERR, 0, len(specs))")],
    raises={"XonshError": True, "Exception+": True, "OSError": True},
    from_property="unredirected stdout goes to the next stage ... `e>p`/`a>p` into the following pipe ... conflicting or malformed redirects are "
                  "reported as errors rather than silently misrouted",
)


# ---- the three stream setters, on their own (a stand-alone object): first non-None store wins, a second one is an error ----
SPECOBJ = Obj("SubprocSpec", _stdin=H, _stdout=H, _stderr=H)
for _s in ("stdin", "stdout", "stderr"):
    _f = "self._" + _s
    contract(
        S + "SubprocSpec.%s@setter" % _s, "C07", params=dict(self=SPECOBJ, value=H), externals=EXT, modifies=[_f],
        raises={"XonshError": "old(%s) is not None and value is not None" % _f}, raises_iff=["XonshError"],
        ensures={"first-store-wins": "%s == (value if old(%s) is None else old(%s))" % (_f, _f, _f)},
        ensures_exc={"a-rejected-store-changes-nothing-and-closes-the-new-handle": "%s == old(%s) and len(log('close-rejected')) == 1" % (_f, _f)},
        from_property="conflicting ... redirects are reported as errors rather than silently misrouted",
    )


# ---- one stage's own redirects: applied in order through the real setters; two redirects of one stream are an error -----------
REDIR = Opaque("redirect")          # a ('>', 'file') / ('e>o',) tuple of the parsed command
STAGE = Obj("SubprocSpec", _stdin=H, _stdout=H, _stderr=H, cmd=List(Union(Str, REDIR)))
RR_EXT = dict(EXT)
RR_EXT.update({
    "_redirect_streams": Ext(ret=Tuple(H, H, H), pure=True, uf="streams_of", raises=["XonshError", "Exception+"],
                             note="decodes one redirect into (stdin, stdout, stderr) handles - the spelling enum checks WHICH; may fail (missing file, malformed)"),
    "streams_of": Ext(ret=Tuple(H, H, H), pure=True, uf="streams_of"),
})
CLASH = "exists(lambda j, k: j < k and streams_of(redirects[j])[%d] is not None and streams_of(redirects[k])[%d] is not None, 0, len(redirects))"
FIRST = ("(forall(lambda j: streams_of(redirects[j])[%(i)d] is None, 0, %(n)s) and %(f)s is None) or "
         "exists(lambda j: streams_of(redirects[j])[%(i)d] is not None and %(f)s == streams_of(redirects[j])[%(i)d] and "
         "forall(lambda m: implies(m != j, streams_of(redirects[m])[%(i)d] is None), 0, %(n)s), 0, %(n)s)")
contract(
    S + "SubprocSpec.resolve_redirects", "C07", params=dict(self=STAGE), externals=RR_EXT,
    config={"properties": {"SubprocSpec": ["stdin", "stdout", "stderr"]}, "isinstance": {"tuple": ["redirect"]}},
    locals={"new_cmd": List(Str), "redirects": List(REDIR), "streams": Tuple(H, H, H)},
    requires={"a-fresh-stage": "self._stdin is None and self._stdout is None and self._stderr is None"},
    modifies=["self", "self.cmd"],
    loops={
        "for#1": dict(invariant={"splitting-words-from-redirects": "True"}, havoc_only=["new_cmd", "redirects"]),
        "for#2": dict(invariant={
            "each-stream-holds-its-only-redirect-so-far-stdin": FIRST % dict(i=0, n="_i", f="self._stdin"),
            "each-stream-holds-its-only-redirect-so-far-stdout": FIRST % dict(i=1, n="_i", f="self._stdout"),
            "each-stream-holds-its-only-redirect-so-far-stderr": FIRST % dict(i=2, n="_i", f="self._stderr")},
            havoc_only=[], havoc_shallow=["self"]),
    },
    raises={"XonshError": True, "Exception+": True},
    ensures_locals={
        "stdin-is-the-one-redirect-that-names-it": FIRST % dict(i=0, n="len(redirects)", f="self._stdin"),
        "stdout-is-the-one-redirect-that-names-it": FIRST % dict(i=1, n="len(redirects)", f="self._stdout"),
        "stderr-is-the-one-redirect-that-names-it": FIRST % dict(i=2, n="len(redirects)", f="self._stderr"),
    },
    from_property="stdout and stderr end up - completely and only - where the redirect operators say ... conflicting or malformed redirects are reported as errors "
                  "rather than silently misrouted (a normal return means every stream was named by at most one redirect of the stage, and holds exactly that one)",
)


# ---- safe_open: the one place a redirect target is opened - exactly the file named, once, in exactly the mode asked; every failure is a XonshError ----
FILEH = Opaque("file")
contract(
    S + "safe_open", "C07", params=dict(fname=Str, mode=Str, buffering=Int), returns=FILEH,
    externals={"open": Ext(ret=FILEH, event="open", log=0, log_type=Str, raises=["PermissionError", "FileNotFoundError", "OSError", "Exception+"],
                           ensures=["opened_mode(result) == a1"], note="the builtin; may fail in any way"),
               "opened_mode": Ext(ret=Str, pure=True, uf="opened_mode", args=[FILEH], note="ghost: the mode a handle was opened in")},
    locals={"kwargs": Opaque("kwargs")},
    abstract=[dict(line_contains='kwargs = {"encoding": "utf-8"}', may_raise=False, reason="utf-8 for text modes, nothing for binary ones (keyword pack)")],
    raises={"XonshError": True}, emits=["open"],
    ensures={"opens-exactly-the-file-named-once-in-exactly-the-mode-asked": "len(log('open')) == 1 and log('open')[0] == fname and opened_mode(result) == mode"},
    ensures_exc={"a-failure-is-reported-as-a-XonshError-after-one-attempt-on-that-file (never another exception, never a silent None)":
                 "len(log('open')) == 1 and log('open')[0] == fname"},
    from_property="conflicting or malformed redirects are reported as errors rather than silently misrouted (a target that cannot be opened: permission, missing directory, anything else)",
)


# ---- _redirect_streams: one redirect operator -> (stdin, stdout, stderr) handles; the operator tables are ghost sets here (their content is what the
# ---- spelling enum checks through the real tokenizer / parser), the STRUCTURE is proved: which stream gets a handle, how many opens, shared or not ----
SENT = Opaque("pipe_sentinel")
HSX = Union(NoneT, Int, FILEH, SENT)
STRSET = VSet(Str)
RS_G = {"_A2P_MAP": STRSET, "_E2P_MAP": STRSET, "_E2O_MAP": STRSET, "_O2E_MAP": STRSET, "_WRITE_MODES": STRSET, "_REDIR_ALL": STRSET, "_REDIR_OUT": STRSET,
        "_REDIR_ERR": STRSET, "_PIPE_ALL": SENT, "_PIPE_ERR": SENT, "subprocess.STDOUT": -2}
RS_EXT = {
    "_parse_redirects": Ext(ret=Tuple(Str, Str, Str), pure=True, uf="parsed", note="(origin, mode, destination) of an operator: regular-expression match, covered by the spelling enum"),
    "parsed": Ext(ret=Tuple(Str, Str, Str), pure=True, uf="parsed"),
    "opened_mode": Ext(ret=Str, pure=True, uf="opened_mode", args=[FILEH]),
}
WRITES = "(parsed(r)[1] in _WRITE_MODES)"
PLAIN = "(r not in _A2P_MAP and r not in _E2P_MAP and r.replace('&', '') not in _E2O_MAP and r.replace('&', '') not in _O2E_MAP)"
contract(
    S + "_redirect_streams", "C07", params=dict(r=Str, loc=Union(NoneT, Str)), globals=RS_G, externals=RS_EXT, returns=Tuple(HSX, HSX, HSX),
    calls={"safe_open": S + "safe_open"},
    config={"isinstance": {"list": ["seq", "list"]}},
    requires={"a-target-is-given-where-one-is-opened": "implies(%s, loc is not None)" % PLAIN},
    locals={"stdin": HSX, "stdout": HSX, "stderr": HSX},
    raises={"XonshError": True}, emits=["open"],
    ensures={
        "pipe-and-merge-operators-open-nothing": "implies(not %s, len(log('open')) == 0)" % PLAIN,
        "a>p-marks-stdout-for-the-pipe-and-merges-stderr-into-it": "implies(r in _A2P_MAP, result[0] is None and result[1] == _PIPE_ALL and result[2] == -2)",
        "e>p-marks-stderr-for-the-pipe-and-leaves-stdout-alone": "implies(r not in _A2P_MAP and r in _E2P_MAP, result[0] is None and result[1] is None and result[2] == _PIPE_ERR)",
        "e>o-merges-stderr-into-stdout-only": "implies(r not in _A2P_MAP and r not in _E2P_MAP and r.replace('&', '') in _E2O_MAP, result[0] is None and result[1] is None and result[2] == -2)",
        "a-file-redirect-opens-exactly-its-target-once-in-the-operator's-mode": "implies(%s, len(log('open')) == 1 and log('open')[0] == loc)" % PLAIN,
        "an-input-redirect-sets-stdin-only": "implies(%s and parsed(r)[1] == 'r', result[1] is None and result[2] is None and result[0] is not None and opened_mode(result[0]) == 'r')" % PLAIN,
        "a-both-streams-redirect-gives-both-streams-the-SAME-handle":
            "implies(%s and parsed(r)[1] != 'r' and parsed(r)[0] in _REDIR_ALL, result[0] is None and result[1] is not None and result[1] == result[2] and opened_mode(result[1]) == parsed(r)[1])" % PLAIN,
        "an-stdout-redirect-sets-stdout-only": "implies(%s and parsed(r)[1] != 'r' and parsed(r)[0] not in _REDIR_ALL and parsed(r)[0] in _REDIR_OUT, "
                                              "result[0] is None and result[2] is None and result[1] is not None and opened_mode(result[1]) == parsed(r)[1])" % PLAIN,
        "an-stderr-redirect-sets-stderr-only": "implies(%s and parsed(r)[1] != 'r' and parsed(r)[0] not in _REDIR_ALL and parsed(r)[0] not in _REDIR_OUT, "
                                              "result[0] is None and result[1] is None and result[2] is not None and opened_mode(result[2]) == parsed(r)[1])" % PLAIN,
    },
    ensures_exc={"an-unrecognised-operator-opens-nothing-or-the-open-failed": "len(log('open')) <= 1"},
    from_property="stdout and stderr end up - completely and only - where the redirect operators say ... `a>`/`&>` both ... conflicting or malformed redirects are reported as errors",
)


# resolve_args_list (a malformed redirect is passed on unchanged, to be rejected - never cut down to its first word) lives with C04's contract
from contracts import C04_expand  # noqa: E402,F401
