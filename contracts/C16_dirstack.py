"""C16 - $PWD, the process directory and the directory stack stay in step."""
import z3
from pyvc.contract import *
from pyvc.core import PyRaise, Exc, mk_none, V

D = "xonsh/dirstack.py::"
ENV = DRec("env", optional=("OLDPWD", "HOME"), PWD=Str, OLDPWD=Str, HOME=Str, AUTO_PUSHD=Bool, PUSHD_MINUS=Bool,
           PUSHD_SILENT=Bool, DIRSTACK_SIZE=Int)
XSHT = Obj("XSH", env=ENV)
G = {"XSH": XSHT, "DIRSTACK": List(Str), "CWD": Str, "ON_WINDOWS": False}
CFG = {"records": [ENV]}


def _chdir(R, args, kw, node, frame, recv):
    """os.chdir(p): either the process directory becomes p, or OSError and nothing changes (ghost CWD)"""
    ok = R.ctx.uf_apply(R, "chdir_ok", [args[0]], Bool)  # ghost world: would a chdir to this path succeed?
    R.ctx.emit_log(R, "chdir", args[0])
    if not R.decide(ok.z, R.lab(node, "os.chdir-ok")):
        raise PyRaise(Exc("OSError", tag="os.chdir"))
    R.globals_["CWD"] = args[0]
    return mk_none()


EXT = {
    "os.chdir": Ext(model=_chdir, event="chdir", log_type=Str, note="sets the process working directory (ghost CWD) or raises OSError and changes nothing"),
    "os.path.join": Ext(ret=Str, pure=True, args=[Str, Str]), "os.path.abspath": Ext(ret=Str, pure=True, args=[Str]),
    "os.path.realpath": Ext(ret=Str, pure=True, args=[Str]),
    "os.path.expanduser": Ext(ret=Str, pure=True, args=[Str]),
    "os.path.isdir": Ext(ret=Bool, pure=True, args=[Str], note="ghost file system (A8)"), "os.path.exists": Ext(ret=Bool, pure=True, args=[Str]),
    "os.access": Ext(ret=Bool, pure=True, args=[Str]),
    "events.on_chdir.fire": Ext(event="on_chdir", log="const", note="event handlers do not touch contract-visible state (A7)"),
    "_try_cdpath": Ext(ret=Str, pure=True, note="$CDPATH lookup (globbing): external"),
    "dirs": Ext(ret=Tuple(Str, NoneT, Int), ensures=["result[2] == 0"], note="listing (dirs_fn through its argument parser): reads only, returns code 0"),
    "is_py_int_literal": Ext(ret=Bool, pure=True, uf="is_py_int_literal"),
    "chdir_ok": Ext(ret=Bool, pure=True, uf="chdir_ok", args=[Str], note="ghost: os.chdir(path) would succeed"),
}
SYNC = "XSH.env['PWD'] == CWD"
# where a successful change lands: abspath(join($PWD, d)) (no -P)
TARGET = "os.path.abspath(os.path.join(old(XSH.env['PWD']), %s))"
UNCHANGED = ("XSH.env['PWD'] == old(XSH.env['PWD']) and CWD == old(CWD) and ('OLDPWD' in XSH.env) == old('OLDPWD' in XSH.env) and "
             "implies('OLDPWD' in XSH.env, XSH.env['OLDPWD'] == old(XSH.env['OLDPWD']))")
MOVED = "CWD == %s and XSH.env['PWD'] == CWD and 'OLDPWD' in XSH.env and XSH.env['OLDPWD'] == old(XSH.env['PWD'])"

contract(
    D + "_change_working_directory", "C16", params=dict(newdir=Str, follow_symlinks=Bool), globals=G, externals=EXT, config=CFG,
    requires={"in-step": SYNC, "no-follow": "not follow_symlinks"},
    modifies=["XSH.env['PWD']", "XSH.env['OLDPWD']", "CWD"], emits=["chdir", "on_chdir"],
    returns=Bool,
    ensures={
        "in-step": SYNC,
        "all-or-nothing": "(%s) or (%s)" % (UNCHANGED, MOVED % (TARGET % "newdir")),
        "process-directory-changes-first": 'len(log("chdir")) == 1 and log("chdir")[0] == %s' % (TARGET % "newdir"),
        "tells-whether-it-happened": "implies(result, %s) and implies(not result, %s)" % (MOVED % (TARGET % "newdir"), UNCHANGED),
    },
    from_property="the shell's $PWD names the process's actual working directory and $OLDPWD the previous one; a failed operation changes nothing",
)

RES = Tuple(Union(NoneT, Str), Union(NoneT, Str), Int)
STACK_SAME = "DIRSTACK == old(DIRSTACK)"
contract(
    D + "cd", "C16", shards=2, params=dict(args=List(Str)), globals=G, config=CFG, returns=RES,
    externals=dict(EXT, pushd=Ext(ret=RES, havoc=["DIRSTACK"], requires=["len(a0) == 3 and a0[0] == '-n' and a0[1] == '-q'"],
                                  ensures=["DIRSTACK == ([os.path.expanduser(a0[2])] + old(DIRSTACK))[:XSH.env['DIRSTACK_SIZE']]"],
                                  note="the pushd alias called as `pushd -n -q DIR`: ASSUMED to decode into pushd_fn(DIR, cd=False, quiet=True), whose verified clause "
                                       "`stack-only-pushd-puts-the-directory-on-top` is this ensures (the ONLY way cd may grow the stack: a direct insert fails the call precondition / clause)")),
    requires={"in-step": SYNC, "no-P-flag": "len(args) == 0 or args[0] != '-P'",
              "the-stack-is-within-its-limit": "XSH.env['DIRSTACK_SIZE'] >= 1 and len(DIRSTACK) <= XSH.env['DIRSTACK_SIZE']"},
    modifies=["XSH.env", "DIRSTACK", "args", "CWD"], emits=["chdir", "on_chdir"],
    let={"rc": "result[2]"},
    ensures={
        "in-step": SYNC,
        "a-failed-cd-changes-nothing": "implies(rc != 0, (%s) and %s)" % (UNCHANGED, STACK_SAME),
        "a-rejected-argument-carries-a-message": 'implies(rc != 0 and len(log("chdir")) == 0, result[1] is not None)',
        "a-reported-success-is-a-real-change": 'implies(rc == 0 and len(log("chdir")) > 0, CWD == log("chdir")[len(log("chdir")) - 1])',
        "minus-goes-to-the-previous-directory": "implies(rc == 0 and len(args) == 1 and args[0] == '-' and not os.path.isdir('-'), "
            'len(log("chdir")) == 1 and log("chdir")[0] == %s)' % (TARGET % "old(XSH.env['OLDPWD'])"),
        "minus-N-goes-to-stack-entry-N": "implies(rc == 0 and len(args) == 1 and not os.path.isdir(args[0]) and args[0].startswith('-') and args[0] != '-' "
            "and is_py_int_literal(args[0][1:]) and int(args[0][1:]) >= 1 and not old(XSH.env['AUTO_PUSHD']), "
            'int(args[0][1:]) <= len(old(DIRSTACK)) and len(log("chdir")) == 1 and '
            'log("chdir")[0] == os.path.abspath(os.path.join(old(XSH.env[\'PWD\']), old(DIRSTACK)[int(args[0][1:]) - 1])))',
        "stack-untouched-without-auto-pushd": "implies(not old(XSH.env['AUTO_PUSHD']), %s)" % STACK_SAME,
        "the-stack-stays-within-$DIRSTACK_SIZE-also-under-$AUTO_PUSHD": "len(DIRSTACK) <= XSH.env['DIRSTACK_SIZE']",
        "under-$AUTO_PUSHD-a-successful-cd-pushes-the-directory-left-and-nothing-else":
            "implies(old(XSH.env['AUTO_PUSHD']) and rc == 0 and len(log('chdir')) > 0, "
            "DIRSTACK == ([os.path.expanduser(old(XSH.env['PWD']))] + old(DIRSTACK))[:XSH.env['DIRSTACK_SIZE']])",
    },
    from_property="`cd`, `cd -`, `cd -N` ... a failed operation changes nothing and reports an error; holds at most $DIRSTACK_SIZE entries after every pushd (the implicit one of $AUTO_PUSHD included)",
)


# ---- pushd / popd / dirs --------------------------------------------------------------------------
# the list `dirs` prints: [$PWD] + DIRSTACK
VIEW = "[old(XSH.env['PWD'])] + old(DIRSTACK)"
ISN = "(dir_or_n is not None and not os.path.isdir(dir_or_n) and len(dir_or_n) >= 1 and is_py_int_literal(dir_or_n[1:]) and int(dir_or_n[1:]) >= 0)"
# index k (from the left of the dirs listing) that +N / -N designates
LEFT = "('-' if old(XSH.env['PUSHD_MINUS']) else '+')"
KIDX = "(int(%s[1:]) if %s.startswith(" + LEFT + ") else len(old(DIRSTACK)) - int(%s[1:]))"
KIDX3 = KIDX % ("dir_or_n", "dir_or_n", "dir_or_n")
PK = "(int(nth[1:]) if nth.startswith(('-' if old(XSH.env['PUSHD_MINUS']) else '+')) else len(old(DIRSTACK)) - int(nth[1:]))"
PEXT = dict(EXT)
PEXT["_change_working_directory"] = None
contract(
    D + "pushd_fn", "C16", shards=6, params=dict(dir_or_n=Union(NoneT, Str), cd=Bool, quiet=Bool), globals=G, config=CFG, returns=RES,
    externals=EXT, calls={"_change_working_directory": D + "_change_working_directory"},
    requires={"in-step": SYNC, "size-limit-positive": "XSH.env['DIRSTACK_SIZE'] >= 1",
              "home-expansion-is-identity-on-absolute-paths": "os.path.expanduser(XSH.env['PWD']) == XSH.env['PWD']",
              "stack-entries-are-absolute-paths": "forall(lambda k: os.path.abspath(os.path.join(XSH.env['PWD'], DIRSTACK[k])) == DIRSTACK[k], 0, len(DIRSTACK))"},
    modifies=["XSH.env['PWD']", "XSH.env['OLDPWD']", "DIRSTACK", "CWD"], emits=["chdir", "on_chdir"],
    locals={"new_pwd": Union(NoneT, Str)},
    let={"rc": "result[2]"},
    ensures={
        "in-step": SYNC,
        "stack-bounded-after-every-pushd": "implies(rc == 0, len(DIRSTACK) <= XSH.env['DIRSTACK_SIZE'])",
        "stack-only-pushd-puts-the-directory-on-top": "implies(rc == 0 and not cd and dir_or_n is not None and os.path.isdir(dir_or_n), "
            "DIRSTACK == ([os.path.expanduser(dir_or_n)] + old(DIRSTACK))[:XSH.env['DIRSTACK_SIZE']] and %s)" % UNCHANGED,
        "a-failed-pushd-changes-nothing": "implies(rc != 0, (%s) and %s)" % (UNCHANGED, STACK_SAME),
        "a-failed-pushd-reports-an-error": "implies(rc != 0, result[1] is not None)",
        "pushd-dir-puts-the-old-directory-on-top": "implies(rc == 0 and cd and dir_or_n is not None and os.path.isdir(dir_or_n), "
            "DIRSTACK == ([old(XSH.env['PWD'])] + old(DIRSTACK))[:XSH.env['DIRSTACK_SIZE']] and len(log('chdir')) == 1 and log('chdir')[0] == %s)" % (TARGET % "dir_or_n"),
        "pushd-without-argument-swaps-the-top-two": "implies(rc == 0 and cd and dir_or_n is None, "
            "DIRSTACK == ([old(XSH.env['PWD'])] + old(DIRSTACK)[1:])[:XSH.env['DIRSTACK_SIZE']] and len(log('chdir')) == 1 and log('chdir')[0] == %s)" % (TARGET % "old(DIRSTACK)[0]"),
        # dirs' == dirs[k:] + dirs[:k], split by k so that each case is a simple sequence fact
        "pushd-N-rotation-by-0-is-a-no-op": "implies(rc == 0 and cd and %s and len(old(DIRSTACK)) <= XSH.env['DIRSTACK_SIZE'] and %s == 0, [XSH.env['PWD']] + DIRSTACK == %s)" % (ISN, KIDX3, VIEW),
        "pushd-N-rotation-by-the-last-entry": "implies(rc == 0 and cd and %s and len(old(DIRSTACK)) + 1 <= XSH.env['DIRSTACK_SIZE'] and len(old(DIRSTACK)) >= 1 and %s == len(old(DIRSTACK)), "
            "[XSH.env['PWD']] + DIRSTACK == [old(DIRSTACK)[len(old(DIRSTACK)) - 1]] + [old(XSH.env['PWD'])] + old(DIRSTACK)[:len(old(DIRSTACK)) - 1])" % (ISN, KIDX3),
        "pushd-N-rotates-the-stack": "implies(rc == 0 and cd and %s and len(old(DIRSTACK)) + 1 <= XSH.env['DIRSTACK_SIZE'] and 1 <= %s and %s < len(old(DIRSTACK)), "
            "[XSH.env['PWD']] + DIRSTACK == (%s)[%s:] + (%s)[:%s])" % (ISN, KIDX3, KIDX3, VIEW, KIDX3, VIEW, KIDX3),
        "a-reported-success-is-a-real-change": 'implies(rc == 0 and len(log("chdir")) > 0, CWD == log("chdir")[len(log("chdir")) - 1])',
    },
    assumptions=["paths on the stack are absolute, so os.path.abspath(os.path.join($PWD, p)) names p itself (the rotation clause compares names)"],
    from_property="The stack follows the documented rotation/removal rules, holds at most $DIRSTACK_SIZE entries after every pushd; a failed operation changes nothing and reports an error",
)

contract(
    D + "popd_fn", "C16", shards=3, params=dict(nth=Union(NoneT, Str), cd=Bool, quiet=Bool), globals=G, config=CFG, returns=RES,
    externals=EXT, calls={"_change_working_directory": D + "_change_working_directory"},
    requires={"in-step": SYNC},
    modifies=["XSH.env['PWD']", "XSH.env['OLDPWD']", "DIRSTACK", "CWD"], emits=["chdir", "on_chdir"],
    locals={"new_pwd": Union(NoneT, Str)},
    let={"rc": "result[2]"},
    ensures={
        "in-step": SYNC,
        "a-failed-popd-changes-nothing": "implies(rc != 0, (%s) and %s)" % (UNCHANGED, STACK_SAME),
        "a-failed-popd-reports-an-error": "implies(rc != 0, result[1] is not None)",
        "popd-removes-the-top": "implies(rc == 0 and nth is None, DIRSTACK == old(DIRSTACK)[1:] and implies(cd, len(log('chdir')) == 1 and log('chdir')[0] == %s))" % (TARGET % "old(DIRSTACK)[0]"),
        "popd-N-removes-exactly-entry-N": "implies(rc == 0 and nth is not None, DIRSTACK == old(DIRSTACK)[:max(%s - 1, 0)] + old(DIRSTACK)[max(%s - 1, 0) + 1:])" % (PK, PK),
        "popd-N-changes-directory-only-for-the-top": "implies(rc == 0 and nth is not None and len(DIRSTACK) == len(old(DIRSTACK)) - 1 and DIRSTACK != old(DIRSTACK)[1:], CWD == old(CWD))",
        "a-reported-success-is-a-real-change": 'implies(rc == 0 and len(log("chdir")) > 0, CWD == log("chdir")[len(log("chdir")) - 1])',
    },
    from_property="The stack follows the documented rotation/removal rules ... a failed operation changes nothing and reports an error",
)

contract(
    D + "dirs_fn", "C16", params=dict(nth=Union(NoneT, Str), clear=Bool, print_long=Bool, verbose=Bool, long=Bool), globals=G, config=CFG,
    returns=RES, externals=EXT,
    requires={"in-step": SYNC, "long-listing": "long and not verbose"},
    modifies=["DIRSTACK"],
    locals={"o": List(Str), "dirstack": List(Str)},
    let={"rc": "result[2]"},
    ensures={
        "in-step": SYNC,
        "only-clear-touches-the-stack": "implies(not clear, DIRSTACK == old(DIRSTACK))",
        "clear-empties-the-stack": "implies(clear, len(DIRSTACK) == 0 and rc == 0)",
        "dirs-N-names-entry-N-of-the-listing": "implies(rc == 0 and not clear and nth is not None, "
            "result[0] == ([os.path.expanduser(XSH.env['PWD'])] + DIRSTACK)[int(nth[1:]) if nth.startswith('-' if XSH.env['PUSHD_MINUS'] else '+') "
            "else len(DIRSTACK) - int(nth[1:])] + '\\n')",
        "out-of-range-is-an-error": "implies(not clear and nth is not None and is_py_int_literal(nth[1:]) and int(nth[1:]) > len(DIRSTACK), rc != 0)",
    },
    assumptions=["verified for the `-l` listing (the default listing abbreviates $HOME with a per-entry str.replace, not modelled)"],
    from_property="`dirs` (with +N/-N) ... the documented rules",
)


# ---- native world (replay, known-finding witnesses, bounded cross-check) -----------------------------
class _NS:
    def __init__(self, **kw):
        self.__dict__.update(kw)

    def __deepcopy__(self, memo):
        import copy
        return _NS(**{k: copy.deepcopy(v, memo) for k, v in self.__dict__.items()})


def _c16_prepare(inputs):
    """map the (arbitrary) path names of the inputs to real directories under a scratch root"""
    import os, tempfile
    root = tempfile.mkdtemp(prefix="xv-c16-", dir=os.environ.get("XV_SCRATCH"))
    names = {}

    def real(n):
        if n is None:
            return None
        if n not in names:
            names[n] = os.path.join(root, "d%d" % len(names))
            os.makedirs(names[n], exist_ok=True)
        return names[n]

    x = inputs.get("XSH") or {}
    f = x.get("fields", x)
    envf = f.get("env", {})
    envf = envf.get("fields", envf)
    env = {"PWD": real(envf.get("PWD", "P")), "AUTO_PUSHD": bool(envf.get("AUTO_PUSHD", False)), "PUSHD_MINUS": bool(envf.get("PUSHD_MINUS", False)),
           "PUSHD_SILENT": True, "DIRSTACK_SIZE": int(envf.get("DIRSTACK_SIZE", 20)), "HOME": real(envf.get("HOME", "H")), "CDPATH": []}
    if envf.get("has_OLDPWD", "OLDPWD" in envf and "has_OLDPWD" not in envf):
        env["OLDPWD"] = real(envf.get("OLDPWD", "O"))
    inputs["XSH"] = _NS(env=env)
    inputs["DIRSTACK"] = [real(n) for n in inputs.get("DIRSTACK", [])]
    inputs["CWD"] = env["PWD"]
    for k in ("dir_or_n", "newdir"):
        v = inputs.get(k)
        if isinstance(v, str) and not (v[:1] in "+-" and v[1:].isdigit()) and v not in ("", "-"):
            inputs[k] = real(v)
    if "args" in inputs:
        inputs["args"] = [a if (a[:1] == "-") else real(a) for a in inputs["args"]]
    inputs["__root__"] = root
    inputs["__fail__"] = [real(n) for n in inputs.get("chdir_fail", [])]
    return inputs


def _c16_harness(fname, argnames):
    def run(inputs):
        import os, shutil
        import xonsh.dirstack as ds
        from xonsh.built_ins import XSH

        logs = {"chdir": []}
        saved = (XSH.env, ds.DIRSTACK, os.getcwd(), ds.os.chdir)
        real_chdir = os.chdir

        def chdir(p):
            logs["chdir"].append(p)
            if p in inputs["__fail__"]:
                raise OSError(13, "chdir denied (injected)", p)
            real_chdir(p)

        XSH.env = inputs["XSH"].env
        ds.DIRSTACK = inputs["DIRSTACK"]
        real_chdir(inputs["XSH"].env["PWD"])
        ds.os.chdir = chdir
        out = {"__logs__": logs}
        try:
            out["__result__"] = getattr(ds, fname)(*[inputs[a] for a in argnames])
        except BaseException as e:  # noqa
            out["__result__"], out["__exc__"] = None, e
        finally:
            ds.os.chdir = saved[3]
            out["CWD"] = os.getcwd()
            out["DIRSTACK"] = list(ds.DIRSTACK)
            inputs["DIRSTACK"] = out["DIRSTACK"]
            inputs["CWD"] = out["CWD"]
            real_chdir(saved[2])
            XSH.env, ds.DIRSTACK = saved[0], saved[1]
            shutil.rmtree(inputs["__root__"], ignore_errors=True)
        return out
    return run


def _c16_native_env(inputs):
    import os

    def is_py_int_literal(s):
        try:
            int(s)
            return True
        except ValueError:
            return False

    fail = set(inputs.get("__fail__", []))
    return {"os": os, "is_py_int_literal": is_py_int_literal, "chdir_ok": lambda p: p not in fail,
            "exists_str": lambda f: any(f(p) for p in fail) or False, "forall_str": lambda f: True}


def _c16_domain(kind):
    def dom(tier, seed):
        cases = []
        stacks = [[], ["A"], ["A", "B"], ["A", "B", "C"]] + ([["A", "B", "C", "E"]] if tier == "thorough" else [])
        for st in stacks:
            for minus in (False, True):
                for size in (20, 2):
                    env = {"PWD": "P", "PUSHD_MINUS": minus, "DIRSTACK_SIZE": size, "OLDPWD": "O", "has_OLDPWD": True}
                    base = {"XSH": {"env": env}, "DIRSTACK": st}
                    if kind == "pushd":
                        for a in [None, "N", "+0", "+1", "+2", "+3", "+4", "-0", "-1", "-2", "-3", "+x", "zz9"]:
                            for fail in ([], ["A"], ["N"]):
                                cases.append(dict(base, dir_or_n=a, cd=True, quiet=True, chdir_fail=fail))
                            cases.append(dict(base, dir_or_n=a, cd=False, quiet=True))
                    elif kind == "popd":
                        for a in [None, "+0", "+1", "+2", "+3", "-0", "-1", "-2", "-3", "+x"]:
                            for fail in ([], ["A"]):
                                cases.append(dict(base, nth=a, cd=True, quiet=True, chdir_fail=fail))
                    elif kind == "cd":
                        for a in ([], ["N"], ["-"], ["-0"], ["-1"], ["-2"], ["-9"], ["-x"], ["N", "M"]):
                            for fail in ([], ["N"], ["O"], ["A"]):
                                for ap in (False, True):
                                    cases.append(dict(base, XSH={"env": dict(env, AUTO_PUSHD=ap)}, args=a, chdir_fail=fail))
        return {"cases": cases, "bound": "stacks of <= %d distinct directories, +N/-N for N <= 4, both $PUSHD_MINUS settings, $DIRSTACK_SIZE in {2, 20}, an injected chdir failure" % (len(stacks) - 1),
                "domain": "%d cases on a real directory tree" % len(cases)}
    return dom


for _c in BY_PROP["C16"]:
    q = _c.target.split("::")[1]
    _c.native_prepare = _c16_prepare
    _c.native_env = _c16_native_env
    if q == "pushd_fn":
        _c.replay = _c16_harness("pushd_fn", ("dir_or_n", "cd", "quiet"))
        _c.native_domain = _c16_domain("pushd")
    elif q == "popd_fn":
        _c.replay = _c16_harness("popd_fn", ("nth", "cd", "quiet"))
        _c.native_domain = _c16_domain("popd")
    elif q == "cd":
        _c.replay = _c16_harness("cd", ("args",))
        _c.native_domain = _c16_domain("cd")
    elif q == "_change_working_directory":
        _c.replay = _c16_harness("_change_working_directory", ("newdir", "follow_symlinks"))


# ---- `pushd d` followed by `popd` restores both the directory and the stack: with_pushd composes the two ------------------------------
def _wp_yield(R, frame, val, ynode):
    """with-contract: the body of `with with_pushd(d):` - hypothesis for the restore clause: it leaves $PWD, the process directory and the
    stack as it found them (commands that cd elsewhere are outside the clause); it may raise anything"""
    R.named_heaps["in-body"] = R.snapshot()
    R.globals_snap = dict(R.globals_)
    ch = R.choose(["resume", "throw-Exception", "throw-BaseException"], "yield")
    if ch == "throw-Exception":
        raise PyRaise(Exc("Exception", exact=False, tag="exception raised by the with-body"))
    if ch == "throw-BaseException":
        raise PyRaise(Exc("KeyboardInterrupt", exact=True, tag="KeyboardInterrupt in the with-body"))
    return mk_none()


_BACK = "XSH.env['PWD'] == old(XSH.env['PWD']) and CWD == old(CWD) and DIRSTACK == old(DIRSTACK)"
_STILL = "XSH.env['PWD'] == %s and DIRSTACK == [old(XSH.env['PWD'])] + old(DIRSTACK)" % (TARGET % "d")
RESTORED = "implies(len(old(DIRSTACK)) + 1 <= XSH.env['DIRSTACK_SIZE'], (%s) or (%s))" % (_BACK, _STILL)
BACK_MEANS_ALL = ("implies(len(old(DIRSTACK)) + 1 <= XSH.env['DIRSTACK_SIZE'] and %s != old(XSH.env['PWD']) and CWD == old(CWD), %s)" % (TARGET % "d", _BACK))
contract(
    D + "with_pushd", "C16", params=dict(d=Str), globals=G, config=CFG, externals=EXT, hooks={"yield": _wp_yield},
    calls={"pushd_fn": D + "pushd_fn", "popd_fn": D + "popd_fn"},
    requires={"in-step": SYNC, "size-limit-positive": "XSH.env['DIRSTACK_SIZE'] >= 1",
              "home-expansion-is-identity-on-absolute-paths": "os.path.expanduser(XSH.env['PWD']) == XSH.env['PWD']",
              "stack-entries-are-absolute-paths": "forall(lambda k: os.path.abspath(os.path.join(XSH.env['PWD'], DIRSTACK[k])) == DIRSTACK[k], 0, len(DIRSTACK))",
              "$PWD-is-an-absolute-path (joining it to anything gives itself)": "forall_str(lambda p: os.path.abspath(os.path.join(p, XSH.env['PWD'])) == XSH.env['PWD'])",
              "the-target-is-a-directory": "os.path.isdir(d)"},
    modifies=["XSH.env['PWD']", "XSH.env['OLDPWD']", "DIRSTACK", "CWD"], emits=["chdir", "on_chdir"],
    raises={"BaseException+": True},
    ensures={"in-step": SYNC, "pushd-d-then-popd-restores-the-directory-and-the-stack (or, when the way back fails, leaves exactly the pushed state - never a mixture)": RESTORED,
             "once-the-process-is-back-in-the-old-directory-$PWD-and-the-stack-are-as-before-too": BACK_MEANS_ALL,
             "the-way-back-is-attempted-exactly-once": "len(log('call:popd_fn')) == 1"},
    ensures_exc={"in-step": SYNC, "a-failed-pushd-changes-nothing-and-an-exception-in-the-body-still-pops": RESTORED,
                 "whatever-escapes-the-way-back-was-attempted-unless-nothing-was-pushed": "(%s) or len(log('call:popd_fn')) == 1" % _BACK},
    assumptions=["the with-body leaves $PWD, the process directory and the stack as it found them (hypothesis of the restore clause)"],
    from_property="`pushd d` followed by `popd` restores both the directory and the stack (with_pushd is exactly that pair around a body)",
)
