"""C09 - bounded stand-in on the real shell machinery (never counted as proved): a fixed list of command shapes, each run three
times in one headless session; descriptors, children, threads, cwd, standard streams and the SIGINT handler must be as before."""
import json
import os
from pyvc.contract import *

HERE = os.path.dirname(os.path.dirname(os.path.abspath(__file__)))
COMMANDS = [
    "echo hi > /dev/null", "echo hi | cat > /dev/null", "nonexistent-cmd-xyz", "false", "x = $(echo hi)", "x = !(echo hi); x.end()",
    "echo hi | nonexistent-cmd-xyz", "yes | head -n 1 > /dev/null", "okalias > /dev/null", "badalias", "okalias | cat > /dev/null",
    "echo hi | okalias > /dev/null", "yes | cat | head -n 1 > /dev/null", "x = $(badalias)", "echo hi > /nonexistent-dir/f", "x = @$(echo a b)",
    "echo hi e>o | cat > /dev/null", "nonexistent-cmd-xyz | cat > /dev/null", "cat < /nonexistent-file", "x = $(false)",
]
_DRIVER = r'''
import os, sys, signal, threading, time, gc, json, warnings
warnings.simplefilter("ignore")
from xonsh.built_ins import XSH
from xonsh.execer import Execer
XSH.load(execer=Execer(), inherit_env=True)
env = XSH.env
env["XONSH_INTERACTIVE"] = False
env["XONSH_SHOW_TRACEBACK"] = False
XSH.aliases["okalias"] = lambda args, stdin=None: "out\n"
def bad(args, stdin=None):
    raise RuntimeError("boom")
XSH.aliases["badalias"] = bad
def snap():
    gc.collect()
    try:
        kids = open("/proc/self/task/%d/children" % os.getpid()).read().split()
    except OSError:
        kids = []
    h = signal.getsignal(signal.SIGINT)
    return dict(fds=len(os.listdir("/proc/self/fd")), children=len(kids), threads=threading.active_count(), cwd=os.getcwd(),
                sigint=getattr(h, "__qualname__", repr(h)), stdout=id(sys.stdout), stderr_is_saved=True, stdin=id(sys.stdin))
cmds = json.loads(sys.argv[1])
devnull = open(os.devnull, "w")
res = {}
real_err = sys.stderr
for c in cmds:
    base = snap()
    for rep in range(3):
        sys.stderr = devnull
        try:
            XSH.execer.exec(c + "\n", glbs={"__xonsh__": XSH}, locs={})
        except BaseException:
            pass
        finally:
            sys.stderr = real_err
    for _ in range(20):
        after = snap()
        if after == base:
            break
        time.sleep(0.1)
    # the next command starts from what this one left (so one leak is reported once, at the command that caused it)
    # counts only matter when they GROW (a child left by an earlier command may get reaped during a later one)
    res[c] = {k: [base[k], after[k]] for k in base if (after[k] > base[k] if k in ("fds", "children", "threads") else base[k] != after[k])}
print("RESULT " + json.dumps(res))
'''


def _known(prop):
    p = os.path.join(HERE, "KNOWN_FINDINGS.json")
    return [k for k in json.load(open(p))["findings"] if k["property"] == prop and k.get("status") == "known" and k.get("native_class")]


def session(tier, seed):
    import subprocess
    import sys
    import tempfile

    repo = os.environ.get("XV_REPO", "/repo")
    d = tempfile.mkdtemp(prefix="xv-c09-", dir=os.environ.get("XV_SCRATCH"))
    drv = os.path.join(d, "driver.py")
    open(drv, "w").write(_DRIVER)
    failures, known_hits, n, nontrivial, samples = [], {}, 0, 0, []
    known = _known("C09")
    try:
        p = subprocess.run([sys.executable, drv, json.dumps(COMMANDS)], cwd=d, capture_output=True, text=True, timeout=600,
                           env=dict(os.environ, PYTHONPATH=repo + os.pathsep + os.environ.get("PYTHONPATH", "")), stdin=subprocess.DEVNULL)
        line = [l for l in p.stdout.splitlines() if l.startswith("RESULT ")]
        if not line:
            return {"kind": "bounded", "evaluations": 0, "distinct_nontrivial": 0, "failures": [], "exhaustive": False, "error": "driver failed: " + (p.stderr or p.stdout)[-400:],
                    "bound": "", "domain": "", "samples": []}
        res = json.loads(line[0][7:])
        for c in COMMANDS:
            n += 1
            diff = res.get(c, {})
            if not diff:
                nontrivial += 1
                if len(samples) < 4:
                    samples.append({"command": c, "after 3 runs": "unchanged"})
                continue
            hit = None
            for kf in known:
                try:
                    if eval(kf["native_class"], {"command": c, "changed": sorted(diff)}):
                        hit = kf
                        break
                except Exception:
                    pass
            if hit:
                known_hits[hit["id"]] = known_hits.get(hit["id"], 0) + 1
            elif len(failures) < 6:
                failures.append({"clause": "after the command has finished (3 runs) the session holds what it held before", "inputs": {"command": c},
                                 "observed": "changed: " + ", ".join("%s %r -> %r" % (k, v[0], v[1]) for k, v in sorted(diff.items()))})
    finally:
        for fn in os.listdir(d):
            try:
                os.unlink(os.path.join(d, fn))
            except OSError:
                pass
        try:
            os.rmdir(d)
        except OSError:
            pass
    known_lines = ["KNOWN-FINDING: property=C09 %s [%s]" % (kf["text"], kf["id"]) for kf in known if kf["id"] in known_hits]
    return {"kind": "bounded", "evaluations": n, "distinct_nontrivial": nontrivial, "failures": failures, "exhaustive": False,
            "bound": "%d command shapes x 3 repetitions in one headless, non-interactive session (no tty: terminal ownership not observable)" % len(COMMANDS),
            "domain": "real execer / run_subproc / CommandPipeline in a child python; observed: open descriptors, child processes, threads, cwd, std streams, SIGINT handler",
            "samples": samples, "known_lines": known_lines, "known_hits": known_hits}


native_check("C09", "session-unchanged-after-commands", "bounded", session, doc="real commands in a headless session, resources before/after")
