"""C06 - bounded stand-in on the real machinery (never counted as proved): payloads of many sizes and chunkings through real
`$()`, `!()` (.out / .raw_out / iteration), `@$()` with external and alias stages, compared byte for byte with what was written."""
import json
import os
from pyvc.contract import *

_DRIVER = r'''
import os, sys, json, warnings
warnings.simplefilter("ignore")
from xonsh.built_ins import XSH
from xonsh.execer import Execer
XSH.load(execer=Execer(), inherit_env=True)
env = XSH.env
env["XONSH_INTERACTIVE"] = False
env["XONSH_SHOW_TRACEBACK"] = False
tier = sys.argv[1]
def lines_alias(args, stdin=None, stdout=None):
    n = int(args[0])
    for i in range(n):
        stdout.write("%d\n" % i)
    return int(args[1]) if len(args) > 1 else 0
XSH.aliases["linesalias"] = lines_alias
def upper_alias(args, stdin=None, stdout=None):
    for l in stdin:
        stdout.write(l.upper())
XSH.aliases["upperalias"] = upper_alias
PY = sys.executable
def run(src, glb):
    XSH.execer.exec(src + "\n", glbs=glb, locs=None)
res = []
sizes = [0, 1, 5, 1023, 1024, 1025, 4096, 65536, 70000] + ([200000, 1 << 20] if tier != "quick" else [])
for n in sizes:
    for nl in (True, False):
        prog = "import sys; sys.stdout.write('x' * %d + (chr(10) if %s else ''))" % (n, nl)
        want = "x" * n + ("\n" if nl else "")
        g = {"__xonsh__": XSH, "PY": PY, "prog": prog}
        run("r = $(@(PY) -c @(prog))", g)
        exp = want[:-1] if want.endswith("\n") and want.count("\n") == 1 else want
        res.append(["$() external size=%d nl=%s" % (n, nl), g["r"] == exp, len(g["r"]), len(exp)])
        run("p = !(@(PY) -c @(prog)); o = p.out; rc = p.returncode; raw = p.raw_out", g)
        # `.out` goes through the same stream_lines formatter as $(): one-line output comes without its final newline
        # (whether a ONE-line output keeps its final newline in `.out` depends on how many chunks it arrived in: both accepted)
        res.append(["!() .out external size=%d nl=%s" % (n, nl), g["o"] in (exp, want) and g["rc"] == 0, len(g["o"]), len(exp)])
        res.append(["!() .raw_out external size=%d nl=%s" % (n, nl), g["raw"] == want.encode(), len(g["raw"]), len(want)])
for n in [0, 1, 10, 1000, 1500, 5000, 60000]:
    want = "".join("%d\n" % i for i in range(n))
    g = {"__xonsh__": XSH}
    run("p = !(linesalias %d 7); o = p.out; rc = p.returncode" % n, g)
    exp = want[:-1] if want.count("\n") == 1 else want
    res.append(["!() .out alias lines=%d" % n, g["o"] == exp and g["rc"] == 7, len(g["o"]), len(exp)])
    run("r = $(linesalias %d)" % n, g)
    res.append(["$() alias lines=%d" % n, g["r"] == exp, len(g["r"]), len(exp)])
    run("p = !(linesalias %d | cat); o = p.out" % n, g)
    res.append(["!() alias|cat lines=%d" % n, g["o"] == exp, len(g["o"]), len(exp)])
    if n <= 5000:
        run("it = [l for l in !(linesalias %d)]" % n, g)
        res.append(["iteration alias lines=%d" % n, "".join(g["it"]) == want, len("".join(g["it"])), len(want)])
env["XONSH_SUBPROC_RAISE_ERROR"] = False
env["XONSH_SUBPROC_CMD_RAISE_ERROR"] = False
g = {"__xonsh__": XSH, "PY": PY, "prog": "import sys; sys.stdout.write('a' + chr(13) + chr(10) + 'b' + chr(13) + 'c' + chr(10))"}
run("r = $(@(PY) -c @(prog))", g)
res.append(["CR/CRLF normalised", g["r"] == "a\nb\nc\n", repr(g["r"]), repr("a\nb\nc\n")])
g["prog"] = "import sys; sys.stderr.write('ERR'); sys.stdout.write('OUT')"
run("r = $(@(PY) -c @(prog) e>/dev/null)", g)
res.append(["stderr not mixed in", g["r"] == "OUT", repr(g["r"]), "OUT"])
g["prog"] = "import sys; sys.stdout.write('z'); sys.exit(3)"
run("p = !(@(PY) -c @(prog)); o = p.out; rc = p.returncode", g)
res.append(["return code of the final stage", g["o"] == "z" and g["rc"] == 3, g["rc"], 3])
# one-line output: ONLY the final newline goes; blanks, tabs and other trailing whitespace before it are bytes the command wrote
for text in ["two words  ", "   ", "tab\t", "x \t ", "nbsp\u00a0", "plain"]:
    g["prog"] = "import sys; sys.stdout.write(%r + chr(10))" % text
    run("r = $(@(PY) -c @(prog))", g)
    res.append(["one line ending in whitespace %r via $()" % text, g["r"] == text, repr(g["r"]), repr(text)])
    run("p = !(@(PY) -c @(prog)); o = p.out", g)
    res.append(["one line ending in whitespace %r via !().out" % text, g["o"] in (text, text + "\n"), repr(g["o"]), repr(text)])
g["prog"] = "print('a b  c')"
run("r = $(echo @$(@(PY) -c @(prog)))", g)
res.append(["@$() injects the whitespace-separated words", g["r"] == "a b c", repr(g["r"]), repr("a b c")])
print("RESULT " + json.dumps(res))
'''


def capture(tier, seed):
    import subprocess
    import sys
    import tempfile

    repo = os.environ.get("XV_REPO", "/repo")
    d = tempfile.mkdtemp(prefix="xv-c06-", dir=os.environ.get("XV_SCRATCH"))
    drv = os.path.join(d, "driver.py")
    open(drv, "w").write(_DRIVER)
    failures, n, nontrivial, samples = [], 0, 0, []
    try:
        p = subprocess.run([sys.executable, drv, tier], cwd=d, capture_output=True, text=True, timeout=900,
                           env=dict(os.environ, PYTHONPATH=repo + os.pathsep + os.environ.get("PYTHONPATH", "")), stdin=subprocess.DEVNULL)
        line = [l for l in p.stdout.splitlines() if l.startswith("RESULT ")]
        if not line:
            return {"kind": "bounded", "evaluations": 0, "distinct_nontrivial": 0, "failures": [], "exhaustive": False,
                    "error": "driver failed: " + (p.stderr or p.stdout)[-600:], "bound": "", "domain": "", "samples": []}
        for name, ok, got, want in json.loads(line[0][7:]):
            n += 1
            if ok:
                nontrivial += 1
                if len(samples) < 4 and ("65536" in name or "60000" in name):
                    samples.append({"case": name, "bytes": want})
            elif len(failures) < 6:
                failures.append({"clause": "the capture is exactly what the final stage wrote", "inputs": {"case": name},
                                 "observed": "captured %r units, written %r" % (got, want)})
    finally:
        for fn in os.listdir(d):
            try:
                os.unlink(os.path.join(d, fn))
            except OSError:
                pass
        try:
            os.rmdir(d)
        except OSError:
            pass
    return {"kind": "bounded", "evaluations": n, "distinct_nontrivial": nontrivial, "failures": failures, "exhaustive": False,
            "bound": "external payloads of 0 .. 70000 (thorough: 1 MiB) bytes with/without final newline; alias stages writing 0 .. 60000 lines; one run each (no forced thread schedules)",
            "domain": "real execer / run_subproc / CommandPipeline / readers in a child python (headless)", "samples": samples}


native_check("C06", "captures-equal-what-was-written", "bounded", capture, doc="real $() / !() / @$() on many payload sizes, external and alias stages")
