"""C10 - the mapping handed to child processes reflects the values at launch time.

Representation invariant of the detype cache (after fix 2d58ace the cache describes the SHARED layer
G = `_d._global` only, and is used / filled only by a thread without overlays and without overrides):

    INV(env):  env._detyped is None  or  env._detyped == DET(G)

DET(m) is stated pointwise (no model of dict iteration order): k is in DET(m) iff k is in m, m[k] is not
the DELETE_VAR mask, the variable has a detyper and det(detyper, m[k]) is not None; DET(m)[k] is that string.

 * Env.detype            requires INV; ensures the result is DET(effective mapping of THIS thread: overlays,
                          top-most first, over the thread's overrides, over the shared layer) and INV.
 * Env._set_item / _del_item / __getitem__ and the layered-dict primitives never store a non-None cache and
   leave `_detyped is None` whenever they return - normally or by exception - with G changed; __getitem__
   additionally drops the cache whenever it hands out a value that can be edited in place.
   (INV is preserved by each: either the cache is None, or neither it nor G changed.)

What this cannot see is a reference obtained BEFORE the last detype() and edited afterwards; that is the
bounded history check of C10_zroundtrip.py and a recorded known finding."""
from pyvc.contract import *

E = "xonsh/environ.py::"
VAL = Opaque("val")
LAYER = Dict(Str, VAL, ordered=True)
OVL = VMap(Str, VAL)
STRMAP = Dict(Str, Str, ordered=True)
IED = Obj("InternalEnvironDict", _local=LAYER, _global=LAYER)
SENT = {"DELETE_VAR": VAL, "NotImplemented": VAL}
L_, G_ = "self._d._local", "self._d._global"

FROM_MUT = ("the detyped mapping ... reflects the values at launch time (the cached mapping must be dropped whenever a value "
            "may have changed): histories of set / delete")

# ---- the layered dict: which layer a primitive may touch ------------------------------------------------------
for _m, _params, _mod, _raises in [
    ("__setitem__", dict(self=IED, key=Str, value=VAL), ["self._local", "self._global"], {}),
    ("__delitem__", dict(self=IED, key=Str), ["self._local", "self._global"], {"KeyError": True}),
    ("set_locally", dict(self=IED, key=Str, value=VAL), ["self._local"], {}),
    ("del_locally", dict(self=IED, key=Str), ["self._local"], {}),
]:
    contract(E + "InternalEnvironDict." + _m, "C10", params=_params, modifies=_mod, raises=_raises, locals={"local": LAYER},
             ensures={"frame-only": "True"},
             ensures_exc={"a-failed-delete-changes-nothing": "self._local == old(self._local) and self._global == old(self._global)"} if _raises else {},
             from_property="frame of the layered dict primitives (which layer may change)")

# ---- DET, pointwise ------------------------------------------------------------------------------------------------
def DETSPEC(c, has, val):
    """`c` (a str->str dict expression) is DET of the mapping given by the spec templates has(k) / val(k)"""
    h, v = has.replace("K", "k"), val.replace("K", "k")
    return ("(forall_str(lambda k: (k in %(c)s) == (%(h)s and %(v)s != DELETE_VAR and self.get_detyper(k) is not None "
            "and det(self.get_detyper(k), %(v)s) is not None)) and "
            "forall_str(lambda k: implies(k in %(c)s, %(c)s[k] == det(self.get_detyper(k), %(v)s))))" % dict(c=c, h=h, v=v))


INV = "(self._detyped is None or %s)" % DETSPEC("self._detyped", "K in %s" % G_, "%s[K]" % G_)
# the effective mapping of the calling thread
N = "len(self._overlay_stack)"
IN_OVL = "exists(lambda j: K in self._overlay_stack[j], 0, %s)" % N
IN_VIEW = "(K in %s or K in %s)" % (L_, G_)
VIEW_VAL = "(%s[K] if K in %s else %s[K])" % (L_, L_, G_)
EFF_HAS = "(%s or %s)" % (IN_VIEW, IN_OVL)

DET_EXT = {
    "Env.get_detyper": Ext(ret=Union(NoneT, Opaque("detyper")), pure=True),
    "<call:detyper>": Ext(ret=Union(NoneT, Str), pure=True, uf="det", raises=["Exception+"], args=[Opaque("detyper"), VAL]),
    "det": Ext(ret=Union(NoneT, Str), pure=True, uf="det", args=[Opaque("detyper"), VAL]),
}


def _dict_of_layers(R, d, node):
    """dict(InternalEnvironDict): ChainMap iteration over maps == [thread layer, shared layer] - a key is present when it is in
    either layer, the thread layer's value wins (ASSUMED contract of collections.ChainMap with the `maps` property of the class)"""
    from pyvc import models
    L = R.content(R.getattr(d, "_local"))
    G = R.content(R.getattr(d, "_global"))
    has, vals = models.merged_arrays(R, L.t.k, L.t.v, G.t.has(G.z), G.t.val(G.z), L.t.has(L.z), L.t.val(L.z), "view")
    return models.dict_from_parts(R, LAYER, has, vals, "view")


ENVD = Obj("Env", _d=IED, _overlay_stack=List(OVL), _detyped=Nullable(STRMAP))
# after i overlays: items = view updated by overlays 0..i-1 (top-most = the latest containing the key)
UPTO = "exists(lambda j: K in self._overlay_stack[j], 0, _i)"
TOPVAL = ("forall(lambda j: implies(k in self._overlay_stack[j] and forall(lambda m: k not in self._overlay_stack[m], j + 1, %s), "
          "%s == self._overlay_stack[j][k]), 0, %s)")
contract(
    E + "Env.detype", "C10", shards=4, params=dict(self=ENVD), globals=SENT, externals=DET_EXT, returns=STRMAP,
    config={"dict_of": {"InternalEnvironDict": _dict_of_layers}, "isinstance": {"str": ["str"]}},
    locals={"ctx": STRMAP, "items": LAYER, "cacheable": Bool},
    requires={"cache-valid": INV},
    modifies=["self._detyped"],
    loops={
        "for#1": dict(invariant={
            "keys-so-far": "forall_str(lambda k: (k in items) == (%s or %s))" % (IN_VIEW.replace("K", "k"), UPTO.replace("K", "k")),
            "view-values-below": "forall_str(lambda k: implies(%s and not %s, items[k] == %s))" % (
                IN_VIEW.replace("K", "k"), UPTO.replace("K", "k"), VIEW_VAL.replace("K", "k")),
            "top-most-overlay-wins": "forall_str(lambda k: %s)" % (TOPVAL % ("_i", "items[k]", "_i"))},
            havoc_only=["items"]),
        "for#2": dict(invariant={
            "translated-so-far": "forall_str(lambda k: (k in ctx) == (exists(lambda j: _seq[j] == k, 0, _i) and items[k] != DELETE_VAR "
                                 "and self.get_detyper(k) is not None and det(self.get_detyper(k), items[k]) is not None))",
            "values-so-far": "forall_str(lambda k: implies(k in ctx, ctx[k] == det(self.get_detyper(k), items[k])))"},
            havoc_only=["ctx"]),
    },
    raises={"RuntimeError": True},
    ensures={
        "keys-are-the-translatable-unmasked-effective-variables":
            "forall_str(lambda k: implies(k in result, %s))" % EFF_HAS.replace("K", "k"),
        "masked-or-untranslatable-entries-are-omitted-and-nothing-else":
            "forall_str(lambda k: implies(%s and not %s, (k in result) == (%s != DELETE_VAR and self.get_detyper(k) is not None "
            "and det(self.get_detyper(k), %s) is not None) and implies(k in result, result[k] == det(self.get_detyper(k), %s))))" % (
                IN_VIEW.replace("K", "k"), IN_OVL.replace("K", "k"), VIEW_VAL.replace("K", "k"), VIEW_VAL.replace("K", "k"), VIEW_VAL.replace("K", "k")),
        "overlay-values-win-top-most-first":
            "forall_str(lambda k: forall(lambda j: implies(k in self._overlay_stack[j] and forall(lambda m: k not in self._overlay_stack[m], j + 1, %(N)s), "
            "(k in result) == (self._overlay_stack[j][k] != DELETE_VAR and self.get_detyper(k) is not None and det(self.get_detyper(k), self._overlay_stack[j][k]) is not None) "
            "and implies(k in result, result[k] == det(self.get_detyper(k), self._overlay_stack[j][k]))), 0, %(N)s))" % dict(N=N),
        "cache-valid": INV,
    },
    ensures_exc={"cache-valid": INV},
    assumptions=["collections.ChainMap semantics of dict(self._d): thread layer first, then the shared layer",
                 "variable names are str (the str(key) coercion branch is dead)",
                 "a detyper is a function of the value (det); it may also raise, which detype turns into RuntimeError"],
    from_property="handed to child processes as a string-to-string mapping that reflects the values at launch time - including ... temporary swaps "
                  "and per-command `$X=1 cmd` overlays - with untranslatable or masked entries omitted rather than garbled",
)


# ---- the mutators -------------------------------------------------------------------------------------------------
CACHE_POST = {"cache-valid": INV}
VARREC = Rec("Var", deprecated=Bool, sync=Union(NoneT, Str))
ENV2 = Obj("Env", _d=IED, _overlay_stack=List(OVL), _detyped=Nullable(STRMAP), _vars=Dict(Str, VARREC), _no_value=VAL,
           _orig_env=Nullable(Dict(Str, Str)))
OSENV = dict(SENT, os_environ=Dict(Str, Str))
MUT_EXT = dict(DET_EXT)
MUT_EXT.update({
    "InternalEnvironDict.__contains__": Ext(ret=Bool, note="ChainMap lookup over [thread layer, shared layer] (read only)"),
    "InternalEnvironDict.__getitem__": Ext(ret=VAL, note="only called under `key in self._d` in these functions: does not raise"),
    "InternalEnvironDict.get": Ext(ret=VAL),
    "Env.get_validator": Ext(ret=Opaque("validator"), pure=True), "Env.get_converter": Ext(ret=Opaque("converter"), pure=True),
    "<call:validator>": Ext(ret=Bool, raises=["Exception+"]),
    "<call:converter>": Ext(ret=VAL, raises=["ValueError", "Exception+"]),
    'Env.get("UPDATE_OS_ENVIRON")': Ext(ret=Bool),
    "warnings.warn": Ext(), "events.on_envvar_new.fire": Ext(note="the event system catches handler exceptions"),
    "events.on_envvar_change.fire": Ext(note="the event system catches handler exceptions"),
    "Env._find_var_pattern_name": Ext(ret=Union(NoneT, Str), pure=True),
})
contract(
    E + "Env.replace_env", "C10", params=dict(self=ENV2), globals=OSENV, externals=MUT_EXT,
    locals={"new_env": STRMAP},
    requires={"cache-valid": INV}, modifies=["self._detyped", "self._orig_env", "os_environ"],
    raises={"RuntimeError": True}, ensures=CACHE_POST, ensures_exc=CACHE_POST,
    from_property="optional mirroring into os.environ goes through detype(): the cache stays valid",
)
contract(
    E + "Env._set_item", "C10", shards=4, params=dict(self=ENV2, key=Str, val=VAL, thread_local=Bool, check_sync=Bool),
    globals=OSENV, externals=MUT_EXT, variant="1 if check_sync else 0",
    requires={"sentinels-are-distinct": "DELETE_VAR != NotImplemented", "cache-valid": INV},
    modifies=[L_, G_, "self._detyped", "self._orig_env", "os_environ"],
    locals={"pat_name": Union(NoneT, Str)},
    abstract=[dict(line_contains="if pat_name is not None:", may_raise=True, reason="builds the error message for a failed conversion (raises)")],
    raises={"Exception+": True},
    ensures=CACHE_POST, ensures_exc=CACHE_POST,
    from_property=FROM_MUT,
)
contract(
    E + "Env._del_item", "C10", params=dict(self=ENV2, key=Str, thread_local=Bool), globals=OSENV,
    externals=MUT_EXT, requires={"cache-valid": INV}, modifies=[L_, G_, "self._detyped", "os_environ"],
    raises={"KeyError": True, "Exception+": True},
    ensures=CACHE_POST, ensures_exc=CACHE_POST,
    from_property=FROM_MUT,
)


# ---- reads that hand out an editable value ------------------------------------------------------------------------------
VARD = Rec("VarD", default=VAL)
ENV3 = Obj("Env", _d=IED, _overlay_stack=List(OVL), _vars=Dict(Str, VARD), _detyped=Nullable(STRMAP))
READ_EXT = dict(DET_EXT)
READ_EXT.update({
    "InternalEnvironDict.__contains__": Ext(ret=Bool), "InternalEnvironDict.__getitem__": Ext(ret=VAL),
    "Env.get_default": Ext(ret=VAL, pure=True, uf="dflt"), "is_callable_default": Ext(ret=Bool, pure=True),
    "<call:val>": Ext(ret=VAL, raises=["Exception+"], note="a callable default (user code; given the environment, it may read it)"),
    "editable": Ext(ret=Bool, pure=True, uf="isa_MutableMapping_MutableSequence_MutableSet"),
})
contract(
    E + "Env.__getitem__", "C10", params=dict(self=ENV3, key=Str), globals=dict(SENT, DefaultNotGiven=VAL), externals=READ_EXT, returns=VAL,
    config={"isinstance": {}, "isinstance_uf": {"val": True}},
    requires={"cache-valid": INV},
    loops={"for#1": dict(invariant={"scanning-overlays": "True"})},
    abstract=[dict(line_contains="if isinstance(val, EnvPath):", may_raise=False, reason="EnvPath back-reference (name of the variable)")],
    modifies=["self._detyped", L_, G_],
    raises={"KeyError": True, "Exception+": True},
    ensures={"cache-valid": INV,
             "handing-out-an-editable-value-drops-the-cache":
                 "implies(editable(result) and forall(lambda j: key not in self._overlay_stack[j], 0, len(self._overlay_stack)), self._detyped is None)"},
    ensures_exc={"cache-valid": INV},
    assumptions=["`editable` = instance of MutableSet / MutableSequence / MutableMapping: every registered value type whose in-place edits change "
                 "its string form is one of them (checked over the real registry by the native check editable-types-are-registered-as-mutable)",
                 "a value read from an overlay (`$X=.. cmd` / alias env) is not part of the cached mapping (overlays bypass the cache)"],
    from_property="reflects the values at launch time - including in-place edits of list-like values (`$PATH.append(...)`)",
)
