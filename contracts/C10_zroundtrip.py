"""C10 - bounded stand-in over the REAL registry: for every registered variable (enumerated from
xonsh.environ.DEFAULT_VARS on every run, so a newly registered type cannot slip past) and every
value of a stated pool that its validator accepts, detype() gives a str (or None = omitted) and
convert(detype(v)) == v.  Never counted as proved."""
import json
import os
from pyvc.contract import *

HERE = os.path.dirname(os.path.dirname(os.path.abspath(__file__)))


def _pool():
    import itertools
    strs = ["", "a", "B", "a:b", "a,b", "1", "0", "none", "None", "true", "off", " ", "10", "-3", "1.5", "/x", "~/y", "é", "x y", "a\nb"]
    vals = [None, True, False, -1, 0, 1, 7, 999, 1000, 1001, 0.0, 1.5, 8128.5, float("inf")]
    vals += strs
    small = ["", "a", "B", "a:b", "a,b", "/x"]
    for n in (0, 1, 2):
        for t in itertools.product(small, repeat=n):
            vals.append(list(t))
            vals.append(tuple(t))
            if len(set(t)) == n:
                vals.append(set(t))
    for n in (0, 1, 2):
        for t in itertools.product((True, False), repeat=n):
            vals.append(list(t))
    for num in (0, 1, 30, 8128, 8128.5, 1.5, float("inf")):
        for unit in ("commands", "files", "s", "b", "kb", "min"):
            vals.append((num, unit))
    for num in (20.0, 50.0, 0.0, float("inf")):
        for unit in ("c", "%"):
            vals.append((num, unit))
    return vals


def _eq(a, b):
    try:
        from xonsh.tools import EnvPath
        if isinstance(a, EnvPath) or isinstance(b, EnvPath):
            return list(a) == list(b)
    except Exception:
        pass
    if isinstance(a, (list, tuple)) and isinstance(b, (list, tuple)):
        return list(a) == list(b)  # the sequence type (list / tuple / EnvPath) is not part of the value
    if a is None or b is None:
        return a is b
    return a == b  # 1 == True: equal values, as the statement asks


def _known(prop):
    p = os.path.join(HERE, "KNOWN_FINDINGS.json")
    return [k for k in json.load(open(p))["findings"] if k["property"] == prop and k.get("status") == "known" and k.get("native_class")]


def roundtrip(tier, seed):
    import copy
    from xonsh.environ import DEFAULT_VARS

    pool = _pool()
    known = _known("C10")
    failures, n, nontrivial, samples, triples = [], 0, 0, [], {}
    known_hits = {}
    uncovered = []
    for name, var in DEFAULT_VARS.items():
        validate, convert, detype = var.validate, var.convert, var.detype
        key = (getattr(validate, "__name__", "?"), getattr(convert, "__name__", "?"), getattr(detype, "__name__", "?"))
        if detype is None:
            continue  # untranslatable: omitted from the child environment by Env.detype (see its contract)
        valid = []
        for v in pool:
            try:
                if validate(copy.deepcopy(v)):
                    valid.append(v)
            except Exception:
                pass
        if not valid and convert is not None:
            # the validator accepts nothing from the pool (e.g. always_false): stored values are images of convert
            for s in [p for p in pool if isinstance(p, str)]:
                try:
                    valid.append(convert(s))
                except Exception:
                    pass
        if not valid:
            uncovered.append(name)
            continue
        triples.setdefault(key, 0)
        for v in valid:
            n += 1
            triples[key] += 1
            try:
                d = detype(copy.deepcopy(v))
                if d is None:
                    continue
                nontrivial += 1
                ok = isinstance(d, str)
                back = None
                if ok and convert is not None:
                    back = convert(d)
                    ok = _eq(back, v)
                    if not ok and type(back) is type(v) and type(v).__eq__ is object.__eq__:
                        ok = detype(back) == d  # objects without value equality: compared through their string form
                obs = {"detyped": repr(d), "converted_back": repr(back)}
            except Exception as e:  # noqa
                ok, obs = False, {"exception": repr(e)}
            if not ok:
                hit = None
                for kf in known:
                    try:
                        if eval(kf["native_class"], {"history": None, "var": name, "value": v, "triple": key, "float": float, "int": int, "type": type, "bool": bool, "isinstance": isinstance, "len": len, "any": any, "str": str, "list": list, "set": set, "tuple": tuple}):
                            hit = kf
                            break
                    except Exception:
                        pass
                if hit:
                    known_hits[hit["id"]] = known_hits.get(hit["id"], 0) + 1
                elif len(failures) < 8:
                    failures.append({"clause": "convert(detype(v)) == v and detype(v) is a str", "inputs": {"variable": name, "value": repr(v), "triple": list(key)}, "observed": obs})
            elif len(samples) < 4 and v not in (None, True, False):
                samples.append({"variable": name, "value": repr(v), "detyped": repr(d)})
    known_lines = ["KNOWN-FINDING: property=C10 %s [%s] (%d pool values)" % (kf["text"], kf["id"], known_hits[kf["id"]]) for kf in known if kf["id"] in known_hits]
    return {"kind": "bounded", "evaluations": n, "distinct_nontrivial": nontrivial, "failures": failures, "exhaustive": False,
            "bound": "value pool of %d candidates (strings over a 20-word list, lists/tuples/sets of <= 2 of 6 words, boundary numbers, unit tuples)" % len(pool),
            "domain": "%d registered variables, %d distinct (validate, convert, detype) triples of the real DEFAULT_VARS; not reached by the pool: %s" % (
                len(DEFAULT_VARS), len(triples), ", ".join(uncovered) or "none"),
            "samples": samples, "known_lines": known_lines, "known_hits": known_hits}


native_check("C10", "registered-type-round-trips", "bounded", roundtrip,
             doc="convert(detype(v)) == v for validator-accepted pool values of every registered variable")


# ---- bounded: histories of set / delete / in-place mutation / swap preceding a launch -------------------------
def detype_histories(tier, seed):
    """after every history the mapping handed to children (Env.detype(), possibly cached) equals the mapping
    recomputed from scratch"""
    import itertools
    import threading
    from xonsh.environ import Env
    from xonsh.built_ins import XSH

    saved_env = XSH.env
    L = 4 if tier == "quick" else 5
    rnd = None
    OPS = ["set-str", "set-path", "del", "detype", "hold", "mutate-held", "mutate-direct", "swap-detype", "read-default", "thread-swap-detype", "set-one", "set-true"]
    known = _known("C10")
    failures, n, nontrivial, samples, known_hits = [], 0, 0, [], {}
    for hist in itertools.product(OPS, repeat=L):
        if not any(h in ("detype", "swap-detype", "thread-swap-detype") for h in hist[:-1]):
            continue  # nothing can be stale without an earlier detype
        n += 1
        env = Env({"PATH": ["/bin"], "FOO": "x"})
        XSH.env = env
        held = None
        bad = None
        differs = []
        parked = []
        for i, op in enumerate(hist):
            try:
                if op == "set-str":
                    env["FOO"] = "y%d" % i
                elif op == "set-path":
                    env["PATH"] = ["/p%d" % i]
                elif op == "del":
                    if "FOO" in env._d:
                        del env["FOO"]
                elif op == "detype":
                    env.detype()
                elif op == "hold":
                    held = env["PATH"]
                elif op == "mutate-held":
                    if held is not None:
                        held.append("/h%d" % i)
                elif op == "mutate-direct":
                    env["PATH"].append("/d%d" % i)
                elif op == "swap-detype":
                    with env.swap(FOO="s%d" % i):
                        env.detype()
                elif op == "set-one":
                    env["BAR"] = 1          # 1 == True, but their string forms differ
                elif op == "set-true":
                    env["BAR"] = True
                elif op == "read-default":
                    env["HOSTTYPE"]  # a registered variable with a callable default: reading it stores it
                elif op == "thread-swap-detype":
                    # another thread enters a swap, launches (detype) and stays inside the swap until the history is over
                    inside, release = threading.Event(), threading.Event()

                    def _other(i=i, inside=inside, release=release):
                        try:
                            with env.swap(FOO="t%d" % i):
                                env.detype()
                                inside.set()
                                release.wait(10)
                        finally:
                            inside.set()
                    th = threading.Thread(target=_other, daemon=True)
                    th.start()
                    inside.wait(10)
                    parked.append((th, release))
            except Exception as e:  # noqa
                bad = "step %d %s raised %r" % (i, op, e)
                break
        if bad is None:
            nontrivial += 1
            got = dict(env.detype())
            env._detyped = None
            want = dict(env.detype())
            differs = sorted(k for k in set(got) | set(want) if got.get(k) != want.get(k))
            if got != want:
                bad = "children would receive %r, the environment says %r" % ({k: got.get(k) for k in ("PATH", "FOO", "HOSTTYPE", "BAR")}, {k: want.get(k) for k in ("PATH", "FOO", "HOSTTYPE", "BAR")})
        for th, release in parked:
            release.set()
            th.join(10)
        if bad:
            hit = None
            for kf in known:
                try:
                    if eval(kf["native_class"], {"history": list(hist), "var": None, "value": None, "triple": ("", "", ""), "any": any, "range": range, "len": len,
                                                 "differs": differs}):
                        hit = kf
                        break
                except Exception:
                    pass
            if hit:
                known_hits[hit["id"]] = known_hits.get(hit["id"], 0) + 1
            elif len(failures) < 5:
                failures.append({"clause": "Env.detype() reflects the values at launch time", "inputs": {"history": list(hist)}, "observed": bad})
        elif len(samples) < 3:
            samples.append(list(hist))
    XSH.env = saved_env
    known_lines = ["KNOWN-FINDING: property=C10 %s [%s] (%d histories)" % (kf["text"], kf["id"], known_hits[kf["id"]]) for kf in known if kf["id"] in known_hits]
    return {"kind": "bounded", "evaluations": n, "distinct_nontrivial": nontrivial, "failures": failures, "exhaustive": False,
            "bound": "all histories of %d operations over %s containing an earlier detype" % (L, OPS), "domain": "real Env with $PATH (EnvPath) and $FOO",
            "samples": samples, "known_lines": known_lines, "known_hits": known_hits}


native_check("C10", "detype-after-histories", "bounded", detype_histories,
             doc="cached Env.detype() vs recomputation after every short history of set/del/in-place mutation/swap")


# ---- enum: the assumption behind Env.__getitem__'s "editable" predicate ------------------------------------------------
def editable_types(tier, seed):
    """every registered default value (and every converter image of a pool string) that is not an instance of
    MutableSet / MutableSequence / MutableMapping has no in-place edit that changes its string form: it is of an
    immutable builtin type, or its detyped form is a function of immutable state"""
    import collections.abc as cabc
    from xonsh.environ import DEFAULT_VARS, Env, DefaultNotGiven, is_callable_default
    from xonsh.built_ins import XSH

    IMMUTABLE = (str, int, float, bool, tuple, frozenset, bytes, type(None))
    saved = XSH.env
    env = Env({"PATH": ["/bin"]})
    XSH.env = env
    failures, n, seen = [], 0, {}
    try:
        for name, var in DEFAULT_VARS.items():
            if var.detype is None:
                continue
            vals = []
            d = var.default
            if d is not DefaultNotGiven:
                try:
                    vals.append(d(env) if is_callable_default(d) else d)
                except Exception:
                    pass
            if var.convert is not None:
                for s in ("", "a", "a:b", "1", "x,y"):
                    try:
                        vals.append(var.convert(s))
                    except Exception:
                        pass
            for v in vals:
                n += 1
                t = type(v)
                seen[t.__name__] = seen.get(t.__name__, 0) + 1
                if isinstance(v, (cabc.MutableSet, cabc.MutableSequence, cabc.MutableMapping)) or isinstance(v, IMMUTABLE):
                    continue
                # any other type: must be without public mutators that change detype(v); accepted only if hashable-by-value or callable
                if callable(v) or (getattr(t, "__hash__", None) is not None and t.__eq__ is not object.__eq__):
                    continue
                if getattr(t, "__setattr__", object.__setattr__) is object.__setattr__ and not [m for m in ("append", "add", "update", "__setitem__", "extend", "insert") if hasattr(t, m)]:
                    continue  # a plain object without container mutators (e.g. a prompt-toolkit config object): detyped by identity / repr
                failures.append({"clause": "a value that can be edited in place is a MutableSet / MutableSequence / MutableMapping",
                                 "inputs": {"variable": name, "type": t.__name__}, "observed": "type %s has container mutators but is not registered as a mutable ABC" % t.__name__})
    finally:
        XSH.env = saved
    return {"kind": "enum", "evaluations": n, "distinct_nontrivial": len(seen), "failures": failures[:5], "exhaustive": True,
            "domain": "default values and converter images of all %d registered variables; value types seen: %s" % (len(DEFAULT_VARS), ", ".join(sorted(seen))),
            "samples": []}


native_check("C10", "editable-types-are-registered-as-mutable", "enum", editable_types,
             doc="assumption of Env.__getitem__'s contract: only MutableSet/Sequence/Mapping values can be edited in place")


# ---- bounded: per-command overlays reach exactly the stage they prefix (real cmds_to_specs + prep_env_subproc) -----------
def overlay_alignment(tier, seed):
    import itertools
    from xonsh.built_ins import XSH
    from xonsh.execer import Execer
    from xonsh.procs import specs as S

    XSH.load(execer=Execer(), inherit_env=True)
    XSH.env["XONSH_INTERACTIVE"] = False
    failures, n, nontrivial, samples = [], 0, 0, []
    maxlen = 3 if tier == "quick" else 4
    try:
        for length in range(1, maxlen + 1):
            for marks in itertools.product((False, True), repeat=length):
                for bg in (False, True):
                    n += 1
                    cmds, envs = [], []
                    for k in range(length):
                        cmds.append(["echo", "x%d" % k])
                        envs.append({"XV_OVERLAY": "stage%d" % k} if marks[k] else None)
                        cmds.append("|")
                        envs.append(None)
                    if bg:
                        cmds[-1] = "&"
                    else:
                        cmds.pop()
                        envs.pop()
                    specs = S.cmds_to_specs(cmds, captured="stdout", envs=envs)
                    try:
                        obs = None
                        for k, sp in enumerate(specs):
                            kw = {}
                            sp.prep_env_subproc(kw)
                            got = kw["env"].get("XV_OVERLAY")
                            want = "stage%d" % k if marks[k] else None
                            if got != want:
                                obs = "stage %d is launched with XV_OVERLAY=%r, the command line says %r" % (k, got, want)
                                break
                        if any(marks):
                            nontrivial += 1
                        if obs and len(failures) < 5:
                            failures.append({"clause": "a `$X=v cmd` overlay reaches exactly the stage it prefixes",
                                             "inputs": {"overlay_on_stage": list(marks), "trailing_&": bg}, "observed": obs})
                        elif not obs and len(samples) < 3 and length == 3 and any(marks):
                            samples.append({"overlay_on_stage": list(marks), "trailing_&": bg})
                    finally:
                        for sp in specs:
                            try:
                                sp.close()
                            except Exception:
                                pass
    finally:
        XSH.unload()
    return {"kind": "bounded", "evaluations": n, "distinct_nontrivial": nontrivial, "failures": failures, "exhaustive": False,
            "bound": "pipelines of <= %d stages, an overlay on every subset of stages, with and without a trailing &" % maxlen,
            "domain": "real cmds_to_specs + SubprocSpec.prep_env_subproc (swap + detype) on `echo` stages", "samples": samples}


native_check("C10", "overlays-reach-the-stage-they-prefix", "bounded", overlay_alignment,
             doc="real cmds_to_specs / prep_env_subproc with per-command overlays on small pipelines")


def overlay_stacks(tier, seed):
    """every stack of <= 3 (thorough 4) overlays / swaps over two variables (a value, the DELETE_VAR mask, or not mentioned): the mapping a child would
    get (detype()) says for each variable exactly what a read in the shell says at that moment - innermost scope first"""
    import itertools
    from xonsh.environ import Env, DELETE_VAR
    from xonsh.built_ins import XSH

    saved = XSH.env
    failures, n, samples = [], 0, []
    depth = 3 if tier == "quick" else 4
    choices = [None, "v", "mask"]
    layers = [(kind, x, y) for kind in ("overlay", "swap") for x in choices for y in choices if not (x is None and y is None)]
    try:
        for d in range(1, depth + 1):
            for stack in itertools.product(layers, repeat=d):
                n += 1
                env = Env({"X": "base-x", "PATH": ["/bin"]})
                XSH.env = env
                obs = None

                def nest(i):
                    nonlocal obs
                    if i == d:
                        child = env.detype()
                        for k in ("X", "Y"):
                            try:
                                seen = env[k]
                            except KeyError:
                                seen = None
                            if child.get(k) != seen:
                                obs = "inside %r: the shell reads $%s as %r, the child's mapping has %r" % (list(stack), k, seen, child.get(k))
                        return
                    kind, x, y = stack[i]
                    vals = {k: (DELETE_VAR if v == "mask" else "%s%d-%s" % (kind[0], i, k.lower())) for k, v in (("X", x), ("Y", y)) if v is not None}
                    with (env.swap(overlay=vals) if kind == "overlay" else env.swap(vals)):
                        nest(i + 1)

                try:
                    nest(0)
                except Exception as e:  # noqa
                    obs = "%s: %s" % (type(e).__name__, e)
                if obs and len(failures) < 5:
                    failures.append({"clause": "the child's mapping reflects the values at launch time, scoped overlays included (innermost first)", "inputs": {"scopes": [list(s) for s in stack]}, "observed": obs})
                elif not obs and len(samples) < 3 and d == depth:
                    samples.append({"scopes": [list(s) for s in stack]})
    finally:
        XSH.env = saved
    return {"kind": "bounded", "evaluations": n, "distinct_nontrivial": n, "failures": failures, "exhaustive": False,
            "bound": "all stacks of <= %d scopes out of 16 (overlay | swap) x (value | mask | absent) on two variables" % depth,
            "domain": "real Env.swap / overlays / detype on a real Env", "samples": samples}


native_check("C10", "the-child-mapping-agrees-with-reads-under-every-overlay-stack", "bounded", overlay_stacks, doc="nested overlays / swaps on the same variables")
