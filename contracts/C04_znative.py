"""C04 - bounded stand-in on the real execer (never counted as proved): argument strings x literal / injection forms x positions,
delivered to a recording callable alias (and, for a subset, to a real child process); the argv observed must be the text written -
after an independent implementation of the documented tilde rule for non-raw forms."""
import os
from pyvc.contract import *

POOL = ["", "*", "a", "a b", "x=y", "--bind=::1", "LABEL=a:", "a::b", "t=12:30", "x=~/p:~/q", "~/f", "~", "q'uote", 'dq"uote', "back\\slash", "new\nline", "*.py", "sp  ace",
        "é日本", "-", "#x", "a;b", "(p)", "x=", "=", "k=:v", "a|b", "a&b", "a>b", "$", "tab\there", "trail ", " lead", "[x]", "{a,b}", "x=~", "~user-that-does-not-exist/z",
        "\\", '"""', "'''", "a\\nb"]


# $VAR expansion inside non-raw string literals: one pass, left to right, longest name, values are never expanded again, unset names stay
DOLLAR_ENV = {"PRJ": "/srv/app", "PRJ_OLD": "/old/app", "USD": "$PRJ", "E": ""}
POOL_DOLLAR = ["$PRJ:$PRJ_OLD", "$PRJ_OLD:$PRJ", "$PRJX-$PRJ", "$USD/$PRJ", "$PRJ$PRJ", "a$E.b$PRJ", "$PRJ_OLD$PRJ_OLD$PRJ"]


def _ref_dollar(text):
    import re
    return re.sub(r"\$(\w+|\{\w+\})", lambda m: DOLLAR_ENV.get(m.group(1).strip("{}"), m.group(0)), text)


def _ref_tilde(word, home):
    """bash: a tilde-prefix at the start of the word, and - in an assignment word - right after the first `=` and after each `:` of the value"""
    def one(p):
        if p == "~":
            return home
        if p.startswith("~/"):
            return home + p[1:]
        return os.path.expanduser(p)  # ~user forms: whatever the account database says
    pre, eq, post = word.partition("=")
    if not eq:
        return one(word)
    return one(pre) + "=" + ":".join(one(f) for f in post.split(":"))


def _forms(text):
    """(form name, xonsh source of ONE argument, expands?)"""
    out = []
    lit = repr(text)
    out.append(("@(expr)", "@(%s)" % lit, False))
    out.append(("@([list])", "@([%s])" % lit, False))
    out.append(("word@(expr)", "w@(%s)" % lit, "adjacent"))
    if "\n" not in text and not text.endswith("\\") and "'" not in text:
        out.append(("r'...'", "r'%s'" % text, False))
    if text == "":
        return [f for f in out if f[0] in ("@(expr)", "@([list])", "r'...'")] + [("'...' / \"...\"", lit, True)]
    if not text.endswith("\\") and '"""' not in text and not text.endswith('"'):
        out.append(('r"""..."""', 'r"""%s"""' % text, False))
    if text in POOL_DOLLAR:
        out.append(("'...' / \"...\" with $VAR", lit, "dollar"))
    if "$" not in text:
        out.append(("'...' / \"...\"", lit, True))
        if "'''" not in text and not text.endswith("'") and "\\" not in text:
            out.append(("'''...'''", "'''%s'''" % text, True))
        if "{" not in text and "}" not in text:
            out.append(("f-string", "f" + lit, True))
    if text and all(c.isalnum() or c in "=:~/._-" for c in text) and not text[0] in "-=":
        out.append(("bare word", text, True))
    return out


_DRIVER = r'''
import os, sys, json, warnings
warnings.simplefilter("ignore")
from xonsh.built_ins import XSH
from xonsh.execer import Execer
XSH.load(execer=Execer(), inherit_env=True)
env = XSH.env
env["XONSH_INTERACTIVE"] = False
env["XONSH_SHOW_TRACEBACK"] = False
env["HOME"] = "/xv-home"
os.environ["HOME"] = "/xv-home"
for _k, _v in %r.items():
    env[_k] = _v
seen = []
def rec(args, stdin=None):
    seen.append(list(args))
XSH.aliases["recalias"] = rec
cases = json.load(open(sys.argv[1]))
out = []
for cid, src, child in cases:
    del seen[:]
    err = None
    try:
        XSH.execer.exec(src + "\n", glbs={"__xonsh__": XSH}, locs=None)
    except BaseException as e:
        err = "%s: %s" % (type(e).__name__, str(e).split("\n")[0][:120])
    got = [list(a) for a in seen]
    child_argv = None
    if child and err is None:
        g = {"__xonsh__": XSH, "PY": sys.executable}
        try:
            XSH.execer.exec("r = $(@(PY) -c 'import sys, json; print(json.dumps(sys.argv[1:]))' " + child + ")\n", glbs=g, locs=None)
            child_argv = json.loads(g["r"])
        except BaseException as e:
            child_argv = "%s: %s" % (type(e).__name__, str(e).split("\n")[0][:120])
    out.append([cid, got, err, child_argv])
print("RESULT " + json.dumps(out))
'''


def argv(tier, seed):
    import json
    import subprocess
    import sys
    import tempfile

    repo = os.environ.get("XV_REPO", "/repo")
    d = tempfile.mkdtemp(prefix="xv-c04-", dir=os.environ.get("XV_SCRATCH"))
    cases, meta = [], {}
    for text in POOL + POOL_DOLLAR:
        for fname, src, expands in _forms(text):
            if text in POOL_DOLLAR and expands == "adjacent":
                continue  # (the adjacent form expands the injected value - the recorded known finding; the $ texts are here for the string-literal forms)
            for pos in ("only", "first", "last"):
                cid = len(cases)
                args_src = {"only": src, "first": src + " z", "last": "z " + src}[pos]
                want = "w" + text if expands == "adjacent" else (_ref_dollar(text) if expands == "dollar" else (_ref_tilde(text, "/xv-home") if expands else text))
                want_argv = {"only": [want], "first": [want, "z"], "last": ["z", want]}[pos]
                child = args_src if (pos == "only" and tier != "quick") or (pos == "only" and len(cases) % 5 == 0) else None
                cases.append([cid, "recalias " + args_src, child])
                meta[cid] = (text, fname, pos, want_argv)
    open(os.path.join(d, "wmatch"), "w").close()   # so that a glob `w*` has something to match in the driver's directory
    json.dump(cases, open(os.path.join(d, "cases.json"), "w"))
    open(os.path.join(d, "driver.py"), "w").write(_DRIVER.replace("%r.items()", repr(DOLLAR_ENV) + ".items()"))
    failures, n, nontrivial, samples = [], 0, 0, []
    kp = os.path.join(os.path.dirname(os.path.dirname(os.path.abspath(__file__))), "KNOWN_FINDINGS.json")
    known = [k for k in json.load(open(kp))["findings"] if k["property"] == "C04" and k.get("status") == "known" and k.get("native_class")]
    known_hits = {}
    try:
        p = subprocess.run([sys.executable, os.path.join(d, "driver.py"), os.path.join(d, "cases.json")], cwd=d, capture_output=True, text=True, timeout=1200,
                           env=dict(os.environ, PYTHONPATH=repo + os.pathsep + os.environ.get("PYTHONPATH", "")), stdin=subprocess.DEVNULL)
        line = [l for l in p.stdout.splitlines() if l.startswith("RESULT ")]
        if not line:
            return {"kind": "bounded", "evaluations": 0, "distinct_nontrivial": 0, "failures": [], "exhaustive": False, "error": "driver failed: " + (p.stderr or p.stdout)[-500:],
                    "bound": "", "domain": "", "samples": []}
        for cid, got, err, child_argv in json.loads(line[0][7:]):
            n += 1
            text, fname, pos, want_argv = meta[cid]
            obs = None
            if err:
                obs = "raised %s" % err
            elif got != [want_argv]:
                obs = "the alias saw %r, written: %r" % (got, want_argv)
            elif child_argv is not None and child_argv != want_argv:
                obs = "the child process saw %r, the alias saw %r" % (child_argv, want_argv)
            else:
                nontrivial += 1
            if obs:
                hit = None
                for kf in known:
                    try:
                        if eval(kf["native_class"], {"text": text, "form": fname, "position": pos, "observed": obs}):
                            hit = kf
                            break
                    except Exception:
                        pass
                if hit:
                    known_hits[hit["id"]] = known_hits.get(hit["id"], 0) + 1
                    obs = None
                    continue
            if obs and len(failures) < 6:
                failures.append({"clause": "one argument whose value is the text written (after the documented tilde rule for non-raw forms)",
                                 "inputs": {"text": text, "form": fname, "position": pos}, "observed": obs})
            elif not obs and len(samples) < 4 and fname.startswith("r") and "\n" in text:
                samples.append({"text": text, "form": fname})
    finally:
        for fn in os.listdir(d):
            try:
                os.unlink(os.path.join(d, fn))
            except OSError:
                pass
        try:
            os.rmdir(d)
        except OSError:
            pass
    return {"kind": "bounded", "evaluations": n, "distinct_nontrivial": nontrivial, "failures": failures, "exhaustive": False,
            "bound": "%d argument strings x up to 8 delivery forms (@(expr), @([list]), r'..', r\"\"\"..\"\"\", plain literal, triple-quoted, f-string, bare word) x 3 positions; "
                     "a real child process for a subset (all single-argument cases in the thorough tier)" % len(POOL),
            "domain": "real execer / run_subproc with a recording callable alias and `python -c` children; $HOME fixed", "samples": samples,
            "known_lines": ["KNOWN-FINDING: property=C04 %s [%s] (%d cases)" % (kf["text"], kf["id"], known_hits[kf["id"]]) for kf in known if kf["id"] in known_hits],
            "known_hits": known_hits}


native_check("C04", "argv-is-what-was-written", "bounded", argv, doc="argument strings x literal / injection forms x positions through the real execer")
