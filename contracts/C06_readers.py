"""C06 - captured output is complete, ordered and exactly what the command wrote: the consumer side of the reader queue.

Ghost world: the producer thread puts non-empty chunks into the queue and, when the descriptor is exhausted, sets `closed` and
exits.  `log('get')` is the sequence of chunks the consumer has dequeued; flat(g) is the list of their lines (splitlines with
line ends kept), defined by  flat([]) == []  and  flat(g + [c]) == flat(g) + lines(c).

 * every reading loop hands out exactly what it dequeued, in order, nothing dropped, nothing twice;
 * is_fully_read (the loops' exit test) samples emptiness AFTER it has seen the producer finished - the only order in which
   "empty" means "nothing will ever arrive" (a sequential contract for a concurrency protocol: which interleavings the producer
   can take is outside it, but any other sampling order is wrong under SOME interleaving)."""
from pyvc.contract import *

R_ = "xonsh/procs/readers.py::"
QR = Obj("QueueReader", closed=Bool, thread=Union(NoneT, Opaque("thread")), queue=Opaque("queue"), timeout=Union(NoneT, Real), fd=Int)
EXT = {
    "thread.is_alive": Ext(ret=Bool, event="observe", log=("const", 1), log_type=Int, note="has the producer thread finished?"),
    "queue.empty": Ext(ret=Bool, event="observe", log=("const", 2), log_type=Int, note="is the queue empty right now?"),
    "queue.get": Ext(ret=Bytes, raises=["Empty"], event="get", log="result", log_type=Bytes, ensures=["len(result) > 0"],
                     note="dequeues one chunk (the producer only puts non-empty chunks); raises queue.Empty on timeout"),
    "bytes.splitlines": Ext(ret=Seq(Bytes), pure=True, uf="lines_of"), "lines_of": Ext(ret=Seq(Bytes), pure=True, uf="lines_of"),
    "flat": Ext(ret=Seq(Bytes), pure=True, uf="flat"),
}
FLAT_AXIOMS = {
    "flat-of-nothing": "len(flat(log('get')[:0])) == 0",
    "flat-appends-the-lines-of-the-next-chunk": "forall_chunks(lambda g: forall_bytes(lambda c: flat(g + [c]) == flat(g) + lines_of(c, True)))",
}
contract(
    R_ + "QueueReader.is_fully_read", "C06", params=dict(self=QR), externals=EXT, returns=Bool,
    ensures={"emptiness-is-sampled-last": "implies(result, len(log('observe')) >= 1 and log('observe')[len(log('observe')) - 1] == 2)",
             "after-the-producer-was-seen-finished": "implies(result, self.closed and (self.thread is None or log('observe') == [1, 2]))",
             "only-looks": "self.closed == old(self.closed)"},
    emits=["observe"],
    from_property="deliver every byte ... regardless of ... how xonsh's reader threads are scheduled (fully-read test: producer finished, THEN queue empty)",
)
contract(
    R_ + "QueueReader.read_queue", "C06", params=dict(self=QR), externals=EXT, returns=Bytes, config={"bases": {}},
    ensures={"one-chunk-or-nothing": "(len(result) == 0 and len(log('get')) == 0) or (len(result) > 0 and len(log('get')) == 1 and log('get')[0] == result)"},
    emits=["get"],
    from_property="every byte ... once and in order (one dequeue per call; a timeout yields the empty chunk and dequeues nothing)",
)
ALL = "lines == flat(log('get'))"
contract(
    R_ + "QueueReader.readlines", "C06", params=dict(self=QR, hint=Int), externals=EXT, returns=List(Bytes), axioms=FLAT_AXIOMS,
    requires={"the-polling-form": "hint != -1"},
    locals={"lines": List(Bytes), "chunk": Bytes},
    loops={"while#1": dict(invariant={"handed-out-so-far-is-exactly-what-was-dequeued": ALL}, havoc_only=["lines"])},
    ensures={"returns-the-lines-of-every-dequeued-chunk-in-order": "result == flat(log('get'))"},
    emits=["get"],
    from_property="deliver every byte the final stage wrote ... once and in order ... regardless of output size, write chunking and timing (iterraw polls with readlines(1024))",
)
contract(
    R_ + "QueueReader._read_all_lines", "C06", params=dict(self=QR), externals=EXT, returns=List(Bytes), axioms=FLAT_AXIOMS,
    locals={"lines": List(Bytes), "chunk": Bytes},
    loops={"while#1": dict(invariant={"handed-out-so-far-is-exactly-what-was-dequeued": ALL}, havoc_only=["lines"])},
    ensures={"returns-the-lines-of-every-dequeued-chunk-in-order": "result == flat(log('get'))"},
    emits=["get", "observe"],
    from_property="deliver every byte ... once and in order (the blocking form stops only when is_fully_read says so)",
)

# ---- the producer ------------------------------------------------------------------------------------------------------
PEXT = {
    "os.read": Ext(ret=Bytes, raises=["OSError"], event="read", log="result", log_type=Bytes),
    "queue.put": Ext(event="put", log=0, log_type=Bytes),
}
READER = Obj("QueueReader", closed=Bool)
contract(
    R_ + "populate_fd_queue", "C06", params=dict(reader=READER, fd=Int, queue=Opaque("queue")), externals=PEXT,
    modifies=["reader"],
    loops={"while#1": dict(invariant={"everything-read-so-far-was-queued-in-order": "log('put') == log('read')",
                                      "only-non-empty-chunks": "forall(lambda j: len(log('read')[j]) > 0, 0, len(log('read')))",
                                      "not-yet-flagged": "reader.closed == pre(reader.closed)"}, havoc_only=["reader"])},
    ensures={"queues-exactly-the-non-empty-chunks-in-the-order-read": "log('put') == log('read')[:len(log('put'))] and forall(lambda j: len(log('put')[j]) > 0, 0, len(log('put')))",
             "stops-only-at-end-of-stream-or-on-a-read-error": "len(log('read')) == len(log('put')) or (len(log('read')) == len(log('put')) + 1 and len(log('read')[len(log('put'))]) == 0)",
             "flags-the-reader-closed-only-after-the-last-chunk-is-queued": "reader.closed"},
    emits=["read", "put"],
    from_property="deliver every byte the final stage wrote to stdout, once and in order (producer side: nothing read is dropped; `closed` is set after the last put)",
)


# ---- the byte-oriented readers and the chunk iterator: same discipline -------------------------------------------------------
def _yield_log(R, frame, val, ynode):
    from pyvc.core import mk_none
    R.ctx.emit_log(R, "yield", val)
    return mk_none()


CAT_EXT = dict(EXT)
CAT_EXT.update({"cat": Ext(ret=Bytes, pure=True, uf="cat")})
CAT_AXIOMS = {
    "cat-of-nothing": "len(cat(log('get')[:0])) == 0",
    "cat-appends-the-next-chunk": "forall_chunks(lambda g: forall_bytes(lambda c: cat(g + [c]) == cat(g) + c))",
}
for _fn in ("read", "readline"):
    contract(
        R_ + "QueueReader." + _fn, "C06", params=dict(self=QR, size=Int), externals=CAT_EXT, returns=Bytes, axioms=CAT_AXIOMS,
        locals={"buf": Bytes, "line": Bytes, "nl": Bytes},
        loops={"while#1": dict(invariant={"the-buffer-is-exactly-what-was-dequeued-so-far": "buf == cat(log('get'))"}, havoc_only=[])},
        ensures={"returns-exactly-the-bytes-it-dequeued-in-order": "result == cat(log('get'))"},
        emits=["get", "observe"],
        from_property="deliver every byte ... once and in order (read / readline hand out the concatenation of the chunks they took from the queue)",
    )
contract(
    R_ + "QueueReader.iterqueue", "C06", params=dict(self=QR), externals=dict(EXT, **{"<yield>": Ext(event="yield", log_type=Bytes, note="type of the yield log")}),
    hooks={"yield": _yield_log},
    locals={"chunk": Bytes},
    loops={"while#1": dict(invariant={"every-dequeued-chunk-was-yielded-in-order": "log('yield') == log('get')"}, havoc_only=[])},
    ensures={"yields-exactly-the-dequeued-chunks-in-order": "log('yield') == log('get')"},
    emits=["get", "observe", "yield"],
    from_property="deliver every byte ... once and in order ($() / @$() drain the reader through iterqueue)",
)


# ---- the queue between producer and consumer is UNBOUNDED: the producer's put never blocks -----------------------------------
# (populate_fd_queue's contract treats `queue.put` as an event that always completes; with a bounded queue a consumer that waits
#  for the process before draining - alias stages, plain Popen - would deadlock once the output exceeds the bound)
QR0 = Obj("QueueReader", closed=("optional", Bool), thread=("optional", Union(NoneT, Opaque("thread"))), queue=("optional", Opaque("queue")),
          timeout=("optional", Union(NoneT, Real)), fd=("optional", Int))
contract(
    R_ + "QueueReader.__init__", "C06", params=dict(self=QR0, fd=Int, timeout=Union(NoneT, Real)),
    externals={"queue.Queue": Ext(ret=Opaque("queue"), allowed_kwargs=[], requires=["nargs == 0"], note="an unbounded FIFO (no maxsize)")},
    modifies=["self"],
    ensures={"starts-open-with-no-producer-yet": "not self.closed and self.thread is None and self.fd == fd"},
    from_property="regardless of output size (the reader queue must not bound how much the producer may have in flight)",
)
