"""C11 - scoped environment changes are exactly undone and never leak across threads.

State model: the global layer G (`_d._global`), the CURRENT thread's override layer L (`_d._local`,
i.e. threading.local().__dict__ of the running thread) and the current thread's overlay stack.  Other
threads' layers are simply not in any `modifies` clause: swap writes only L and the overlay stack."""
import z3
from pyvc.contract import *
from pyvc.core import PyRaise, Exc, mk_none, V, fresh

E = "xonsh/environ.py::"
VAL = Opaque("val")                       # any python value stored in the environment
LAYER = Dict(Str, VAL, ordered=True)
OVL = VMap(Str, VAL)                      # an alias `env` overlay (read as a mapping value)
IED = Obj("InternalEnvironDict", _local=LAYER, _global=LAYER)
ENV = Obj("Env", _d=IED, _overlay_stack=List(OVL), _detyped=Union(NoneT, Opaque("strmap")))
SENT = {"DELETE_VAR": VAL, "NotImplemented": VAL}
SENT_DISTINCT = "DELETE_VAR != NotImplemented"

L_, G_ = "self._d._local", "self._d._global"

contract(
    E + "Env._capture_for_swap", "C11", params=dict(self=ENV, key=Str, local=LAYER), globals=SENT,
    returns=VAL, config={"aliases": {"local": "self._d._local"}},
    ensures={"captures-only-the-thread-local-override": "result == (local[key] if key in local else NotImplemented)"},
    from_property="on exit ... every read path is exactly as before (what is restored is the state of the thread's own override layer)",
)

# ---- the layered dict ---------------------------------------------------------------------------------
for _m, _ens in {
    "set_locally": {"writes-only-the-thread-layer": "key in self._local and self._local[key] == value and forall_str(lambda k: implies(k != key, (k in self._local) == old(k in self._local) "
                    "and implies(k in self._local, self._local[k] == old(self._local[k])))) and self._global == old(self._global)"},
    "del_locally": {"removes-only-the-thread-override": "key not in self._local and forall_str(lambda k: implies(k != key, (k in self._local) == old(k in self._local) "
                    "and implies(k in self._local, self._local[k] == old(self._local[k])))) and self._global == old(self._global)"},
}.items():
    contract(E + "InternalEnvironDict." + _m, "C11",
             params=dict(self=IED, key=Str, value=VAL) if _m == "set_locally" else dict(self=IED, key=Str),
             modifies=["self._local"], ensures=_ens,
             from_property="only in their own thread (thread-local writes never touch the shared layer)")

contract(
    E + "InternalEnvironDict.pop", "C11", params=dict(self=IED, key=Str, args=Opaque("args")), modifies=["self._local", "self._global"],
    raises={"KeyError": True}, returns=VAL,
    ensures={"an-overridden-key-is-popped-from-the-thread-layer-only": "implies(old(key in self._local), key not in self._local and result == old(self._local[key]) and self._global == old(self._global))",
             "any-other-key-is-popped-from-the-SHARED-layer": "implies(not old(key in self._local), self._local == old(self._local) and key not in self._global)"},
    ensures_exc={"nothing-changes-when-it-raises": "self._local == old(self._local) and self._global == old(self._global)"},
    from_property="only in their own thread (pop is NOT a thread-local operation for a key without an override: a caller that must stay thread-local may not use it)",
)
contract(
    E + "InternalEnvironDict.__setitem__", "C11", params=dict(self=IED, key=Str, value=VAL), modifies=["self._local", "self._global"],
    locals={"local": LAYER},
    ensures={"overridden-keys-stay-thread-local": "implies(old(key in self._local), self._local[key] == value and self._global == old(self._global))",
             "other-keys-go-to-the-shared-layer": "implies(not old(key in self._local), self._global[key] == value and self._local == old(self._local))"},
    from_property="only in their own thread",
)

# ---- the two big mutators, thread-local mode ----------------------------------------------------------------
VARREC = Rec("Var", deprecated=Bool, sync=Union(NoneT, Str))
ENV2 = Obj("Env", _d=IED, _overlay_stack=List(OVL), _detyped=Union(NoneT, Opaque("strmap")), _vars=Dict(Str, VARREC), _no_value=VAL,
           _orig_env=Union(NoneT, Opaque("strmap")))
SAME_EXCEPT = ("forall_str(lambda k: implies(k != key and k != SYNC, (k in %s) == old(k in %s) and implies(k in %s, %s[k] == old(%s[k]))))" % ((L_,) * 5))
SYNCKEY = "(self._vars[key].sync if (check_sync and key in self._vars and self._vars[key].sync is not None and self._vars[key].sync != '') else key)"
MUT_EXT = {
    "InternalEnvironDict.__contains__": Ext(ret=Bool, note="ChainMap lookup over [thread layer, shared layer] (read only)"),
    "InternalEnvironDict.__getitem__": Ext(ret=VAL, note="only called under `key in self._d` in these functions: does not raise"),
    "Env.get_validator": Ext(ret=Opaque("validator"), pure=True), "Env.get_converter": Ext(ret=Opaque("converter"), pure=True),
    "Env.get_detyper": Ext(ret=Union(NoneT, Opaque("detyper")), pure=True),
    "<call:validator>": Ext(ret=Bool, pure=True, uf="valid"), "valid": Ext(ret=Bool, pure=True, uf="valid"),
    "<call:converter>": Ext(ret=VAL, raises=["TypeError", "ValueError"]),
    'Env.get("UPDATE_OS_ENVIRON")': Ext(ret=Bool, pure=True, uf="mirror"), "mirror": Ext(ret=Bool, pure=True, uf="mirror"),
    "warnings.warn": Ext(), "events.on_envvar_new.fire": Ext(), "events.on_envvar_change.fire": Ext(),
    "Env._find_var_pattern_name": Ext(ret=Union(NoneT, Str), pure=True),
}
contract(
    E + "Env._set_item", "C11", shards=2, params=dict(self=ENV2, key=Str, val=VAL, thread_local=Bool, check_sync=Bool), globals=SENT,
    externals=MUT_EXT, variant="1 if check_sync else 0",
    requires={"thread-local-mode": "thread_local", "sentinels-are-distinct": SENT_DISTINCT,
              "the-value-is-valid-for-the-variable": "val == DELETE_VAR or valid(self.get_validator(key), val)",
              "no-mirroring-into-os.environ": 'not mirror("UPDATE_OS_ENVIRON")',
              "a-sync-partner's-validator-agrees": "forall_str(lambda k: implies(val != DELETE_VAR, valid(self.get_validator(k), val)))"},
    modifies=[L_, "self._detyped"],
    let={"SYNC": SYNCKEY},
    abstract=[dict(line_contains="pat_name = self._find_var_pattern_name(key)", may_raise=True, reason="error message for a failed conversion")],
    ensures={"shared-layer-untouched": "%s == old(%s)" % (G_, G_), "sets-the-override": "key in %s and %s[key] == val" % (L_, L_)},
    assumptions=["$UPDATE_OS_ENVIRON is off (its mirroring writes the process-wide os.environ: noted, not verified)",
                 "the value is valid for the variable (no conversion)"],
    from_property="change what reads see only inside their scope and only in their own thread (thread-local writes, including the one to a "
                  "`sync` partner variable, never touch the shared layer)",
)
contract(
    E + "Env._del_item", "C11", params=dict(self=ENV2, key=Str, thread_local=Bool), globals=SENT,
    externals=MUT_EXT,
    requires={"thread-local-mode": "thread_local", "no-mirroring-into-os.environ": 'not mirror("UPDATE_OS_ENVIRON")'},
    modifies=[L_, "self._detyped"],
    let={"SYNC": "key"},
    raises={"KeyError": True},
    ensures={"shared-layer-untouched": "%s == old(%s)" % (G_, G_)},
    ensures_exc={"shared-layer-untouched": "%s == old(%s)" % (G_, G_)},
    from_property="only in their own thread",
)


# ---- the view of the two mutators that swap relies on (ASSUMED for swap; the real functions are verified above for
# ---- thread isolation, and these stronger clauses hold for valid values of variables without a sync partner) -------
SAME_EXCEPT1 = ("forall_str(lambda k: implies(k != key, (k in %s) == old(k in %s) and implies(k in %s, %s[k] == old(%s[k]))))" % ((L_,) * 5))
contract(
    E + "Env._set_item", "C11", verify=False, variant_id="assumed",
    params=dict(self=ENV, key=Str, val=VAL, thread_local=Bool, check_sync=Bool), globals=SENT,
    requires={"thread-local-mode": "thread_local"},
    modifies=[L_],
    ensures={"sets-the-override": "key in %s and %s[key] == val" % (L_, L_), "only-that-key": SAME_EXCEPT1,
             "shared-layer-untouched": "%s == old(%s)" % (G_, G_)},
    notes="ASSUMED at Env.swap's call sites: the value is valid for the variable (no conversion) and the variable has no `sync` partner - under exactly these two "
          "conditions the clauses are PROVED on the real function (contract Env._set_item#strong) (a value that FAILS to convert while a swap is being entered is "
          "not modelled here - the proof of that path was too slow to be stable; it is covered by the bounded nesting check, form `bad-value`)",
)
contract(
    E + "Env._del_item", "C11", verify=False, variant_id="assumed",
    params=dict(self=ENV, key=Str, thread_local=Bool), globals=SENT,
    requires={"thread-local-mode": "thread_local"},
    modifies=[L_],
    ensures={"removes-the-override": "key not in %s" % L_, "only-that-key": SAME_EXCEPT1,
             "shared-layer-untouched": "%s == old(%s)" % (G_, G_)},
    notes="ASSUMED at Env.swap's call sites: the variable is still known at exit (in a layer or registered), so no KeyError - under this condition the clauses are "
          "PROVED on the real function (contract Env._del_item#strong)",
)


# ---- swap ---------------------------------------------------------------------------------------------------
def _swap_yield(R, frame, val, ynode):
    """with-contract: an ARBITRARY body.  It may do anything to the thread's layer L (nested swaps
    included) and may assign OTHER variables in the shared layer; hypotheses: it leaves the overlay stack
    as it found it (nesting discipline of `with`), does not assign a swapped key in the shared layer,
    and does not delete the override of a swapped key that was not set before.  It may raise."""
    ctx = R.ctx
    self_ = frame.lookup("self")
    d = R.getattr(self_, "_d")
    L = R.getattr(d, "_local")
    G = R.getattr(d, "_global")
    old = frame.lookup("old")
    g_before = R.content(G)
    l_before = R.content(L)
    R.havoc_loc(L.z, "body.L")
    R.havoc_loc(G.z, "body.G")
    g_after = R.content(G)
    l_after = R.content(L)
    om = R.content(old)
    k = z3.Const("bk", T.Str.sort())
    sw = z3.Select(om.t.has(om.z), k)  # swapped keys
    R.assume(z3.ForAll([k], z3.Implies(sw, z3.And(
        z3.Select(g_after.t.has(g_after.z), k) == z3.Select(g_before.t.has(g_before.z), k),
        z3.Select(g_after.t.val(g_after.z), k) == z3.Select(g_before.t.val(g_before.z), k),
        z3.Select(l_after.t.has(l_after.z), k)))))
    R.named_heaps["after-body"] = R.snapshot()
    ch = R.choose(["resume", "throw-Exception", "throw-BaseException"], "yield")
    if ch == "throw-Exception":
        raise PyRaise(Exc("Exception", exact=False, tag="exception raised by the with-body"))
    if ch == "throw-BaseException":
        raise PyRaise(Exc("KeyboardInterrupt", exact=True, tag="KeyboardInterrupt in the with-body"))
    return mk_none()


SWAPPED = "(k in kwargs or (other is not None and k in other))"
PROCESSED = "exists(lambda j: _seq[j] == k, 0, _i)"
CAPTURED = "old[k] == (old(%s[k]) if old(k in %s) else NotImplemented)" % (L_, L_)
REST_ENTRY = "(k in %s) == old(k in %s) and implies(k in %s, %s[k] == old(%s[k]))" % ((L_,) * 5)
RESTORED = "((old[k] == NotImplemented and k not in %s) or (old[k] != NotImplemented and k in %s and %s[k] == old[k]))" % (L_, L_, L_)
AS_BODY_LEFT = "(k in %s) == at('after-body', k in %s) and implies(k in %s, %s[k] == at('after-body', %s[k]))" % ((L_,) * 5)
POST = {
    "every-swapped-variable-is-back-to-its-previous-override-state":
        "forall_str(lambda k: implies(%s, (k in %s) == old(k in %s) and implies(k in %s, %s[k] == old(%s[k]))))" % ((SWAPPED,) + (L_,) * 5),
    "assignments-to-other-variables-persist":
        "forall_str(lambda k: implies(not %s, %s))" % (SWAPPED, AS_BODY_LEFT),
    "shared-layer-is-what-the-body-left": "%s == at('after-body', %s)" % (G_, G_),
    "overlay-stack-as-before": "self._overlay_stack == old(self._overlay_stack)",
}
contract(
    E + "Env.swap", "C11", shards=8, params=dict(self=ENV, other=Nullable(LAYER), overlay=Union(NoneT, OVL), kwargs=LAYER), globals=SENT,
    requires={"sentinels-are-distinct": SENT_DISTINCT,
              "swapped-values-are-not-the-capture-sentinel": "forall_str(lambda k: implies(k in %s, %s[k] != NotImplemented))" % (L_, L_)},
    hooks={"yield": _swap_yield},
    locals={"old": LAYER},
    calls={"Env._capture_for_swap": E + "Env._capture_for_swap", "Env._set_item": E + "Env._set_item#assumed", "Env._del_item": E + "Env._del_item#assumed"},
    modifies=[L_, "self._overlay_stack", G_],
    loops={
        "for#1": dict(invariant={
            "captured-keys": "forall_str(lambda k: (k in old) == %s)" % PROCESSED,
            "captured-values": "forall_str(lambda k: implies(k in old, %s))" % CAPTURED,
            "rest-untouched": "forall_str(lambda k: implies(not (k in old), %s))" % REST_ENTRY,
            "shared-layer-untouched": "%s == old(%s)" % (G_, G_)}, havoc_only=["old"], havoc_exprs=[L_]),
        "for#2": dict(invariant={
            "captured-keys": "forall_str(lambda k: (k in old) == ((other is not None and k in other) or %s))" % PROCESSED,
            "captured-values": "forall_str(lambda k: implies(k in old, %s))" % CAPTURED,
            "rest-untouched": "forall_str(lambda k: implies(not (k in old), %s))" % REST_ENTRY,
            "shared-layer-untouched": "%s == old(%s)" % (G_, G_)}, havoc_only=["old"], havoc_exprs=[L_]),
        "for#3": dict(snapshot="restore-entry", invariant={
            "restored-so-far": "forall_str(lambda k: implies(%s, %s))" % (PROCESSED, RESTORED),
            "rest-as-it-was-when-restoring-began": "forall_str(lambda k: implies(not %s, %s))" % (PROCESSED, AS_BODY_LEFT.replace("after-body", "restore-entry")),
            "shared-layer-untouched": "%s == at('restore-entry', %s)" % (G_, G_)}, havoc_only=[], havoc_exprs=[L_]),
    },
    raises={"Exception+": True, "KeyboardInterrupt": True},
    ensures=POST, ensures_exc=POST,
    assumptions=["with-body hypotheses: leaves the overlay stack as found, does not assign a swapped key in the shared layer, does not "
                 "delete the override of a swapped key (a nested swap of the same key restores it, by this very contract)",
                 "real preemption between the statements of swap (two threads inside _set_item on the shared layer) is out of scope"],
    from_property="on exit - normal or by exception, nested arbitrarily, including the DELETE_VAR mask - every read path is exactly as before ... "
                  "assignments made inside a scope to other variables persist ... only in their own thread",
)


# ---- read paths: a masked variable is absent from `in` and `[]` alike ---------------------------------------
VARD = Rec("VarD", default=VAL)
ENV3 = Obj("Env", _d=Obj("InternalEnvironDict"), _overlay_stack=List(OVL), _vars=Dict(Str, VARD), _detyped=Union(NoneT, Opaque("strmap")))
RG = dict(SENT, DefaultNotGiven=VAL)
READ_EXT = {
    "InternalEnvironDict.__contains__": Ext(ret=Bool, pure=True, uf="set_", args=[Str], note="ghost: the variable is set in the thread or shared layer"),
    "InternalEnvironDict.__getitem__": Ext(ret=VAL, pure=True, uf="stored", args=[Str], note="ghost: its stored value (thread layer first)"),
    "set_": Ext(ret=Bool, pure=True, uf="set_", args=[Str]), "stored": Ext(ret=VAL, pure=True, uf="stored", args=[Str]),
    "Env.get_default": Ext(ret=VAL, pure=True, uf="dflt"), "is_callable_default": Ext(ret=Bool, pure=True),
    "<call:val>": Ext(ret=VAL), "InternalEnvironDict.__setitem__": Ext(),
}
# the value the overlays decide for `key`, top-most first; below them the layers; below them the registered default
TOP = "exists(lambda j: %s in self._overlay_stack[j] and forall(lambda i: %s not in self._overlay_stack[i], j + 1, len(self._overlay_stack)) and %s, 0, len(self._overlay_stack))"
NO_OVERLAY = "forall(lambda j: %s not in self._overlay_stack[j], 0, len(self._overlay_stack))"
PRESENT = ("(" + TOP % ("KEY", "KEY", "self._overlay_stack[j][KEY] != DELETE_VAR") + " or (" + NO_OVERLAY % "KEY" + " and ((set_(KEY) and stored(KEY) != DELETE_VAR) or "
           "(not set_(KEY) and KEY in self._vars and self._vars[KEY].default != DefaultNotGiven))))")
contract(
    E + "Env.__contains__", "C11", params=dict(self=ENV3, item=Str), globals=RG, externals=READ_EXT, returns=Bool,
    loops={"for#1": dict(invariant={"no-overlay-above-has-it": "forall(lambda i: item not in self._overlay_stack[i], len(self._overlay_stack) - _i, len(self._overlay_stack))"})},
    ensures={"present-iff-not-masked": "result == " + PRESENT.replace("KEY", "item")},
    from_property="A masked variable is absent from all of those views at once (`in`)",
)
contract(
    E + "Env.__getitem__", "C11", params=dict(self=ENV3, key=Str), globals=RG, externals=READ_EXT, returns=VAL,
    requires={"a-variable-name": "True"},
    config={"isinstance": {}},
    loops={"for#1": dict(invariant={"no-overlay-above-has-it": "forall(lambda i: key not in self._overlay_stack[i], len(self._overlay_stack) - _i, len(self._overlay_stack))"})},
    abstract=[dict(line_contains="if is_callable_default(val):", may_raise=True, reason="materialises a callable default (user code)"),
              dict(line_contains="if isinstance(\n", may_raise=False, reason="detype cache invalidation for mutable values (C10)"),
              dict(line_contains="if isinstance(val, EnvPath):", may_raise=False, reason="EnvPath back-reference")],
    modifies=["self._detyped"],
    raises={"KeyError": "not " + PRESENT.replace("KEY", "key"), "Exception+": True},
    raises_iff=["KeyError"],
    from_property="A masked variable is absent from all of those views at once (`[]` raises KeyError exactly when `in` is False)",
)


# ---- the stronger view of the two mutators that Env.swap relies on, VERIFIED on the real functions under its two side conditions ----
NOSYNC = "not (key in self._vars and self._vars[key].sync is not None and self._vars[key].sync != '')"
contract(
    E + "Env._set_item", "C11", shards=2, variant_id="strong", params=dict(self=ENV2, key=Str, val=VAL, thread_local=Bool, check_sync=Bool), globals=SENT,
    externals=MUT_EXT, variant="1 if check_sync else 0",
    requires={"thread-local-mode": "thread_local", "sentinels-are-distinct": SENT_DISTINCT,
              "the-value-is-valid-for-the-variable": "val == DELETE_VAR or valid(self.get_validator(key), val)",
              "no-mirroring-into-os.environ": 'not mirror("UPDATE_OS_ENVIRON")',
              "the-variable-has-no-sync-partner": NOSYNC},
    modifies=[L_, "self._detyped"],
    abstract=[dict(line_contains="pat_name = self._find_var_pattern_name(key)", may_raise=True, reason="error message for a failed conversion")],
    ensures={"sets-the-override": "key in %s and %s[key] == val" % (L_, L_), "only-that-key": SAME_EXCEPT1, "shared-layer-untouched": "%s == old(%s)" % (G_, G_)},
    from_property="the clauses Env.swap assumes of _set_item, proved for a valid value of a variable without a sync partner",
)
MUT_EXT_CHAIN = dict(MUT_EXT)
MUT_EXT_CHAIN["InternalEnvironDict.__contains__"] = Ext(ret=Bool, ensures=["result == (a0 in recv._local or a0 in recv._global)"],
                                                        note="ChainMap lookup over [thread layer, shared layer] (ASSUMED semantics of collections.ChainMap)")
contract(
    E + "Env._del_item", "C11", variant_id="strong", params=dict(self=ENV2, key=Str, thread_local=Bool), globals=SENT,
    externals=MUT_EXT_CHAIN,
    requires={"thread-local-mode": "thread_local", "no-mirroring-into-os.environ": 'not mirror("UPDATE_OS_ENVIRON")',
              "the-variable-is-still-known": "key in %s or key in %s or key in self._vars" % (L_, G_)},
    modifies=[L_, "self._detyped"],
    ensures={"removes-the-override": "key not in %s" % L_, "only-that-key": SAME_EXCEPT1, "shared-layer-untouched": "%s == old(%s)" % (G_, G_)},
    from_property="the clauses Env.swap assumes of _del_item, proved for a variable that is still known",
)


# ---- worker threads inherit the spawning thread's swapped view: the two primitives that carry it -----------------------------------------
contract(
    E + "InternalEnvironDict.get_local_overrides", "C11", params=dict(self=IED), returns=LAYER,
    ensures={"hands-out-a-COPY-of-the-thread's-overrides (a later change of either side does not show in the other)": "forall_str(lambda k: (k in result) == (k in self._local) and implies(k in result, result[k] == self._local[k])) and result is not self._local",
             "nothing-changes": "self._local == old(self._local) and self._global == old(self._global)"},
    from_property="only in their own thread (the spawner's overrides are copied for the worker, not shared with it)",
)
contract(
    E + "InternalEnvironDict.set_local_overrides", "C11", params=dict(self=IED, new_local=LAYER), modifies=["self._local"],
    locals={"local": LAYER}, config={"aliases": {}},
    ensures={"the-thread's-overrides-become-exactly-the-given-ones":
             "forall_str(lambda k: (k in self._local) == (k in new_local) and implies(k in new_local, self._local[k] == new_local[k]))",
             "the-shared-layer-and-the-given-mapping-are-untouched": "self._global == old(self._global) and new_local == old(new_local)"},
    from_property="worker threads inherit the spawning thread's swapped view (exactly it: nothing of the worker's earlier overrides survives, nothing reaches the shared layer)",
)
