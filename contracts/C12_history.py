"""C12 - history records every command once, in order, and `len` / indexing agree across the memory/disk boundary.

The session's history is H = disk ++ buffer: `disk` (ghost) are the commands of this session already in the file once every
earlier flusher has finished - which is what the FIFO ticket queue makes a reader wait for (ASSUMED: threads are out of scope).
Accounting invariant ACC:  len(disk) == _len - _skipped - len(buffer)."""
from pyvc.contract import *

H = "xonsh/history/json.py::"
CMD = Opaque("cmd")
VAL = Opaque("val")
HIST = Obj("JsonHistory", remember_history=Bool, buffer=List(CMD), _len=Int, _skipped=Int, filename=Str, buffersize=Int, save_cwd=Bool,
           _queue=Opaque("queue"), _cond=Opaque("lock"))
FIELD = Obj("JsonCommandField", field=Str, hist=HIST, default=VAL)

contract(H + "JsonHistory.__len__", "C12", params=dict(self=HIST), returns=Int,
         ensures={"counts-what-was-appended-and-not-dropped": "result == self._len - self._skipped"},
         from_property="`len(history)` and indexing stay mutually consistent")
contract(H + "JsonCommandField.__len__", "C12", params=dict(self=FIELD), returns=Int,
         ensures={"same-as-the-history": "result == self.hist._len - self.hist._skipped"},
         from_property="`len(history)` and indexing stay mutually consistent")

SIZE = "(self.hist._len - self.hist._skipped)"
NKEY = "(key + %s if key < 0 else key)" % SIZE
ALLH = "(disk + self.hist.buffer)"
GET_EXT = {
    "cmd.get": Ext(ret=VAL, pure=True, uf="fieldof"), "fieldof": Ext(ret=VAL, pure=True, uf="fieldof"),
    "queue.append": Ext(), "queue.popleft": Ext(), "lock.wait_for": Ext(note="blocks until every earlier flusher / reader is done (FIFO tickets)"),
    "open": Ext(ret=Opaque("file"), raises=["OSError"]),
    "xlj.LazyJSON": Ext(ret=Opaque("lj"), raises=["ValueError", "OSError"]),
    'lj.__getitem__("cmds")': Ext(ret=Opaque("ljcmds"), raises=["KeyError"]),
    "ljcmds.__getitem__": Ext(ret=CMD, requires=["0 <= a0 and a0 < len(disk)"], ensures=["result == disk[a0]"], raises=["OSError"],
                              note="element a0 of the on-disk command list; a negative or too large index does NOT denote an element "
                                   "(the offsets table has one extra entry)"),
    "xlj.LJNode": Ext(ret=Opaque("cls")),
}
contract(
    H + "JsonCommandField.__getitem__", "C12", params=dict(self=FIELD, key=Int), globals={"disk": Seq(CMD)},
    externals=GET_EXT, returns=VAL, config={"isinstance": {"slice": [], "int": ["int"], "LJNode": []}},
    requires={"ACC-every-earlier-flush-has-landed": "len(disk) == self.hist._len - self.hist._skipped - len(self.hist.buffer)",
              "counters-are-sane": "self.hist._len >= 0 and self.hist._skipped >= 0 and len(disk) >= 0"},
    raises={"IndexError": "self.hist.remember_history and not (0 <= %s and %s < %s)" % (NKEY, NKEY, SIZE), "OSError": True, "ValueError": True, "KeyError": True},
    raises_iff=["IndexError"],
    ensures={"the-entry-at-that-position-of-disk-then-buffer":
             "implies(self.hist.remember_history, result == fieldof(%s[%s], self.field, self.default))" % (ALLH, NKEY)},
    assumptions=["readers run after every earlier flusher (ticket queue + condition variable): the file holds exactly `disk`",
                 "a file that cannot be opened / parsed raises (OSError / ValueError) - nothing is invented"],
    from_property="can be read back - by index ... in append order ... `len(history)` and indexing stay mutually consistent across the memory/disk boundary",
)


# ---- append / flush: the buffer grows by exactly the command, in order; a flush hands over the whole buffer ---------------
CMDD = DRec("cmdrec", optional=("spc", "cwd"), inp=Str, rtn=Int, spc=Bool, cwd=Str)
HIST2 = Obj("JsonHistory", remember_history=Bool, buffer=List(CMD), _len=Int, _skipped=Int, filename=Str, buffersize=Int, save_cwd=Bool,
            _queue=Opaque("queue"), _cond=Opaque("lock"))
APP_EXT = {
    "self.is_ignored": Ext(ret=Bool, pure=True, uf="ignored"), "JsonHistory.is_ignored": Ext(ret=Bool, pure=True, uf="ignored"),
    "ignored": Ext(ret=Bool, pure=True, uf="ignored"),
    'Env.get("HISTCONTROL")': Ext(ret=Str, pure=True, uf="histcontrol"), "histcontrol": Ext(ret=Str, pure=True, uf="histcontrol"),
    "cmd.get": Ext(ret=Bool, pure=True, uf="spcflag"), "spcflag": Ext(ret=Bool, pure=True, uf="spcflag"),
    "cmd.__contains__": Ext(ret=Bool), 'cmd.__delitem__("spc")': Ext(raises=["KeyError"]),
    'cmd.__delitem__("cwd")': Ext(note="only reached under `\"cwd\" in cmd`"),
    "JsonHistoryFlusher": Ext(ret=Opaque("flusher"), event="flusher", log_type=Seq(CMD), log=1, requires=["skip is not None"],
                              note="takes its ticket in the FIFO queue and writes the handed-over commands (dump, below); EVERY flusher - the inline exit-time one included - "
                                   "must be given the history's drop-counter callback (dump's precondition): len(history) is read after exit-time flushes too"),
}
KEPT = "(self.remember_history and not ignored(cmd) and not ('ignorespace' in histcontrol('HISTCONTROL', '') and spcflag(cmd, 'spc')))"
contract(
    H + "JsonHistory.flush", "C12", params=dict(self=HIST2, at_exit=Bool), externals=APP_EXT, returns=Union(NoneT, Opaque("flusher")),
    modifies=["self.buffer"],
    ensures={"hands-over-the-whole-buffer-in-order-and-empties-it":
             "len(self.buffer) == 0 and (len(log('flusher')) == 0 if len(old(self.buffer)) == 0 else (len(log('flusher')) == 1 and log('flusher')[0] == old(self.buffer)))",
             "counters-untouched": "self._len == old(self._len) and self._skipped == old(self._skipped)"},
    emits=["flusher"],
    from_property="every command appended ... can be read back ... after a flush from the on-disk store ... in append order, with no duplicates",
)
contract(
    H + "JsonHistory.append", "C12", params=dict(self=HIST2, cmd=CMD), globals={"XSH": Obj("XSH", env=Obj("Env"))}, externals=APP_EXT,
    returns=Union(NoneT, Opaque("flusher")),
    modifies=["self.buffer", "self._len"],
    let={"FLUSHED": "len(log('flusher')) == 1"},
    ensures={
        "an-excluded-command-changes-nothing": "implies(not %s, self.buffer == old(self.buffer) and self._len == old(self._len) and len(log('flusher')) == 0)" % KEPT,
        "a-kept-command-is-counted-once": "implies(%s, self._len == old(self._len) + 1)" % KEPT,
        "a-kept-command-goes-last-exactly-once":
            "implies(%s, (implies(FLUSHED, log('flusher')[0] == old(self.buffer) + [cmd] and len(self.buffer) == 0) and "
            "implies(not FLUSHED, self.buffer == old(self.buffer) + [cmd] and len(log('flusher')) == 0)))" % KEPT,
        "flushes-when-the-buffer-is-full": "implies(%s, FLUSHED == (len(old(self.buffer)) + 1 >= self.buffersize))" % KEPT,
        "dropped-count-untouched": "self._skipped == old(self._skipped)"},
    assumptions=["cmd is a dict with 'inp', 'rtn', 'ts' (its 'spc' / 'cwd' bookkeeping keys are removed - not part of what is read back)"],
    from_property="every command appended to the session history and not excluded by $HISTCONTROL/ignore rules ... in append order, with no duplicates or inventions, whatever the buffer size",
)


# ---- the flusher: what it stages is the loaded commands followed by the handed-over ones, minus the HISTCONTROL drops --------
from contracts import fsmodel  # noqa: E402
from contracts.C13_atomic import COMMON, CFG, HISTDOC, FLUSHER, CMD as CMD13  # noqa: E402

DUMP_EXT = dict(COMMON)
DUMP_EXT.update({"<call:fn>": Ext(event="skip", log_type=Int, log=1, note="the owning history's `_skipped += n`")})
contract(
    H + "JsonHistoryFlusher.dump", "C12", params=dict(self=FLUSHER), globals={"XSH": Obj("XSH", env=Obj("Env"))},
    externals=DUMP_EXT, hooks=fsmodel.HOOKS, config=CFG,
    locals={"cmds": List(CMD13), "hist": HISTDOC, "last_inp": Union(NoneT, Str)},
    requires={"has-a-skip-callback": "self.skip is not None"},
    loops={"for#1": dict(invariant={
        "every-handed-over-command-is-either-staged-or-counted-as-dropped": "len(cmds) + len(log('skip')) == _i",
        "each-drop-is-counted-once": "forall(lambda j: log('skip')[j] == 1, 0, len(log('skip')))",
        "nothing-is-dropped-without-a-HISTCONTROL-rule":
            "implies(not ('ignoredups' in Env.get('HISTCONTROL', '')) and not ('ignoreerr' in Env.get('HISTCONTROL', '')), cmds == self.buffer[:_i])"},
        havoc_only=["cmds"])},
    abstract=[dict(line_contains='[cmd.pop("out")', may_raise=False,
                   reason="strips captured output from the records added by this flush (in place; the sequence of records is unchanged)")],
    asserts=[dict(before="dirname = os.path.dirname(self.filename)", label="stages-the-saved-commands-then-the-kept-new-ones-in-order",
                  clause='hist["cmds"][:load_hist_len] == at("loaded", hist["cmds"]) and hist["cmds"][load_hist_len:] == cmds '
                         "and len(cmds) + len(log('skip')) == len(self.buffer)"),
             dict(before="dirname = os.path.dirname(self.filename)", label="with-no-HISTCONTROL-rule-everything-is-staged",
                  clause="implies(not ('ignoredups' in Env.get('HISTCONTROL', '')) and not ('ignoreerr' in Env.get('HISTCONTROL', '')), cmds == self.buffer)")],
    raises={"Exception+": True},
    from_property="can be read back ... after a flush from the on-disk store ... in append order, with no duplicates or inventions; `len(history)` "
                  "stays consistent (every command dropped at flush time is reported to the owning history exactly once)",
)


# ---- the SQLite backend, in-memory side: a kept command goes last in each of the parallel session lists and to the store exactly once ----
SQ = "xonsh/history/sqlite.py::"
TS = Opaque("ts")
SQH = Obj("SqliteHistory", remember_history=Bool, inps=List(Str), outs=List(Union(NoneT, Str)), rtns=List(Int), tss=List(TS), cwds=List(Union(NoneT, Str)),
          save_cwd=Bool, _last_hist_inp=Union(NoneT, Str), sessionid=Opaque("uuid"), filename=Union(NoneT, Str))
SQ_EXT = {
    "SqliteHistory.is_ignored": Ext(ret=Bool, pure=True, uf="ignored"), "ignored": Ext(ret=Bool, pure=True, uf="ignored"),
    'Env.get("HISTCONTROL")': Ext(ret=Str, pure=True, uf="histcontrol"), "histcontrol": Ext(ret=Str, pure=True, uf="histcontrol"),
    'Env.get("XONSH_STORE_STDOUT")': Ext(ret=Bool, pure=True),
    'cmd.__getitem__("inp")': Ext(ret=Str, pure=True, uf="inp_of"), "inp_of": Ext(ret=Str, pure=True, uf="inp_of"),
    'cmd.__getitem__("rtn")': Ext(ret=Int, pure=True, uf="rtn_of"), "rtn_of": Ext(ret=Int, pure=True, uf="rtn_of"),
    'cmd.get("spc")': Ext(ret=Bool, pure=True, uf="spc_of"), "spc_of": Ext(ret=Bool, pure=True, uf="spc_of"),
    'cmd.get("out")': Ext(ret=Union(NoneT, Str), pure=True, uf="out_of"), "out_of": Ext(ret=Union(NoneT, Str), pure=True, uf="out_of"),
    'cmd.get("ts")': Ext(ret=TS, pure=True, uf="ts_of"), "ts_of": Ext(ret=TS, pure=True, uf="ts_of"),
    'cmd.get("cwd")': Ext(ret=Union(NoneT, Str), pure=True, uf="cwd_of"), "cwd_of": Ext(ret=Union(NoneT, Str), pure=True, uf="cwd_of"),
    "cmd.__contains__": Ext(ret=Bool), 'cmd.__delitem__("spc")': Ext(raises=["KeyError"]), 'cmd.__delitem__("cwd")': Ext(),
    "str": Ext(ret=Str, pure=True, uf="textof"),
    "xh_sqlite_append_history": Ext(event="store", log=0, log_type=CMD, raises=["sqlite3.OperationalError"], note="its own contract (C13): one INSERT inside one connection scope"),
    "print": Ext(),
}
_INP = "inp_of(cmd, 'inp').rstrip()"
SQ_KEPT = ("(self.remember_history and not ignored(self, cmd) and not ('ignoredups' in histcontrol('HISTCONTROL', '') and %s == old(self._last_hist_inp)) "
           "and not ('ignoreerr' in histcontrol('HISTCONTROL', '') and rtn_of(cmd, 'rtn') != 0) "
           "and not ('ignorespace' in histcontrol('HISTCONTROL', '') and spc_of(cmd, 'spc')))" % _INP)
PARALLEL = "len(self.outs) == len(self.inps) and len(self.rtns) == len(self.inps) and len(self.tss) == len(self.inps) and len(self.cwds) == len(self.inps)"
contract(
    SQ + "SqliteHistory.append", "C12", params=dict(self=SQH, cmd=CMD), globals={"XSH": Obj("XSH", env=Obj("Env"))}, externals=SQ_EXT,
    requires={"the-session-lists-are-parallel": PARALLEL},
    modifies=["self.inps", "self.outs", "self.rtns", "self.tss", "self.cwds", "self._last_hist_inp"], emits=["store"],
    ensures={
        "an-excluded-command-changes-nothing-and-is-not-stored":
            "implies(not %s, self.inps == old(self.inps) and self.rtns == old(self.rtns) and self.outs == old(self.outs) and self.tss == old(self.tss) "
            "and self.cwds == old(self.cwds) and self._last_hist_inp == old(self._last_hist_inp) and len(log('store')) == 0)" % SQ_KEPT,
        "a-kept-command-goes-last-in-every-session-list-with-its-own-values":
            "implies(%s, self.inps == old(self.inps) + [%s] and self.rtns == old(self.rtns) + [rtn_of(cmd, 'rtn')] and len(self.outs) == old(len(self.outs)) + 1 "
            "and len(self.tss) == old(len(self.tss)) + 1 and len(self.cwds) == old(len(self.cwds)) + 1)" % (SQ_KEPT, _INP),
        "a-kept-command-is-sent-to-the-store-exactly-once": "implies(%s, len(log('store')) == 1 and log('store')[0] == cmd)" % SQ_KEPT,
        "the-session-lists-stay-parallel": PARALLEL,
        "the-duplicate-filter-remembers-it": "implies(%s, self._last_hist_inp == %s)" % (SQ_KEPT, _INP),
    },
    assumptions=["cmd is a dict with 'inp', 'rtn' (read through ghost accessors); the SQL itself is executed by the database engine"],
    from_property="Every command appended to the session history and not excluded by $HISTCONTROL/ignore rules can be read back ... (SQLite drops only trailing whitespace) ... in append "
                  "order, with no duplicates or inventions; a store error (sqlite3.OperationalError) is reported, never raised into the shell",
)
