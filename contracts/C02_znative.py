"""C02 - bounded stand-in on the real execer (never counted as proved): small programs placing every binding form at scope depths
0..2, followed by a probe line `X -l` (Python when X is bound where the probe stands, a command otherwise); the expected decision
comes from Python's own scoping rules, written out per template."""
import os
from pyvc.contract import *

BINDERS = {  # form -> source binding X in the scope it stands in
    "assign": "X = 1", "augassign-after-assign": "X = 1\nX += 1", "import": "import os as X", "from-import": "from os import path as X", "def": "def X():\n    pass",
    "class": "class X:\n    pass", "for": "for X in []:\n    pass", "with": "with open('/dev/null') as X:\n    pass",
    "except": "try:\n    pass\nexcept Exception as X:\n    pass", "walrus": "(X := 1)", "tuple-assign": "X, Y = 1, 2", "annotated": "X: int = 1",
}


def _indent(src, n):
    return "\n".join(("    " * n + l) if l else l for l in src.split("\n"))


def programs():
    out = []
    for form, b in BINDERS.items():
        # bound at module level, probed at module level -> Python
        out.append(("%s at module level, probe after it" % form, b + "\nX -l\n", b.count("\n") + 2, True))
        # probed BEFORE the binding -> command
        out.append(("%s at module level, probe before it" % form, "X -l\n" + b + "\n", 1, False))
        for depth in (1, 2):
            head = "".join(_indent("def f%d():" % d, d) + "\n" for d in range(depth))
            body = _indent(b, depth)
            # bound inside a function, probed at module level afterwards -> command (local scope does not leak)
            src = head + body + "\nX -l\n"
            out.append(("%s inside %d function(s), probe at module level" % (form, depth), src, src.count("\n"), False))
            # bound and probed in the same function -> Python
            src = head + body + "\n" + _indent("X -l", depth) + "\n"
            out.append(("%s inside %d function(s), probe in the same scope" % (form, depth), src, src.count("\n"), True))
            # bound in the enclosing function, probed in the nested one -> Python (closure)
            if depth == 1:
                src = "def f0():\n" + _indent(b, 1) + "\n    def g():\n        X -l\n"
                out.append(("%s in the enclosing function, probe in a nested function" % form, src, src.count("\n"), True))
    for depth in (1, 2, 3):
        head = "".join(_indent("def f%d():" % d, d) + "\n" for d in range(depth))
        src = head + _indent("global X\nX = 1", depth) + "\nX -l\n"
        out.append(("global X inside %d function(s), probe at module level" % depth, src, src.count("\n"), True))
        if depth >= 2:
            # the global must NOT become a local of the enclosing function only: probe in a sibling function at module level
            src = head + _indent("global X\nX = 1", depth) + "\ndef other():\n    X -l\n"
            out.append(("global X inside %d function(s), probe in another top-level function" % depth, src, src.count("\n"), True))
    out.append(("parameter, probe in the body", "def f(X, *a, k=1, **kw):\n    X -l\n", 2, True))
    out.append(("parameter, probe after the function", "def f(X):\n    pass\nX -l\n", 3, False))
    out.append(("parameter of a nested function, probe in the enclosing function", "def f():\n    def g(X):\n        pass\n    X -l\n", 4, False))
    out.append(("kw-only / star parameters, probe in the body", "def f(*X, **Y):\n    X -l\n", 2, True))
    out.append(("lambda-free class body binding, probe after the class", "class C:\n    X = 1\nX -l\n", 3, False))
    out.append(("del at module level", "X = 1\ndel X\nX -l\n", 3, False))
    out.append(("del then rebind", "X = 1\ndel X\nX = 2\nX -l\n", 4, True))
    out.append(("del of a local leaves the module binding", "X = 1\ndef f():\n    X = 2\n    del X\nX -l\n", 5, True))
    out.append(("del of a local of the same name, probe in the function afterwards", "X = 1\ndef f():\n    X = 2\n    del X\n    Y = 0\nX -l\n", 6, True))
    out.append(("dotted import binds the top-level package", "import os.path\nos -l\n", 2, True))
    out.append(("dotted import does not bind the submodule name", "import os.path\npath -l\n", 2, False))
    out.append(("dotted import with as binds only the alias", "import os.path as X\nos -l\n", 2, False))
    out.append(("from-import star-free form binds the imported name, not the module", "from os import path\nos -l\n", 2, False))
    out.append(("walrus inside a call argument", "print(X := 1)\nX -l\n", 2, True))
    out.append(("walrus inside a condition", "if (X := 1):\n    pass\nX -l\n", 3, True))
    out.append(("multi-item with: `as` on the second item", "with open('/dev/null'), open('/dev/null') as X:\n    X -l\n", 2, True))
    out.append(("multi-item with: `as` on the first item", "with open('/dev/null') as X, open('/dev/null'):\n    X -l\n", 2, True))
    out.append(("multi-item with: both items", "with open('/dev/null') as Y, open('/dev/null') as X:\n    X -l\n", 2, True))
    out.append(("async-free nested with inside def", "def f():\n    with open('/dev/null'), open('/dev/null') as X:\n        X -l\n", 3, True))
    out.append(("for with tuple target", "for Y, X in []:\n    X -l\n", 2, True))
    out.append(("nested tuple target: the innermost name", "Y, (Z, X) = 1, (2, 3)\nX -l\n", 2, True))
    out.append(("nested list target with a starred name", "[Y, [Z, *X]] = 1, (2, 3)\nX -l\n", 2, True))
    out.append(("nested tuple target in a for", "for Y, (Z, X) in []:\n    X -l\n", 2, True))
    out.append(("nested tuple target in a with", "with open('/dev/null') as (Y, (Z, X)):\n    X -l\n", 2, True))
    out.append(("lambda parameter under `not` (nothing on the line is a command)", "f = lambda X: not X\n", 1, True))
    out.append(("lambda parameter under `and`", "f = lambda X, Y=1: X and Y\n", 1, True))
    out.append(("lambda parameter under `or`, keyword-only and star parameters", "f = lambda *X, k=0, **Y: X or k or Y\n", 1, True))
    out.append(("lambda parameter does not leak to the next line", "f = lambda X: not X\nX -l\n", 2, False))
    out.append(("nested lambda sees the outer parameter", "f = lambda X: (lambda Y: X and Y)\n", 1, True))
    out.append(("session name", "S -l\n", 1, True))
    out.append(("unbound", "X -l\n", 1, False))
    return out


def decisions(tier, seed):
    import ast
    import builtins
    from xonsh.built_ins import XSH
    from xonsh.execer import Execer

    saved = XSH.env
    ex = Execer()
    failures, n, nontrivial, samples = [], 0, 0, []
    try:
        for name, src, probe_line, want_python in programs():
            n += 1
            obs = None
            try:
                tree = ex.parse(src, ctx={"l", "S"} | set(dir(builtins)), mode="exec", filename="<xv-c02>")
                is_cmd = False
                for node in ast.walk(tree):
                    if isinstance(node, ast.Attribute) and isinstance(node.value, ast.Name) and node.value.id == "__xonsh__" and node.attr.startswith("subproc"):
                        if getattr(node, "lineno", None) == probe_line:
                            is_cmd = True
                nontrivial += 1
                if is_cmd == want_python:
                    obs = "line %d `X -l` is run as %s; with Python's scoping X is %s there" % (probe_line, "a command" if is_cmd else "Python", "bound" if want_python else "not bound")
            except SyntaxError as e:
                obs = "SyntaxError: %s" % e
            except Exception as e:  # noqa
                obs = "%s: %s" % (type(e).__name__, e)
            if obs and len(failures) < 6:
                failures.append({"clause": "a statement whose names are all bound runs as Python, otherwise as a command", "inputs": {"program": name, "source": src}, "observed": obs})
            elif not obs and len(samples) < 3 and "global" in name:
                samples.append({"program": name, "python": want_python})
    finally:
        XSH.env = saved
    return {"kind": "bounded", "evaluations": n, "distinct_nontrivial": nontrivial, "failures": failures, "exhaustive": False,
            "bound": "%d binding forms x scope depths 0..2 (global: 1..3) x probe positions, plus del / parameter / class-body / session-name cases; one probe shape `X -l`" % len(BINDERS),
            "domain": "real Execer.parse (context-free parse + CtxAwareTransformer) on generated programs", "samples": samples}


native_check("C02", "python-vs-command-follows-python-scoping", "bounded", decisions, doc="real parse of small programs, decision on a probe line vs Python scoping")
