"""C08 - bounded stand-in on the real functions and a real directory tree (never counted as proved): histories of file-system and
$PATH operations interleaved with lookups; after every step every view - locate_executable, SubprocSpec.resolve_binary_loc input
(locate_executable), `name in commands_cache`, the completion listing - must agree with an independent POSIX $PATH search."""
import json
import os
import shutil
import tempfile
from pyvc.contract import *

HERE = os.path.dirname(os.path.dirname(os.path.abspath(__file__)))


def _known(prop):
    p = os.path.join(HERE, "KNOWN_FINDINGS.json")
    return [k for k in json.load(open(p))["findings"] if k["property"] == prop and k.get("status") == "known" and k.get("native_class")]


def _posix_search(name, path_entries, cwd):
    """what execvp / `command -v` choose: first entry (in order) holding an executable regular file of that name"""
    for d in path_entries:
        full = os.path.join(cwd, d) if not os.path.isabs(d) else d
        if d == "":
            continue  # (an empty entry means cwd in POSIX; xonsh never runs bare names from cwd - stated in the property)
        cand = os.path.join(full, name)
        if os.path.isfile(cand) and os.access(cand, os.X_OK):
            return os.path.realpath(cand)
    return None


OPS = ["create a/tool", "create b/tool", "delete a/tool", "chmod-x a/tool", "chmod+x a/tool", "mkdir a/tool", "symlink a/tool->dir", "symlink a/tool->missing",
       "path a:b", "path b:a", "path link:b", "repoint link->b", "repoint link->a", "path a:a:missing:b", "touch b/other"]


def histories(tier, seed):
    import itertools
    from xonsh.built_ins import XSH
    from xonsh.environ import Env
    from xonsh.commands_cache import CommandsCache
    from xonsh.procs.executables import locate_executable

    known = _known("C08")
    saved_env, saved_cc, cwd0 = XSH.env, XSH.commands_cache, os.getcwd()
    root = tempfile.mkdtemp(prefix="xv-c08-", dir=os.environ.get("XV_SCRATCH"))
    failures, known_hits, n, nontrivial, samples = [], {}, 0, 0, []
    L = 3 if tier == "quick" else 4

    def write(p, mode=0o755):
        if os.path.islink(p) or os.path.isfile(p):
            os.unlink(p)
        elif os.path.isdir(p):
            shutil.rmtree(p)
        with open(p, "w") as f:
            f.write("#!/bin/sh\necho %s\n" % p)
        os.chmod(p, mode)

    def rm(p):
        if os.path.islink(p) or os.path.isfile(p):
            os.unlink(p)
        elif os.path.isdir(p):
            shutil.rmtree(p)

    try:
        for hist in itertools.product(OPS, repeat=L):
            n += 1
            base = os.path.join(root, "h%d" % n)
            os.makedirs(os.path.join(base, "a"))
            os.makedirs(os.path.join(base, "b"))
            os.makedirs(os.path.join(base, "dir"))
            os.symlink("a", os.path.join(base, "link"))
            os.chdir(base)
            write(os.path.join(base, "tool"), 0o755)          # a file of that name in cwd must never be chosen
            env = Env({"PATH": [os.path.join(base, "a"), os.path.join(base, "b")], "XONSH_DATA_DIR": base, "COMMANDS_CACHE_SAVE_INTERMEDIATE": False})
            XSH.env = env
            cc = CommandsCache(env)
            XSH.commands_cache = cc
            obs = None
            try:
                for i, op in enumerate(hist):
                    a_tool = os.path.join(base, "a", "tool")
                    if op.startswith("create "):
                        write(os.path.join(base, op.split()[1]))
                    elif op == "delete a/tool":
                        rm(a_tool)
                    elif op == "chmod-x a/tool":
                        if os.path.isfile(a_tool) and not os.path.islink(a_tool):
                            os.chmod(a_tool, 0o644)
                    elif op == "chmod+x a/tool":
                        if os.path.isfile(a_tool) and not os.path.islink(a_tool):
                            os.chmod(a_tool, 0o755)
                    elif op == "mkdir a/tool":
                        rm(a_tool)
                        os.mkdir(a_tool)
                    elif op.startswith("symlink a/tool->"):
                        rm(a_tool)
                        os.symlink(os.path.join(base, op.split("->")[1]), a_tool)
                    elif op.startswith("path "):
                        env["PATH"] = [os.path.join(base, x) for x in op.split()[1].split(":")]
                    elif op.startswith("repoint link->"):
                        os.unlink(os.path.join(base, "link"))
                        os.symlink(op.split("->")[1], os.path.join(base, "link"))
                    elif op == "touch b/other":
                        write(os.path.join(base, "b", "other"))
                    # --- every view after every step
                    want = _posix_search("tool", list(env["PATH"]), base)
                    got = locate_executable("tool")
                    got_r = os.path.realpath(got) if got else None
                    if got_r != want:
                        obs = "after %r: locate_executable('tool') is %r, a POSIX search of $PATH finds %r" % (list(hist[:i + 1]), got, want)
                        break
                    inc = "tool" in cc
                    if inc != (want is not None):
                        obs = "after %r: ('tool' in commands_cache) is %r, a POSIX search of $PATH finds %r" % (list(hist[:i + 1]), inc, want)
                        break
                    listed = "tool" in set(cc.all_commands) if hasattr(cc, "all_commands") else "tool" in set(iter(cc))
                    if listed != (want is not None):
                        obs = "after %r: the command listing %s `tool`, a POSIX search of $PATH finds %r" % (list(hist[:i + 1]), "has" if listed else "lacks", want)
                        break
                    lb = cc.locate_binary("tool")
                    if (os.path.realpath(lb) if lb else None) != want:
                        obs = "after %r: commands_cache.locate_binary('tool') is %r, a POSIX search finds %r" % (list(hist[:i + 1]), lb, want)
                        break
                nontrivial += 1
            except Exception as e:  # noqa
                obs = "after %r: %s: %s" % (list(hist), type(e).__name__, e)
            finally:
                os.chdir(cwd0)
                shutil.rmtree(base, ignore_errors=True)
            if obs:
                hit = None
                for kf in known:
                    try:
                        if eval(kf["native_class"], {"history": list(hist), "observed": obs, "any": any, "len": len}):
                            hit = kf
                            break
                    except Exception:
                        pass
                if hit:
                    known_hits[hit["id"]] = known_hits.get(hit["id"], 0) + 1
                elif len(failures) < 6:
                    failures.append({"clause": "every view of the available commands agrees with a POSIX $PATH search after every step",
                                     "inputs": {"history": list(hist)}, "observed": obs})
            elif len(samples) < 3 and "repoint link->b" in hist:
                samples.append(list(hist))
    finally:
        XSH.env, XSH.commands_cache = saved_env, saved_cc
        os.chdir(cwd0)
        shutil.rmtree(root, ignore_errors=True)
    known_lines = ["KNOWN-FINDING: property=C08 %s [%s] (%d histories)" % (kf["text"], kf["id"], known_hits[kf["id"]]) for kf in known if kf["id"] in known_hits]
    return {"kind": "bounded", "evaluations": n, "distinct_nontrivial": nontrivial, "failures": failures, "exhaustive": False,
            "bound": "all histories of %d operations out of %d (create / delete / chmod / mkdir / symlink-to-dir / broken link in a $PATH directory, $PATH reorder / duplicate / "
                     "missing / symlinked entry, re-pointing a symlinked entry), every view checked after every step; one command name" % (L, len(OPS)),
            "domain": "real locate_executable and CommandsCache (in, listing, locate_binary) on a real directory tree, against an independent POSIX search",
            "samples": samples, "known_lines": known_lines, "known_hits": known_hits}


native_check("C08", "views-agree-with-a-posix-search-after-every-step", "bounded", histories,
             doc="FS / $PATH operation histories interleaved with lookups through every view")


def permission_bits(tier, seed):
    """every combination of the nine permission bits that matters for `may this process execute it` on a/tool (b/tool is a plain 0755 fallback):
    lookup, `in`, the listing and locate_binary agree with what the KERNEL answers for this process (os.access / execvp), whoever owns the file"""
    from xonsh.built_ins import XSH
    from xonsh.environ import Env
    from xonsh.commands_cache import CommandsCache
    from xonsh.procs.executables import locate_executable

    saved_env, saved_cc, cwd0 = XSH.env, XSH.commands_cache, os.getcwd()
    root = tempfile.mkdtemp(prefix="xv-c08p-", dir=os.environ.get("XV_SCRATCH"))
    failures, n, samples = [], 0, []
    try:
        for ubits in range(8):
            for gbits in range(8):
                for obits in (0, 1, 4, 5, 7):
                    mode = (ubits << 6) | (gbits << 3) | obits
                    n += 1
                    base = os.path.join(root, "m%03o" % mode)
                    os.makedirs(os.path.join(base, "a"))
                    os.makedirs(os.path.join(base, "b"))
                    for d_, m_ in (("a", mode), ("b", 0o755)):
                        p = os.path.join(base, d_, "tool")
                        with open(p, "w") as f:
                            f.write("#!/bin/sh\necho %s\n" % d_)
                        os.chmod(p, m_)
                    env = Env({"PATH": [os.path.join(base, "a"), os.path.join(base, "b")], "XONSH_COMMANDS_CACHE_READ_DIR_ONCE": ""})
                    XSH.env = env
                    cc = CommandsCache(env)
                    XSH.commands_cache = cc
                    want = _posix_search("tool", list(env["PATH"]), base)
                    obs = None
                    try:
                        got = locate_executable("tool")
                        lb = cc.locate_binary("tool")
                        if (os.path.realpath(got) if got else None) != want:
                            obs = "locate_executable('tool') is %r, the kernel (os.access X_OK, as execvp) chooses %r" % (got, want)
                        elif (os.path.realpath(lb) if lb else None) != want:
                            obs = "commands_cache.locate_binary('tool') is %r, the kernel chooses %r" % (lb, want)
                        elif ("tool" in cc) != (want is not None):
                            obs = "('tool' in commands_cache) is %r, the kernel chooses %r" % ("tool" in cc, want)
                    except Exception as e:  # noqa
                        obs = "%s: %s" % (type(e).__name__, e)
                    shutil.rmtree(base, ignore_errors=True)
                    if obs and len(failures) < 5:
                        failures.append({"clause": "the first executable regular file is the one the kernel would execute for this process", "inputs": {"mode of a/tool": "%04o" % mode, "uid": os.getuid()}, "observed": obs})
                    elif not obs and len(samples) < 3 and mode in (0o675, 0o070, 0o455):
                        samples.append({"mode of a/tool": "%04o" % mode})
    finally:
        XSH.env, XSH.commands_cache = saved_env, saved_cc
        os.chdir(cwd0)
        shutil.rmtree(root, ignore_errors=True)
    return {"kind": "bounded", "evaluations": n, "distinct_nontrivial": n, "failures": failures, "exhaustive": False,
            "bound": "320 permission modes of the first candidate (all user x group bits, 5 other-bit patterns), one fallback candidate; process uid %d" % os.getuid(),
            "domain": "real locate_executable / CommandsCache on real files vs os.access", "samples": samples}


native_check("C08", "executable-means-what-the-kernel-says-for-this-process", "bounded", permission_bits, doc="permission-bit combinations on real files")
