"""C12 - the self-indexing JSON writer: every child is told the absolute position at which its text really starts.

_to_json_with_size(obj, offset) returns (s, o, n, size).  The index is right when, for every node, the recorded offset is where
the node's text begins in the data section and the recorded size is its length.  Both follow from two facts proved here for ALL
values (recursion through the function's own contract): n == len(s), and in both container loops the running position j equals
offset + len(s) whenever a child is rendered (so the `offset=j` handed down is the child's true position).
Character positions are byte positions because json.dumps is used in its ASCII-only mode (any other keyword fails the call)."""
from pyvc.contract import *

L = "xonsh/lib/lazyjson.py::"
JV = Opaque("json")
IDX = Opaque("idx")
EXT = {
    "json.dumps": Ext(ret=Str, pure=True, uf="dumps", allowed_kwargs=["sort_keys"],
                      note="ASSUMED: with ensure_ascii left at its default the text is pure ASCII (chars == bytes)"),
    "json.items": Ext(ret=Seq(Tuple(JV, JV)), pure=True), "sorted": Ext(ret=Seq(Tuple(JV, JV)), pure=True),
}
contract(
    L + "_to_json_with_size", "C12", params=dict(obj=JV, offset=Int, sort_keys=Bool), externals=EXT,
    returns=Tuple(Str, IDX, Int, IDX), variant="assumed: JSON values are finite trees (every child is structurally smaller)",
    config={"isinstance_uf": {"json": True}, "iter_of": {"json": JV}, "opaque_absorbs": ("idx",)},
    locals={"s": Str, "j": Int, "n": Int, "o": IDX, "size": IDX, "items": Seq(Tuple(JV, JV)),
            "s_k": Str, "n_k": Int, "s_v": Str, "n_v": Int, "s_x": Str, "n_x": Int, "o_k": IDX, "o_v": IDX, "o_x": IDX, "size_k": IDX, "size_v": IDX, "size_x": IDX},
    loops={"for#1": dict(invariant={"j-is-the-absolute-position-of-the-end-of-the-text-so-far": "j == offset + len(s)"}),
           "for#2": dict(invariant={"j-is-the-absolute-position-of-the-end-of-the-text-so-far": "j == offset + len(s)"})},
    abstract=[dict(line_contains="o = {}", may_raise=False, reason="index container"), dict(line_contains="size = {}", may_raise=False, reason="index container"),
              dict(line_contains="o = []", may_raise=False, reason="index container"), dict(line_contains="size = []", may_raise=False, reason="index container"),
              dict(line_contains="o[key] = o_v", may_raise=False, reason="stores the child's index entry (which key gets which entry: bounded check only)"),
              dict(line_contains="size[key] = size_v", may_raise=False, reason="index entry"),
              dict(line_contains='o["__total__"] = offset', may_raise=False, reason="index entry"),
              dict(line_contains='size["__total__"] = n', may_raise=False, reason="index entry"),
              dict(line_contains="o.append(", may_raise=False, reason="index entry"), dict(line_contains="size.append(", may_raise=False, reason="index entry"),
              ],
    asserts=[dict(before="s_v, o_v, n_v, size_v = _to_json_with_size(", label="a-mapping-value-is-told-where-its-text-really-starts", clause="j == offset + len(s)"),
             dict(before="s_k, o_k, n_k, size_k = _to_json_with_size(", label="a-mapping-key-is-told-where-its-text-really-starts", clause="j == offset + len(s)"),
             dict(before="s_x, o_x, n_x, size_x = _to_json_with_size(", label="a-list-element-is-told-where-its-text-really-starts", clause="j == offset + len(s)")],
    ensures={"the-reported-length-is-the-length-of-the-text": "result[2] == len(result[0])"},
    assumptions=["termination of the recursion (finite JSON values) is not verified", "which index entry is stored under which key / position is abstracted "
                 "(covered by the bounded writer -> reader check on real files)"],
    from_property="the JSON store's embedded index addresses every stored value correctly for any Unicode content",
)


# ---- reading: an element index never reaches the trailing whole-sequence entry of the offset / size tables --------------------
NODE = Obj("LJNode", offsets=Seq(Int), sizes=Seq(Int))
READ_EXT = {
    "self._load_or_node": Ext(ret=JV, pure=True, uf="loaded", note="reads `size` characters at `offset` of the data section and parses them"),
    "LJNode._load_or_node": Ext(ret=JV, pure=True, uf="loaded"), "loaded": Ext(ret=JV, pure=True, uf="loaded"),
}
contract(
    L + "LJNode.__len__", "C12", params=dict(self=NODE), returns=Int,
    ensures={"the-last-table-entry-is-not-an-element": "result == len(self.sizes) - 1"},
    from_property="the embedded index addresses every stored value correctly",
)
NK = "(key + len(self.sizes) - 1 if key < 0 else key)"
contract(
    L + "LJNode._getitem_sequence", "C12", params=dict(self=NODE, key=Int), externals=READ_EXT, returns=JV,
    config={"isinstance": {"int": ["int"], "slice": []}},
    requires={"a-sequence-node": "len(self.offsets) == len(self.sizes) and len(self.sizes) >= 1"},
    raises={"IndexError": "not (0 <= %s and %s < len(self.sizes) - 1)" % (NK, NK)}, raises_iff=["IndexError"],
    ensures={"reads-the-entry-of-that-element-counting-from-the-end-for-negative-keys": "result == loaded(self.offsets[%s], self.sizes[%s])" % (NK, NK)},
    from_property="the JSON store's embedded index addresses every stored value correctly (sequence nodes: element k, never the whole-sequence entry)",
)
