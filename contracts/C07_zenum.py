"""C07 - native checks on the REAL tables and functions.

enum (complete, counted as proved by enumeration): every redirect spelling the tokenizer can produce - the universe is read
from xonsh/parsers/tokenize.py on every run - goes through the real parser as ONE redirect (with its target when it takes
one) and is decoded by the real _redirect_streams to the class its stream names denote; all spellings of a class agree.

bounded (stand-in, never counted as proved; also the replay domain of the wiring contract): the real cmds_to_specs on every
pipeline of <= 3 stages x 9 per-stage redirect forms x optional trailing `&`, checked against the same wiring clauses."""
import os
import shutil
import tempfile
from pyvc.contract import *

OUT, ERR, ALL = {"", "o", "out", "1"}, {"e", "err", "2"}, {"a", "all", "&"}


def _kind(name):
    name = name.lstrip("&") if name not in ("&",) else name
    if name in OUT:
        return "out"
    if name in ERR:
        return "err"
    if name in ALL:
        return "all"
    if name in ("p", "pipe"):
        return "pipe"
    return "?"


def _classify(spelling):
    """independent reading of a spelling: (source stream, mode, destination) from its stream names"""
    if "<" in spelling:
        a, b = spelling.split("<", 1)
        return ("in", "r", "file") if (a, b) == ("", "") else ("?",)
    op = ">>" if ">>" in spelling else ">"
    a, b = spelling.split(op, 1)
    src = _kind(a)
    if b == "":
        return (src, "a" if op == ">>" else "w", "file")
    return (src, "merge", _kind(b)) if op == ">" else ("?",)


def _session():
    from xonsh.built_ins import XSH
    from xonsh.execer import Execer

    XSH.load(execer=Execer(), inherit_env=True)
    XSH.env["XONSH_INTERACTIVE"] = False
    XSH.env["RAISE_SUBPROC_ERROR"] = False
    return XSH


def spellings(tier, seed):
    import ast
    import subprocess
    from xonsh.parser import Parser
    from xonsh.parsers import tokenize as T
    from xonsh.procs import specs as S

    universe = sorted(set(T._redir_map) | {n + ">" for n in T._redir_names} | {n + ">>" for n in T._redir_names} | {">", ">>", "<"})
    two_sided = set(T._redir_map)
    parser = Parser()
    failures, n, classes = [], 0, {}
    cwd = os.getcwd()
    tmp = tempfile.mkdtemp(prefix="xv-c07-", dir=os.environ.get("XV_SCRATCH"))
    os.chdir(tmp)
    open("T", "w").write("x")
    try:
        for sp in universe:
            n += 1
            obs = None
            try:
                tree = parser.parse("![echo hi %s T]\n" % sp)
                elts = tree.body[0].value.args[0].elts
                got = []
                for e in elts:
                    if isinstance(e, ast.Tuple):
                        got.append(tuple(x.value if isinstance(x, ast.Constant) else x.args[0].value for x in e.elts))
                    elif isinstance(e, ast.Call):
                        got.append(e.args[0].value)
                    else:
                        got.append("<%s>" % type(e).__name__)
                want = ["echo", "hi", (sp,), "T"] if sp in two_sided else ["echo", "hi", (sp, "T")]
                if got != want:
                    obs = "the command line `echo hi %s T` is read as %r, not %r" % (sp, got, want)
                else:
                    red = [g for g in got if isinstance(g, tuple)][0]
                    cls = _classify(sp)
                    streams = S._redirect_streams(*red)
                    desc = []
                    for x in streams:
                        if hasattr(x, "mode") and hasattr(x, "name"):
                            desc.append(("file", x.name, x.mode))
                            x.close()
                        elif x is S._PIPE_ALL:
                            desc.append("PIPE_ALL")
                        elif x is S._PIPE_ERR:
                            desc.append("PIPE_ERR")
                        else:
                            desc.append(x)
                    si, so, se = desc
                    shared = streams[1] is streams[2]
                    f = lambda m: ("file", "T", m)
                    expect = {
                        ("in", "r", "file"): (f("r"), None, None),
                        ("out", "w", "file"): (None, f("w"), None), ("out", "a", "file"): (None, f("a"), None),
                        ("err", "w", "file"): (None, None, f("w")), ("err", "a", "file"): (None, None, f("a")),
                        ("all", "w", "file"): (None, f("w"), f("w")), ("all", "a", "file"): (None, f("a"), f("a")),
                        ("err", "merge", "out"): (None, None, subprocess.STDOUT),
                        ("out", "merge", "err"): (None, 2, None),
                        ("all", "merge", "pipe"): (None, "PIPE_ALL", subprocess.STDOUT),
                        ("err", "merge", "pipe"): (None, None, "PIPE_ERR"),
                    }.get(cls)
                    classes.setdefault(cls, []).append(sp)
                    if expect is None:
                        obs = "spelling %r of the tokenizer has no documented meaning (%r) but is accepted as %r" % (sp, cls, desc)
                    elif (si, so, se) != expect:
                        obs = "%r decodes to stdin=%r stdout=%r stderr=%r, its stream names say %r" % (sp, si, so, se, expect)
                    elif cls[0] == "all" and cls[2] == "file" and not shared:
                        obs = ("%r opens the target twice: stdout and stderr get separate handles with separate offsets, so in truncate mode the two streams "
                               "overwrite each other instead of both ending up in the file" % sp)
            except Exception as e:  # noqa
                obs = "%r raised %s: %s" % (sp, type(e).__name__, e)
            if obs and len(failures) < 6:
                failures.append({"clause": "every documented spelling is one redirect token and decodes to the place its stream names say",
                                 "inputs": {"spelling": sp}, "observed": obs})
    finally:
        os.chdir(cwd)
        for fn in os.listdir(tmp):
            os.unlink(os.path.join(tmp, fn))
        os.rmdir(tmp)
    return {"kind": "enum", "evaluations": n, "distinct_nontrivial": len(classes), "failures": failures, "exhaustive": True,
            "domain": "all %d redirect spellings of the real tokenizer tables (_redir_map, _redir_names x {>, >>}, <, >, >>), through the real parser and _redirect_streams; "
                      "classes: %s" % (len(universe), "; ".join("%s=%d" % ("/".join(map(str, k)), len(v)) for k, v in sorted(classes.items(), key=str))),
            "samples": [{"class": "/".join(map(str, k)), "spellings": v[:6]} for k, v in sorted(classes.items(), key=str)][:4]}


native_check("C07", "every-spelling-is-one-token-and-decodes-to-its-class", "enum", spellings,
             doc="tokenizer universe x real parser x real _redirect_streams")


# ---- bounded: the real cmds_to_specs on small pipelines ---------------------------------------------------------------
FORMS = {
    "none": [], "o>f": [("o>", "F")], "e>f": [("e>", "F")], "e>p": [("e>p",)], "a>p": [("a>p",)], "e>o": [("e>o",)], "o>f+e>p": [("o>", "F"), ("e>p",)],
    "o>f+>g": [("o>", "F"), (">", "G")], "e>f+e>o": [("e>", "F"), ("e>o",)],
}


def pipelines(tier, seed):
    import itertools
    import subprocess
    import io
    from xonsh.procs import specs as S
    import xonsh.tools as xt

    XSH = _session()
    cwd = os.getcwd()
    tmp = tempfile.mkdtemp(prefix="xv-c07p-", dir=os.environ.get("XV_SCRATCH"))
    os.chdir(tmp)
    failures, n, nontrivial, samples = [], 0, 0, []
    maxlen = 3 if tier == "quick" else 4
    try:
        for length in range(1, maxlen + 1):
            for forms in itertools.product(FORMS, repeat=length):
                for bg in (False, True):
                    n += 1
                    cmds = []
                    for k, fm in enumerate(forms):
                        cmds.append(["echo", "x%d" % k] + [tuple(x.replace("F", "f%d" % k).replace("G", "g%d" % k) for x in r) for r in FORMS[fm]])
                        cmds.append("|")
                    cmds[-1:] = ["&"] if bg else []
                    # what the statement says must happen
                    want_error = None
                    for k, fm in enumerate(forms):
                        last = k == length - 1
                        if fm in ("e>p", "a>p", "o>f+e>p") and last:
                            want_error = "pipe redirect without a following pipe"
                        if fm == "o>f" and not last:
                            want_error = "stdout both to a file and into the pipe"
                        if fm in ("o>f+>g", "e>f+e>o"):
                            want_error = "two redirects of the same stream"
                    specs, err = None, None
                    try:
                        specs = S.cmds_to_specs(cmds, captured=False)
                    except xt.XonshError as e:
                        err = e
                    except Exception as e:  # noqa
                        err = e
                    obs = None
                    try:
                        if want_error and err is None:
                            obs = "no error although: " + want_error
                        elif not want_error and err is not None:
                            obs = "raised %s: %s" % (type(err).__name__, err)
                        elif err is None:
                            nontrivial += 1
                            if len(specs) != length:
                                obs = "%d stages built for %d commands" % (len(specs), length)
                            for k, fm in enumerate(forms):
                                if obs:
                                    break
                                sp = specs[k]
                                last = k == length - 1
                                pipe = sp.pipe_channels[0] if sp.pipe_channels else None
                                isfile = lambda x, nm: isinstance(x, io.IOBase) and getattr(x, "name", None) == nm
                                if not last:
                                    if pipe is None or specs[k + 1].stdin != pipe.read_fd:
                                        obs = "stage %d is not connected to stage %d" % (k, k + 1)
                                    elif fm in ("none", "e>f", "e>o", "a>p") and sp.stdout != pipe.write_fd:
                                        obs = "stage %d (%s): stdout %r is not the pipe" % (k, fm, sp.stdout)
                                    elif fm in ("e>p", "o>f+e>p") and sp.stderr != pipe.write_fd:
                                        obs = "stage %d (%s): stderr %r is not the pipe" % (k, fm, sp.stderr)
                                    elif fm == "e>p" and sp.stdout != pipe.write_fd:
                                        obs = "stage %d (e>p): stdout %r is not the pipe" % (k, sp.stdout)
                                    elif fm == "o>f+e>p" and not isfile(sp.stdout, "f%d" % k):
                                        obs = "stage %d (o>f e>p): stdout %r is not the file" % (k, sp.stdout)
                                    elif fm == "a>p" and sp.stderr != subprocess.STDOUT:
                                        obs = "stage %d (a>p): stderr %r is not merged into stdout" % (k, sp.stderr)
                                else:
                                    if fm == "o>f" and not isfile(sp.stdout, "f%d" % k):
                                        obs = "last stage (o>f): stdout %r" % (sp.stdout,)
                                    if fm == "none" and isinstance(sp.stdout, int) and sp.pipe_channels and sp.stdout == sp.pipe_channels[0].write_fd and False:
                                        obs = "last stage wired into a pipe"
                                    if sp.background != bg:
                                        obs = "background flag %r for trailing-&=%r" % (sp.background, bg)
                                if fm == "e>f" and not isfile(sp.stderr, "f%d" % k):
                                    obs = obs or "stage %d (e>f): stderr %r" % (k, sp.stderr)
                                if fm == "e>o" and sp.stderr != subprocess.STDOUT:
                                    obs = obs or "stage %d (e>o): stderr %r" % (k, sp.stderr)
                                if k > 0 and specs[k].stdin is None:
                                    obs = obs or "stage %d has no stdin" % k
                            if not obs and len(samples) < 3 and length == 3:
                                samples.append({"pipeline": list(forms), "background": bg})
                    finally:
                        if specs:
                            for sp in specs:
                                try:
                                    sp.close()
                                except Exception:
                                    pass
                    if obs and len(failures) < 6:
                        failures.append({"clause": "each stream of each stage goes where the redirects say; conflicts are errors",
                                         "inputs": {"stages": list(forms), "trailing_&": bg}, "observed": obs})
    finally:
        os.chdir(cwd)
        for fn in os.listdir(tmp):
            try:
                os.unlink(os.path.join(tmp, fn))
            except OSError:
                pass
        try:
            os.rmdir(tmp)
        except OSError:
            pass
        XSH.unload()
    return {"kind": "bounded", "evaluations": n, "distinct_nontrivial": nontrivial, "failures": failures, "exhaustive": False,
            "bound": "pipelines of <= %d stages, each stage one of %d redirect forms (%s), with and without a trailing &" % (maxlen, len(FORMS), ", ".join(FORMS)),
            "domain": "real cmds_to_specs / SubprocSpec.build on `echo` stages in a scratch directory", "samples": samples}


native_check("C07", "small-pipelines-are-wired-as-stated", "bounded", pipelines,
             doc="real cmds_to_specs on all pipelines of <= 3 stages x 9 redirect forms")


def multiword_targets(tier, seed):
    """a redirect whose target expands to several words (a glob matching several files, @([...])) is malformed: it must be reported, and no
    file may be opened, truncated or created for it"""
    from xonsh.procs import specs as S

    _session()
    cwd = os.getcwd()
    tmp = tempfile.mkdtemp(prefix="xv-c07m-", dir=os.environ.get("XV_SCRATCH"))
    os.chdir(tmp)
    failures, n, samples = [], 0, []
    try:
        for op in (">", ">>", "o>", "1>", "e>", "2>", "err>", "a>", "&>", "all>", "e>>", "a>>", "<"):
            for targets in (["t1.txt", "t2.txt"], ["t1.txt", "t2.txt", "t3.txt"]):
                for pos in ("last", "middle"):
                    n += 1
                    for t in targets:
                        with open(t, "w") as f:
                            f.write("KEEP")
                    red = (op, list(targets))
                    cmd = ["echo", "hi", red] if pos == "last" else ["echo", red, "hi"]
                    obs, specs = None, None
                    try:
                        specs = S.cmds_to_specs([cmd], captured=False)
                        obs = "accepted: %r" % (specs[0].cmd,)
                    except Exception:  # noqa  (XonshError or the `Unsupported redirect` exception: both are a report)
                        pass
                    finally:
                        for sp in specs or []:
                            sp.close()
                    changed = [t for t in targets if open(t).read() != "KEEP"]
                    if changed and not obs:
                        obs = "reported, but the file(s) %r were opened for writing first" % changed
                    elif changed:
                        obs += "; file(s) %r truncated" % changed
                    if obs and len(failures) < 5:
                        failures.append({"clause": "a redirect with several target words is reported and touches no file", "inputs": {"redirect": [op, targets], "position": pos}, "observed": obs})
                    elif not obs and len(samples) < 3:
                        samples.append({"redirect": [op, targets], "position": pos})
    finally:
        os.chdir(cwd)
        shutil.rmtree(tmp, ignore_errors=True)
    return {"kind": "bounded", "evaluations": n, "distinct_nontrivial": n, "failures": failures, "exhaustive": False,
            "bound": "13 operator spellings x targets of 2 / 3 words x 2 positions in the command", "domain": "real cmds_to_specs (SubprocSpec.build) on one stage", "samples": samples}


native_check("C07", "a-redirect-with-several-target-words-is-an-error", "bounded", multiword_targets, doc="malformed redirect targets through the real SubprocSpec.build")
