"""C08 - command lookup equals a POSIX $PATH search: the functions of xonsh/procs/executables.py over a ghost file system.

Ghost predicates (pure, constant DURING one call; every call consults them afresh - nothing is remembered between calls, which is
what "never goes stale" needs from these functions): regular(p) - p names a regular file (symlinks followed), xok(p) - the process
may execute p.  The ordered, de-duplicated, existing $PATH directories are `dirs` (clear_paths / get_paths: bounded check only)."""
from pyvc.contract import *

X = "xonsh/procs/executables.py::"
PATHOBJ = Opaque("pathobj")
FS = {
    "is_file": Ext(ret=Bool, pure=True, uf="regular", args=[PATHOBJ]), "regular": Ext(ret=Bool, pure=True, uf="regular", args=[PATHOBJ]),
    "os.access": Ext(ret=Bool, pure=True, uf="xok"), "xok": Ext(ret=Bool, pure=True, uf="xok"),
    "is_executable": Ext(ret=Bool, pure=True, uf="xok_of", note="is_executable_in_posix(filepath, check_file_exist=False) == os.access(filepath, X_OK) (its own contract)"),
    "xok_of": Ext(ret=Bool, pure=True, uf="xok_of"),
    "Path": Ext(ret=PATHOBJ, pure=True, uf="mkpath"), "mkpath": Ext(ret=PATHOBJ, pure=True, uf="mkpath"),
    "pathobj.__truediv__": Ext(ret=PATHOBJ, pure=True, uf="join"), "join": Ext(ret=PATHOBJ, pure=True, uf="join"),
    "str": Ext(ret=Str, pure=True, uf="pathstr"), "pathstr": Ext(ret=Str, pure=True, uf="pathstr"),
    "clear_paths": Ext(ret=Seq(Str), pure=True, uf="dirs", note="the ordered, de-duplicated, existing $PATH directories (bounded check only)"),
    "dirs": Ext(ret=Seq(Str), pure=True, uf="dirs"),
    "tuple": Ext(ret=Seq(Str), pure=True, uf="same"), "same": Ext(ret=Seq(Str), pure=True, uf="same"),
    "_cached_dir_contains": Ext(ret=NoneT, note="ASSUMED: $XONSH_COMMANDS_CACHE_READ_DIR_ONCE is empty (its directories are listed once by design - documented staleness)"),
    "_cache_debug": Ext(), "time.perf_counter": Ext(ret=Real),
    "Env.get": Ext(ret=Seq(Str), pure=True), "env.get": Ext(ret=Seq(Str), pure=True),
}
contract(
    X + "is_executable_in_posix", "C08", params=dict(filepath=PATHOBJ, check_file_exist=Bool), globals={"os.X_OK": 1}, externals=FS, returns=Bool, config={"no_memo": True},
    ensures={"an-executable-regular-file-and-nothing-else": "result == ((not check_file_exist or regular(filepath)) and xok(filepath, 1))"},
    assumptions=["os.access does not raise for a path whose type was just determined (the OSError handler is not exercised)"],
    from_property="the first executable REGULAR file (directories, broken links, non-executable shadows are skipped)",
)
DIRS = "same(dirs(Env.get('PATH')))"
HIT = "(regular(%s) and xok_of(%s, False))"
contract(
    X + "locate_file_in_path_env", "C08", params=dict(name=Str, env=Obj("Env"), check_executable=Bool, use_pathext=Bool), externals=FS,
    returns=Union(NoneT, Str), locals={"possible_names": List(Str), "paths": Seq(Str), "filepath": PATHOBJ, "result": Str}, config={"no_memo": True},
    requires={"an-executable-lookup-on-posix": "check_executable and not use_pathext"},
    loops={"for#1": dict(invariant={"no-earlier-directory-holds-an-executable-regular-file-of-that-name":
                                    ("forall(lambda k: not %s, 0, _i)" % (HIT % ("join(mkpath(%(D)s[k]), name)", "join(mkpath(%(D)s[k]), name)"))) % dict(D=DIRS)})},
    ensures={
        "the-first-directory-in-$PATH-order-wins":
            ("implies(result is not None, exists(lambda k: result == pathstr(join(mkpath(%%(D)s[k]), name)) and %s and forall(lambda j: not %s, 0, k), 0, len(%%(D)s)))" % (
                HIT % ("join(mkpath(%(D)s[k]), name)", "join(mkpath(%(D)s[k]), name)"), HIT % ("join(mkpath(%(D)s[j]), name)", "join(mkpath(%(D)s[j]), name)"))) % dict(D=DIRS),
        "None-only-when-no-directory-has-it":
            ("implies(result is None, forall(lambda k: not %s, 0, len(%%(D)s)))" % (HIT % ("join(mkpath(%(D)s[k]), name)", "join(mkpath(%(D)s[k]), name)"))) % dict(D=DIRS)},
    assumptions=["POSIX: no $PATHEXT (use_pathext off: one candidate name per directory)", "the stable-directory listing cache is off (documented, opt-in staleness)",
                 "the ghost file system does not change during one lookup"],
    from_property="A bare command name runs the first executable regular file of that name along the current $PATH order",
)


# ---- the listing view (name in commands_cache / completion): the same test per directory entry ------------------------------
CC = "xonsh/commands_cache.py::"


def _yield_log(R, frame, val, ynode):
    from pyvc.core import mk_none
    R.ctx.emit_log(R, "yield", val)
    return mk_none()


LIST_EXT = dict(FS)
LIST_EXT.update({
    "os.path.exists": Ext(ret=Bool, pure=True, ensures=["implies(not result, len(entries(a0)) == 0)"], note="a missing directory has no entries"), "os.scandir": Ext(ret=Seq(PATHOBJ), pure=True, uf="entries", raises=["PermissionError"]),
    "entries": Ext(ret=Seq(PATHOBJ), pure=True, uf="entries"),
    "pathobj.name": Ext(ret=Str, pure=True, uf="entryname", attr=True), "entryname": Ext(ret=Str, pure=True, uf="entryname"),
    "pathobj.is_dir": Ext(ret=Bool, pure=True, uf="isdir_nofollow", note="DirEntry.is_dir(follow_symlinks=False): the entry itself is a directory (says nothing about a symlink's target)"),
})
LISTED = "(regular(entries(path)[k]) and xok(entries(path)[k], 1))"
contract(
    CC + "_yield_accessible_unix_file_names", "C08", params=dict(path=Str), globals={"os.X_OK": 1}, externals=LIST_EXT, hooks={"yield": _yield_log}, config={"no_memo": True},
    calls={"is_executable_in_posix": X + "is_executable_in_posix"},
    loops={"for#1": dict(invariant={
        "only-executable-regular-files-so-far": "forall(lambda j: exists(lambda k: log('yield')[j] == entryname(entries(path)[k]) and %s, 0, _i), 0, len(log('yield')))" % LISTED,
        "and-all-of-them": "forall(lambda k: implies(%s, entryname(entries(path)[k]) in log('yield')), 0, _i)" % LISTED})},
    raises={"PermissionError": True},
    ensures={
        "lists-only-executable-regular-files": "forall(lambda j: exists(lambda k: log('yield')[j] == entryname(entries(path)[k]) and %s, 0, len(entries(path))), 0, len(log('yield')))" % LISTED,
        "lists-every-executable-regular-file": "forall(lambda k: implies(%s, entryname(entries(path)[k]) in log('yield')), 0, len(entries(path)))" % LISTED},
    from_property="every view xonsh offers of the available commands (execution, `name in` checks, completion listing) agrees with the file system: "
                  "the listing applies the same executable-regular-file test as the lookup",
)


# ---- never stale: the directory list is computed afresh from $PATH and the file system on every lookup ---------------------
CP_EXT = {
    "map": Ext(ret=Seq(Str), pure=True, uf="resolved", note="os.path.realpath of every entry, lazily"),
    "unique_everseen": Ext(ret=Seq(Str), pure=True, uf="uniq"), "filter": Ext(ret=Seq(Str), pure=True, uf="existing"),
    "resolved": Ext(ret=Seq(Str), pure=True, uf="resolved"), "uniq": Ext(ret=Seq(Str), pure=True, uf="uniq"), "existing": Ext(ret=Seq(Str), pure=True, uf="existing"),
}
contract(
    X + "clear_paths", "C08", params=dict(paths=Seq(Str)), externals=CP_EXT, returns=Seq(Str), config={"no_memo": True},
    ensures={"resolve-then-deduplicate-then-keep-existing-directories": "result == existing(uniq(resolved(paths)))"},
    assumptions=["what map / unique_everseen / filter compute (first occurrence kept, order kept) is covered by the bounded lookup histories only"],
    from_property="This stays true after any sequence of $PATH edits and of files appearing, disappearing or changing mode (nothing on the lookup path "
                  "remembers an answer of the file system: no result cache on the functions it uses)",
)
for _fn, _params in (("get_paths", dict(env=Obj("Env"))),):
    pass

contract(
    X + "is_explicit_path", "C08", params=dict(name=Str), globals={"os.sep": "/", "os.altsep": None}, returns=Bool, config={"no_memo": True},
    ensures={"a-name-is-a-path-exactly-when-it-contains-a-separator": "result == ('/' in name)"},
    from_property="a name containing a path separator refers only to that path",
)
DISPATCH = {
    "is_explicit_path": Ext(ret=Bool, pure=True, uf="explicit", ensures=["result == ('/' in a0)"], note="its own contract"),
    "locate_relative_path": Ext(ret=Union(NoneT, Str), pure=True, uf="at_that_path"), "at_that_path": Ext(ret=Union(NoneT, Str), pure=True, uf="at_that_path"),
    "locate_file_in_path_env": Ext(ret=Union(NoneT, Str), pure=True, uf="along_path"), "along_path": Ext(ret=Union(NoneT, Str), pure=True, uf="along_path"),
}
contract(
    X + "locate_file", "C08", params=dict(name=Str, env=Opaque("envref"), check_executable=Bool, use_pathext=Bool), externals=DISPATCH,
    returns=Union(NoneT, Str), config={"no_memo": True},
    ensures={"a-path-is-never-searched-in-$PATH": "implies('/' in name, result == at_that_path(name, env, check_executable, use_pathext))",
             "a-bare-name-is-never-looked-up-in-the-current-directory": "implies('/' not in name, result == along_path(name, env, check_executable, use_pathext))"},
    from_property="never a file from the current directory; a name containing a path separator refers only to that path",
)


# ---- the mtime-keyed directory cache behind `name in commands_cache`, iteration and completion ------------------------------
# Ghost world (constant during one call): statable(p) - os.path.getmtime(p) succeeds; mtime(p) - its answer; listing(p) - what
# executables_in(p) yields now.  VALID(cache): an entry whose recorded mtime equals the directory's current mtime holds the current
# listing - the design assumption of an mtime-keyed cache (a change of the directory's CONTENT changes its mtime; see the known
# finding: a chmod of a file does not), required on entry and re-established on exit.
def _getmtime(R, args, kw, node, frame, recv):
    """os.path.getmtime(p): OSError when the path cannot be stat'ed, else the ghost mtime(p)"""
    ok = R.ctx.uf_apply(R, "statable", [args[0]], Bool)
    if not R.decide(ok.z, R.lab(node, "getmtime-ok")):
        raise PyRaise(Exc("OSError", tag="os.path.getmtime"))
    return R.ctx.uf_apply(R, "mtime", [args[0]], Real)


from pyvc.core import PyRaise, Exc  # noqa: E402

CMDS = Rec("_Commands", mtime=Real, cmds=Seq(Str))
CCT = Obj("CommandsCache", _paths_cache=Dict(Str, CMDS), _paths_order=Union(NoneT, Seq(Str)), cache_file=Str, env=Obj("Env"))
PC_EXT = {
    "os.path.getmtime": Ext(model=_getmtime, note="ghost file system: raises OSError exactly when the path cannot be stat'ed, else its current mtime"),
    "statable": Ext(ret=Bool, pure=True, uf="statable", args=[Str]), "mtime": Ext(ret=Real, pure=True, uf="mtime", args=[Str]),
    "executables_in": Ext(ret=Seq(Str), pure=True, uf="listing", note="the directory's current listing (its own contract: _yield_accessible_unix_file_names)"),
    "listing": Ext(ret=Seq(Str), pure=True, uf="listing", args=[Str]),
    "tuple": Ext(ret=Seq(Str), pure=True, uf="astuple", ensures=["result == a0"], note="tuple(xs) holds the elements of xs in order"),
    "_Commands": Ext(ret=CMDS, pure=True, uf="mk_commands", ensures=["result.mtime == a0", "result.cmds == a1"], note="NamedTuple constructor (mtime, cmds)"),
    'Env.get("ENABLE_COMMANDS_CACHE")': Ext(ret=Bool, pure=True, uf="cache_enabled"),
    "math.isclose": Ext(ret=Bool, pure=True, ensures=["implies(a0 == a1, result)"], note="library fact: equal numbers are close (nothing is assumed about unequal ones)"),
}
VALID = "forall_str(lambda p: implies(p in %s and %s[p].mtime == mtime(p), %s[p].cmds == listing(p)))"
PC = "self._paths_cache"
contract(
    CC + "CommandsCache._update_paths_cache", "C08", params=dict(self=CCT, paths=Seq(Str)), externals=PC_EXT, returns=Bool, config={"no_memo": True},
    locals={"updated": Bool, "modified_time": Real},
    requires={"no-persistent-cache-file": 'self.cache_file == ""',
              "an-entry-with-the-directory's-current-mtime-holds-its-current-listing": VALID % (PC, PC, PC)},
    modifies=[PC, "self._paths_order"],
    loops={"for#1": dict(havoc_only=[], havoc_exprs=[PC], invariant={
        "every-statable-directory-so-far-has-an-entry-with-its-CURRENT-mtime":
            "forall(lambda k: implies(statable(paths[k]), paths[k] in %s and %s[paths[k]].mtime == mtime(paths[k])), 0, _i)" % (PC, PC),
        "entries-stay-valid": VALID % (PC, PC, PC),
        "not-updated-means-untouched": "implies(not updated, %s == old(%s) and old(self._paths_order) == paths)" % (PC, PC),
        "order-recorded": "self._paths_order == paths"})},
    ensures={
        "every-statable-$PATH-directory-is-listed-as-it-is-NOW":
            "forall(lambda k: implies(statable(paths[k]), paths[k] in %s and %s[paths[k]].cmds == listing(paths[k])), 0, len(paths))" % (PC, PC),
        "a-kept-entry-carries-the-directory's-current-mtime-exactly":
            "forall(lambda k: implies(statable(paths[k]), %s[paths[k]].mtime == mtime(paths[k])), 0, len(paths))" % PC,
        "reporting-no-change-means-nothing-changed": "implies(not result, %s == old(%s) and old(self._paths_order) == paths)" % (PC, PC),
        "the-$PATH-order-is-recorded": "self._paths_order == paths",
        "entries-stay-valid": VALID % (PC, PC, PC)},
    assumptions=["the opt-in persistent cache file ($COMMANDS_CACHE_SAVE_INTERMEDIATE) is off",
                 "mtime-keyed design: a change of a directory's content changes its mtime (chmod of a file does not: recorded known finding)"],
    from_property="every view xonsh offers of the available commands (`name in` checks, completion listing) agrees with the file system after any sequence of "
                  "files appearing, disappearing (a directory is re-listed unless its recorded mtime EQUALS the current one)",
)


# ---- the merged table (`name in commands_cache`, iteration, completion) is rebuilt whenever anything it was built from changed --------
# Ghost: names(aliases) = frozenset(aliases); hash is ASSUMED collision-free between the recorded and the current alias-name set - the real code
# decides "aliases changed" by that hash; merged(listings, order, names) is WHAT the rebuild loops compute (their content is covered by
# the bounded histories only).  TABLE(self): the table held is the merge of the recorded listings, the recorded order and the alias
# names whose hash is recorded.
NAMES = Opaque("names")
TABLE = Opaque("table")
CCT2 = Obj("CommandsCache", _paths_cache=Dict(Str, CMDS), _paths_order=Union(NoneT, Seq(Str)), cache_file=Str, env=Obj("Env"),
           aliases=Opaque("aliases"), _alias_checksum=Union(NoneT, Int), _cmds_cache=TABLE)
AL_EXT = {
    "frozenset": Ext(ret=NAMES, pure=True, uf="names"), "names": Ext(ret=NAMES, pure=True, uf="names"),
    "hash": Ext(ret=Int, pure=True, uf="hash_of"), "hash_of": Ext(ret=Int, pure=True, uf="hash_of", args=[NAMES]),
}
contract(
    CC + "CommandsCache._update_aliases_cache", "C08", params=dict(self=CCT2), externals=AL_EXT, returns=Bool, config={"no_memo": True},
    modifies=["self._alias_checksum"],
    ensures={"records-the-current-alias-names": "self._alias_checksum == hash_of(names(self.aliases))",
             "reports-a-change-exactly-when-the-recorded-hash-differs": "result == (old(self._alias_checksum) != hash_of(names(self.aliases)))"},
    from_property="every view xonsh offers of the available commands agrees ... (aliases are part of the `name in` view)",
)
FRESH_T = "forall(lambda k: implies(statable(%(P)s[k]), %(P)s[k] in %(C)s and %(C)s[%(P)s[k]].cmds == listing(%(P)s[k])), 0, len(%(P)s))"
FRESH = FRESH_T % dict(P="paths", C=PC)
UAC_EXT = dict(PC_EXT)
UAC_EXT.update(AL_EXT)
contract(
    CC + "CommandsCache._update_and_check_changes", "C08", params=dict(self=CCT2, paths=Seq(Str)), externals=UAC_EXT, returns=Bool, config={"no_memo": True},
    calls={"CommandsCache._update_aliases_cache": CC + "CommandsCache._update_aliases_cache", "CommandsCache._update_paths_cache": CC + "CommandsCache._update_paths_cache"},
    requires={"no-persistent-cache-file": 'self.cache_file == ""',
              "an-entry-with-the-directory's-current-mtime-holds-its-current-listing": VALID % (PC, PC, PC)},
    modifies=[PC, "self._paths_order", "self._alias_checksum"],
    ensures={"BOTH-updates-ran-whatever-the-first-one-said": "self._alias_checksum == hash_of(names(self.aliases)) and self._paths_order == paths",
             "every-statable-$PATH-directory-is-listed-as-it-is-NOW": FRESH,
             "reporting-no-change-means-nothing-the-table-was-built-from-changed":
                 "implies(not result, %s == old(%s) and old(self._paths_order) == paths and old(self._alias_checksum) == hash_of(names(self.aliases)))" % (PC, PC),
             "entries-stay-valid": VALID % (PC, PC, PC)},
    from_property="This stays true after any sequence of $PATH edits and of files appearing, disappearing",
)
MERGED_NOW = "merged(%s, paths_of(self.env), names(self.aliases))" % PC
UC_EXT = dict(UAC_EXT)
UC_EXT.update({
    "get_paths": Ext(ret=Seq(Str), pure=True, uf="paths_of", note="the ordered, de-duplicated, existing $PATH directories, last first (clear_paths: its own contract)"),
    "paths_of": Ext(ret=Seq(Str), pure=True, uf="paths_of"),
    "merged": Ext(ret=TABLE, pure=True, uf="merged", args=[VMap(Str, CMDS), Seq(Str), NAMES], note="ghost: what the rebuild loops compute from listings, order and alias names"),
    "CacheDict": Ext(ret=TABLE),
})
contract(
    CC + "CommandsCache.update_cache", "C08", params=dict(self=CCT2), globals={"NREC": NAMES}, externals=UC_EXT, returns=TABLE, config={"no_memo": True},
    locals={"all_cmds": TABLE, "paths": Seq(Str)},
    calls={"CommandsCache._update_and_check_changes": CC + "CommandsCache._update_and_check_changes"},
    requires={"no-persistent-cache-file": 'self.cache_file == ""',
              "an-entry-with-the-directory's-current-mtime-holds-its-current-listing": VALID % (PC, PC, PC),
              "the-table-held-is-the-merge-of-what-is-recorded (NREC: the alias names whose hash is recorded)":
                  "implies(self._paths_order is not None and self._alias_checksum is not None, "
                  "self._alias_checksum == hash_of(NREC) and self._cmds_cache == merged(%s, self._paths_order, NREC))" % PC},
    axioms={"no-hash-collision-between-the-recorded-and-the-current-alias-names":
            "implies(hash_of(NREC) == hash_of(names(self.aliases)), NREC == names(self.aliases))"},
    modifies=[PC, "self._paths_order", "self._alias_checksum", "self._cmds_cache"],
    abstract=[dict(line_contains="for cmd, path in self._iter_binaries(paths):", may_raise=False, havoc=[], reason="rebuild loop 1 (content: bounded histories)"),
              dict(line_contains="for cmd in self.aliases:", may_raise=False, havoc=[],
                   ensures=["all_cmds == " + MERGED_NOW], reason="rebuild loop 2; DEFINES merged(listings, order, alias names) as what the two loops compute")],
    ensures={"the-table-handed-out-is-the-merge-of-the-CURRENT-listings-order-and-aliases": "result == " + MERGED_NOW + " and self._cmds_cache == result",
             "every-statable-$PATH-directory-is-listed-as-it-is-NOW": FRESH_T % dict(P="paths_of(self.env)", C=PC),
             "what-is-recorded-is-what-the-table-was-built-from":
                 "self._paths_order == paths_of(self.env) and self._alias_checksum == hash_of(names(self.aliases))"},
    assumptions=["no hash collision between alias-name sets", "what the two rebuild loops compute is the ghost function merged (bounded histories only)"],
    from_property="never goes stale: every view (`name in`, iteration, completion) is computed from a table that is rebuilt whenever a listing, the $PATH order or the alias names changed",
)


# ---- the views themselves: every one refreshes the table before it answers (never a lazy answer from a stale table) --------------------------
VIEW_EXT = {
    "CommandsCache.update_cache": Ext(ret=TABLE, event="refresh", log="const", log_type=Int, note="its own contract: the table handed out is the merge of the CURRENT listings, order and aliases"),
    "CommandsCache.lazyin": Ext(ret=Bool, pure=True, uf="lazy_in", note="membership in the table held (reads only)"),
    "CommandsCache.lazyget": Ext(ret=Opaque("entry"), pure=True, uf="lazy_get"),
    "lazy_in": Ext(ret=Bool, pure=True, uf="lazy_in"), "lazy_get": Ext(ret=Opaque("entry"), pure=True, uf="lazy_get"),
}
CCV = Obj("CommandsCache", _cmds_cache=TABLE)
contract(
    CC + "CommandsCache.__contains__", "C08", params=dict(self=CCV, key=Str), externals=VIEW_EXT, returns=Bool, emits=["refresh"], config={"no_memo": True},
    ensures={"the-table-is-refreshed-exactly-once-before-the-answer": "len(log('refresh')) == 1", "and-the-answer-is-the-table's": "result == lazy_in(self, key)"},
    from_property="`name in` checks ... agree with the file system (never answered from a table that was not refreshed first)",
)
contract(
    CC + "CommandsCache.__getitem__", "C08", params=dict(self=CCV, key=Str), externals=VIEW_EXT, returns=Opaque("entry"), emits=["refresh"], config={"no_memo": True},
    ensures={"the-table-is-refreshed-exactly-once-before-the-answer": "len(log('refresh')) == 1", "and-the-answer-is-the-table's": "result == lazy_get(self, key)"},
    from_property="every view xonsh offers of the available commands agrees with the file system",
)
