"""C08 - command lookup equals a POSIX $PATH search: the functions of xonsh/procs/executables.py over a ghost file system.

Ghost predicates (pure, constant DURING one call; every call consults them afresh - nothing is remembered between calls, which is
what "never goes stale" needs from these functions): regular(p) - p names a regular file (symlinks followed), xok(p) - the process
may execute p.  The ordered, de-duplicated, existing $PATH directories are `dirs` (clear_paths / get_paths: bounded check only)."""
from pyvc.contract import *

X = "xonsh/procs/executables.py::"
PATHOBJ = Opaque("pathobj")
FS = {
    "is_file": Ext(ret=Bool, pure=True, uf="regular", args=[PATHOBJ]), "regular": Ext(ret=Bool, pure=True, uf="regular", args=[PATHOBJ]),
    "os.access": Ext(ret=Bool, pure=True, uf="xok"), "xok": Ext(ret=Bool, pure=True, uf="xok"),
    "is_executable": Ext(ret=Bool, pure=True, uf="xok_of", note="is_executable_in_posix(filepath, check_file_exist=False) == os.access(filepath, X_OK) (its own contract)"),
    "xok_of": Ext(ret=Bool, pure=True, uf="xok_of"),
    "Path": Ext(ret=PATHOBJ, pure=True, uf="mkpath"), "mkpath": Ext(ret=PATHOBJ, pure=True, uf="mkpath"),
    "pathobj.__truediv__": Ext(ret=PATHOBJ, pure=True, uf="join"), "join": Ext(ret=PATHOBJ, pure=True, uf="join"),
    "str": Ext(ret=Str, pure=True, uf="pathstr"), "pathstr": Ext(ret=Str, pure=True, uf="pathstr"),
    "clear_paths": Ext(ret=Seq(Str), pure=True, uf="dirs", note="the ordered, de-duplicated, existing $PATH directories (bounded check only)"),
    "dirs": Ext(ret=Seq(Str), pure=True, uf="dirs"),
    "tuple": Ext(ret=Seq(Str), pure=True, uf="same"), "same": Ext(ret=Seq(Str), pure=True, uf="same"),
    "_cached_dir_contains": Ext(ret=NoneT, note="ASSUMED: $XONSH_COMMANDS_CACHE_READ_DIR_ONCE is empty (its directories are listed once by design - documented staleness)"),
    "_cache_debug": Ext(), "time.perf_counter": Ext(ret=Real),
    "Env.get": Ext(ret=Seq(Str), pure=True), "env.get": Ext(ret=Seq(Str), pure=True),
}
contract(
    X + "is_executable_in_posix", "C08", params=dict(filepath=PATHOBJ, check_file_exist=Bool), globals={"os.X_OK": 1}, externals=FS, returns=Bool, config={"no_memo": True},
    ensures={"an-executable-regular-file-and-nothing-else": "result == ((not check_file_exist or regular(filepath)) and xok(filepath, 1))"},
    assumptions=["os.access does not raise for a path whose type was just determined (the OSError handler is not exercised)"],
    from_property="the first executable REGULAR file (directories, broken links, non-executable shadows are skipped)",
)
DIRS = "same(dirs(Env.get('PATH')))"
HIT = "(regular(%s) and xok_of(%s, False))"
contract(
    X + "locate_file_in_path_env", "C08", params=dict(name=Str, env=Obj("Env"), check_executable=Bool, use_pathext=Bool), externals=FS,
    returns=Union(NoneT, Str), locals={"possible_names": List(Str), "paths": Seq(Str), "filepath": PATHOBJ, "result": Str}, config={"no_memo": True},
    requires={"an-executable-lookup-on-posix": "check_executable and not use_pathext"},
    loops={"for#1": dict(invariant={"no-earlier-directory-holds-an-executable-regular-file-of-that-name":
                                    ("forall(lambda k: not %s, 0, _i)" % (HIT % ("join(mkpath(%(D)s[k]), name)", "join(mkpath(%(D)s[k]), name)"))) % dict(D=DIRS)})},
    ensures={
        "the-first-directory-in-$PATH-order-wins":
            ("implies(result is not None, exists(lambda k: result == pathstr(join(mkpath(%%(D)s[k]), name)) and %s and forall(lambda j: not %s, 0, k), 0, len(%%(D)s)))" % (
                HIT % ("join(mkpath(%(D)s[k]), name)", "join(mkpath(%(D)s[k]), name)"), HIT % ("join(mkpath(%(D)s[j]), name)", "join(mkpath(%(D)s[j]), name)"))) % dict(D=DIRS),
        "None-only-when-no-directory-has-it":
            ("implies(result is None, forall(lambda k: not %s, 0, len(%%(D)s)))" % (HIT % ("join(mkpath(%(D)s[k]), name)", "join(mkpath(%(D)s[k]), name)"))) % dict(D=DIRS)},
    assumptions=["POSIX: no $PATHEXT (use_pathext off: one candidate name per directory)", "the stable-directory listing cache is off (documented, opt-in staleness)",
                 "the ghost file system does not change during one lookup"],
    from_property="A bare command name runs the first executable regular file of that name along the current $PATH order",
)


# ---- the listing view (name in commands_cache / completion): the same test per directory entry ------------------------------
CC = "xonsh/commands_cache.py::"


def _yield_log(R, frame, val, ynode):
    from pyvc.core import mk_none
    R.ctx.emit_log(R, "yield", val)
    return mk_none()


LIST_EXT = dict(FS)
LIST_EXT.update({
    "os.path.exists": Ext(ret=Bool, pure=True, ensures=["implies(not result, len(entries(a0)) == 0)"], note="a missing directory has no entries"), "os.scandir": Ext(ret=Seq(PATHOBJ), pure=True, uf="entries", raises=["PermissionError"]),
    "entries": Ext(ret=Seq(PATHOBJ), pure=True, uf="entries"),
    "pathobj.name": Ext(ret=Str, pure=True, uf="entryname", attr=True), "entryname": Ext(ret=Str, pure=True, uf="entryname"),
    "pathobj.is_dir": Ext(ret=Bool, pure=True, uf="isdir_nofollow", note="DirEntry.is_dir(follow_symlinks=False): the entry itself is a directory (says nothing about a symlink's target)"),
})
LISTED = "(regular(entries(path)[k]) and xok(entries(path)[k], 1))"
contract(
    CC + "_yield_accessible_unix_file_names", "C08", params=dict(path=Str), globals={"os.X_OK": 1}, externals=LIST_EXT, hooks={"yield": _yield_log}, config={"no_memo": True},
    calls={"is_executable_in_posix": X + "is_executable_in_posix"},
    loops={"for#1": dict(invariant={
        "only-executable-regular-files-so-far": "forall(lambda j: exists(lambda k: log('yield')[j] == entryname(entries(path)[k]) and %s, 0, _i), 0, len(log('yield')))" % LISTED,
        "and-all-of-them": "forall(lambda k: implies(%s, entryname(entries(path)[k]) in log('yield')), 0, _i)" % LISTED})},
    raises={"PermissionError": True},
    ensures={
        "lists-only-executable-regular-files": "forall(lambda j: exists(lambda k: log('yield')[j] == entryname(entries(path)[k]) and %s, 0, len(entries(path))), 0, len(log('yield')))" % LISTED,
        "lists-every-executable-regular-file": "forall(lambda k: implies(%s, entryname(entries(path)[k]) in log('yield')), 0, len(entries(path)))" % LISTED},
    from_property="every view xonsh offers of the available commands (execution, `name in` checks, completion listing) agrees with the file system: "
                  "the listing applies the same executable-regular-file test as the lookup",
)


# ---- never stale: the directory list is computed afresh from $PATH and the file system on every lookup ---------------------
CP_EXT = {
    "map": Ext(ret=Seq(Str), pure=True, uf="resolved", note="os.path.realpath of every entry, lazily"),
    "unique_everseen": Ext(ret=Seq(Str), pure=True, uf="uniq"), "filter": Ext(ret=Seq(Str), pure=True, uf="existing"),
    "resolved": Ext(ret=Seq(Str), pure=True, uf="resolved"), "uniq": Ext(ret=Seq(Str), pure=True, uf="uniq"), "existing": Ext(ret=Seq(Str), pure=True, uf="existing"),
}
contract(
    X + "clear_paths", "C08", params=dict(paths=Seq(Str)), externals=CP_EXT, returns=Seq(Str), config={"no_memo": True},
    ensures={"resolve-then-deduplicate-then-keep-existing-directories": "result == existing(uniq(resolved(paths)))"},
    assumptions=["what map / unique_everseen / filter compute (first occurrence kept, order kept) is covered by the bounded lookup histories only"],
    from_property="This stays true after any sequence of $PATH edits and of files appearing, disappearing or changing mode (nothing on the lookup path "
                  "remembers an answer of the file system: no result cache on the functions it uses)",
)
for _fn, _params in (("get_paths", dict(env=Obj("Env"))),):
    pass

contract(
    X + "is_explicit_path", "C08", params=dict(name=Str), globals={"os.sep": "/", "os.altsep": None}, returns=Bool, config={"no_memo": True},
    ensures={"a-name-is-a-path-exactly-when-it-contains-a-separator": "result == ('/' in name)"},
    from_property="a name containing a path separator refers only to that path",
)
DISPATCH = {
    "is_explicit_path": Ext(ret=Bool, pure=True, uf="explicit", ensures=["result == ('/' in a0)"], note="its own contract"),
    "locate_relative_path": Ext(ret=Union(NoneT, Str), pure=True, uf="at_that_path"), "at_that_path": Ext(ret=Union(NoneT, Str), pure=True, uf="at_that_path"),
    "locate_file_in_path_env": Ext(ret=Union(NoneT, Str), pure=True, uf="along_path"), "along_path": Ext(ret=Union(NoneT, Str), pure=True, uf="along_path"),
}
contract(
    X + "locate_file", "C08", params=dict(name=Str, env=Opaque("envref"), check_executable=Bool, use_pathext=Bool), externals=DISPATCH,
    returns=Union(NoneT, Str), config={"no_memo": True},
    ensures={"a-path-is-never-searched-in-$PATH": "implies('/' in name, result == at_that_path(name, env, check_executable, use_pathext))",
             "a-bare-name-is-never-looked-up-in-the-current-directory": "implies('/' not in name, result == along_path(name, env, check_executable, use_pathext))"},
    from_property="never a file from the current directory; a name containing a path separator refers only to that path",
)
