"""C05 - native checks: the decorator table (enum, complete) and the chain wrapper + runtime decision
executed together over all chain shapes up to a bound (bounded stand-in, never counted as proved)."""
from pyvc.contract import *


# ---- enum: decorator table ---------------------------------------------------------------------
def decorator_table(tier, seed):
    from xonsh.aliases import make_default_aliases
    from xonsh.procs.specs import SpecAttrDecoratorAlias

    al = make_default_aliases()
    failures = []
    rows = {"@error_raise": {"raise_subproc_error": True}, "@error_ignore": {"raise_subproc_error": False}}
    n = 0
    for name, want in rows.items():
        n += 1
        d = al._raw.get(name) if hasattr(al, "_raw") else al.get(name)
        ok = isinstance(d, SpecAttrDecoratorAlias) and d.set_attributes == want
        if ok:
            class S:  # the decorator sets exactly those attributes on a spec
                pass
            s = S()
            d.decorate_spec(s)
            ok = vars(s) == want
        if not ok:
            failures.append({"clause": "decorator %s sets exactly %r" % (name, want), "inputs": {"name": name},
                             "observed": repr(getattr(d, "set_attributes", d))})
    return {"kind": "enum", "evaluations": n, "distinct_nontrivial": n, "failures": failures, "exhaustive": True, "obligations": n,
            "domain": "the two error decorators of the real make_default_aliases() table", "samples": list(rows)}


native_check("C05", "decorator-table", "enum", decorator_table,
             doc="@error_raise / @error_ignore are SpecAttrDecoratorAlias objects setting raise_subproc_error True / False")


# ---- bounded: chains -----------------------------------------------------------------------------
def _shapes(n):
    """all binary tree shapes with n leaves, as nested tuples of leaf indices"""
    def build(leaves):
        if len(leaves) == 1:
            yield leaves[0]
            return
        for k in range(1, len(leaves)):
            for l in build(leaves[:k]):
                for r in build(leaves[k:]):
                    yield (l, r)
    return list(build(list(range(n))))


def _flat_shapes(n):
    """additionally n-ary flat chains: a single BoolOp with n values"""
    return [tuple(range(n))] if n >= 3 else []


def chain_semantics(tier, seed):
    import ast, itertools
    import xonsh.built_ins as bi
    from xonsh.parsers import base as pb
    from xonsh.built_ins import XSH

    maxn = 4 if tier == "quick" else 5
    failures = []
    evals = 0
    samples = []

    class FakePipe:
        def __init__(self, idx, rc):
            self.idx, self.returncode = idx, rc
            self.spec = type("Spec", (), {"background": False, "captured": "hiddenobject", "raise_subproc_error": None,
                                          "args": ["cmd%d" % idx], "in_boolop": True})()
            self.output = ""

        def __bool__(self):
            return self.returncode == 0

    def mk_call(i):
        return ast.Call(func=ast.Attribute(value=ast.Name(id="__xonsh__", ctx=ast.Load()), attr="subproc_captured_hiddenobject", ctx=ast.Load()),
                        args=[ast.Constant(i)], keywords=[])

    def mk_tree(shape, ops, counter):
        if isinstance(shape, int):
            return mk_call(shape)
        op = ops[counter[0]]
        counter[0] += 1
        node = ast.BoolOp(op=ast.And() if op == "and" else ast.Or(), values=[mk_tree(s, ops, counter) for s in shape])
        pb._mark_boolop_subproc_values(node)
        return node

    def ref_eval(shape, ops, rcs, counter, ran):
        """reference short-circuit semantics over exit codes: returns the index of the deciding command"""
        if isinstance(shape, int):
            ran.append(shape)
            return shape
        op = ops[counter[0]]
        counter[0] += 1
        last = None
        skip = False
        for s in shape:
            if skip:
                _skip(s, counter)
                continue
            last = ref_eval(s, ops, rcs, counter, ran)
            ok = rcs[last] == 0
            if (op == "and" and not ok) or (op == "or" and ok):
                skip = True
        return last

    def _skip(shape, counter):
        if isinstance(shape, int):
            return
        counter[0] += 1
        for s in shape:
            _skip(s, counter)

    def n_internal(shape):
        return 0 if isinstance(shape, int) else 1 + sum(n_internal(s) for s in shape)

    saved_env, saved_last = XSH.env, getattr(XSH, "lastcmd", None)
    XSH.env = {"XONSH_SUBPROC_RAISE_ERROR": True, "XONSH_SUBPROC_CMD_RAISE_ERROR": False}
    try:
        for n in range(1, maxn + 1):
            for shape in _shapes(n) + _flat_shapes(n):
                k = n_internal(shape)
                for ops in itertools.product(("and", "or"), repeat=k):
                    tree = mk_tree(shape, ops, [0])
                    mod = ast.Module(body=[ast.Expr(value=tree)], type_ignores=[])
                    ast.fix_missing_locations(mod)  # the parser always sets locations
                    mod = pb.wrap_subproc_raise_checks(mod)
                    ast.fix_missing_locations(mod)
                    code = compile(mod, "<chain>", "exec")
                    for rcs in itertools.product((0, 1), repeat=n):
                        evals += 1
                        ran = []

                        class X:
                            subproc_check_boolop = staticmethod(bi.subproc_check_boolop)

                            @staticmethod
                            def subproc_captured_hiddenobject(i, in_boolop=False, **kw):
                                ran.append(i)
                                p = FakePipe(i, rcs[i])
                                XSH.lastcmd = p
                                return p

                        raised = False
                        try:
                            exec(code, {"__xonsh__": X})
                        except Exception as e:  # noqa
                            raised = type(e).__name__ == "CalledProcessError"
                            if not raised:
                                raised = "other:" + repr(e)
                        want_ran = []
                        decider = ref_eval(shape, ops, rcs, [0], want_ran)
                        want_raise = rcs[decider] != 0
                        if ran != want_ran or raised != want_raise:
                            if len(failures) < 5:
                                failures.append({"clause": "a command runs iff short-circuit evaluation reaches it; CalledProcessError iff the last command that ran failed",
                                                 "inputs": {"shape": repr(shape), "ops": list(ops), "exit_codes": list(rcs)},
                                                 "observed": {"ran": ran, "expected_ran": want_ran, "raised": raised, "expected_raise": want_raise}})
                        if len(samples) < 3 and n >= 3:
                            samples.append({"shape": repr(shape), "ops": list(ops), "exit_codes": list(rcs), "ran": ran, "raised": raised})
    finally:
        XSH.env = saved_env
        XSH.lastcmd = saved_last
    return {"kind": "bounded", "evaluations": evals, "distinct_nontrivial": evals, "failures": failures, "exhaustive": False,
            "bound": "chains of up to %d commands: every binary nesting shape and the flat n-ary chain, every and/or labelling, every 0/1 exit-code assignment" % maxn,
            "domain": "real wrap_subproc_raise_checks + _mark_boolop_subproc_values + subproc_check_boolop, python BoolOp short-circuit on FakePipe.__bool__ (rc == 0)",
            "samples": samples}


native_check("C05", "chain-semantics", "bounded", chain_semantics,
             doc="AST pass and runtime decision executed together against reference short-circuit semantics")


# ---- bounded stand-in on real processes: what decides a chain when the operand is ![..], !(..) or $(..) ------------------------------------
_REAL_DRIVER = r'''
import json, os, sys, warnings
warnings.simplefilter("ignore")
os.environ["XONSH_NO_RC"] = "1"
from xonsh.main import setup
setup(shell_type="none")
from xonsh.built_ins import XSH
XSH.env["XONSH_SUBPROC_RAISE_ERROR"] = False
XSH.env["XONSH_SUBPROC_CMD_RAISE_ERROR"] = False
XSH.env["XONSH_SHOW_TRACEBACK"] = False
ran = []
def mark(args, stdin=None):
    ran.append(args[0]); return 0
XSH.aliases["mark"] = mark
out = []
for cid, src in json.load(open(sys.argv[1])):
    del ran[:]
    err = None
    try:
        XSH.execer.exec(src + "\n", glbs={"__xonsh__": XSH}, locs=None)
    except BaseException as e:
        err = type(e).__name__
    out.append([cid, list(ran), err])
print("RESULT " + json.dumps(out))
'''


def real_operands(tier, seed):
    import json
    import os
    import subprocess
    import sys
    import tempfile

    repo = os.environ.get("XV_REPO", "/repo")
    d = tempfile.mkdtemp(prefix="xv-c05r-", dir=os.environ.get("XV_SCRATCH"))
    kp = os.path.join(os.path.dirname(os.path.dirname(os.path.abspath(__file__))), "KNOWN_FINDINGS.json")
    known = [k for k in json.load(open(kp))["findings"] if k["property"] == "C05" and k.get("status") == "known" and k.get("native_class")]
    cases, meta = [], {}
    for form, tmpl in (("![]", "![sh -c '%s']"), ("!()", "!(sh -c '%s')"), ("$()", "$(sh -c '%s')"), ("bare", "sh -c '%s' e>/dev/null")):
        for rc in (0, 3):
            for writes in (False, True):
                if form in ("![]", "bare") and writes:
                    continue  # (their output would go to the terminal of the check)
                prog = ("echo out; " if writes else "") + "exit %d" % rc
                for op in ("&&", "||", "and", "or"):
                    cid = len(cases)
                    cases.append([cid, "%s %s mark second" % (tmpl % prog, op)])
                    meta[cid] = dict(form=form, rc=rc, writes=writes, op=op)
    failures, n, samples, known_hits = [], 0, [], {}
    try:
        json.dump(cases, open(os.path.join(d, "cases.json"), "w"))
        open(os.path.join(d, "driver.py"), "w").write(_REAL_DRIVER)
        p = subprocess.run([sys.executable, os.path.join(d, "driver.py"), os.path.join(d, "cases.json")], cwd=d, capture_output=True, text=True, timeout=900,
                           env=dict(os.environ, PYTHONPATH=repo + os.pathsep + os.environ.get("PYTHONPATH", "")), stdin=subprocess.DEVNULL)
        # (the terminal-title escape sequences xonsh prints come without a newline: the marker need not start a line)
        pos = p.stdout.rfind("RESULT [")
        if pos < 0:
            return {"kind": "bounded", "evaluations": 0, "distinct_nontrivial": 0, "failures": [], "exhaustive": False, "error": "driver failed: " + (p.stderr or p.stdout)[-500:],
                    "bound": "", "domain": "", "samples": []}
        for cid, ran, err in json.loads(p.stdout[pos + 7:].splitlines()[0]):
            n += 1
            m = meta[cid]
            want = (m["rc"] == 0) if m["op"] in ("&&", "and") else (m["rc"] != 0)
            obs = None
            if err:
                obs = "raised %s" % err
            elif (ran == ["second"]) != want:
                obs = "the second command %s although the first exited with %d" % ("ran" if ran else "did not run", m["rc"])
            if obs:
                hit = None
                for kf in known:
                    try:
                        if eval(kf["native_class"], dict(m, observed=obs)):
                            hit = kf
                            break
                    except Exception:
                        pass
                if hit:
                    known_hits[hit["id"]] = known_hits.get(hit["id"], 0) + 1
                    obs = None
            if obs and len(failures) < 5:
                failures.append({"clause": "a command runs iff short-circuit evaluation over exit codes reaches it", "inputs": dict(m, source=cases[cid][1]), "observed": obs})
            elif not obs and len(samples) < 3 and m["form"] == "!()":
                samples.append(dict(m))
    finally:
        import shutil
        shutil.rmtree(d, ignore_errors=True)
    return {"kind": "bounded", "evaluations": n, "distinct_nontrivial": n, "failures": failures, "exhaustive": False,
            "bound": "4 operand forms x exit 0 / 3 x output yes / no x 4 operators, second operand a recording alias", "domain": "real execer and real /bin/sh children",
            "samples": samples, "known_lines": ["KNOWN-FINDING: property=C05 %s [%s] (%d cases)" % (kf["text"], kf["id"], known_hits[kf["id"]]) for kf in known if kf["id"] in known_hits],
            "known_hits": known_hits}


native_check("C05", "real-operands-decide-by-exit-code", "bounded", real_operands, doc="![..] / !(..) / $(..) / bare operands of a two-command chain on real processes")
