"""C18 - bounded stand-ins on the real completer and the real shell (never counted as proved):
(1) file names x typed prefixes x opening-quote styles: the completion is spliced into the line the way the shell does it and the line is
    run through the real execer with a recording alias - exactly one argument, equal to the name;
(2) the command-line analyser on every string over a small alphabet up to a length bound and every cursor position: it never raises and
    the prefix / suffix of the argument under the cursor reproduce the text around the cursor."""
import json
import os
from pyvc.contract import *

HERE = os.path.dirname(os.path.dirname(os.path.abspath(__file__)))
NAMES = ["plain", "two words", "d'q", 'd"q', "do$lar", "back\\slash", "new\nline", "tab\tname", "in$\tout", "cr\rname", "a\\", "a'b\"c$d", "star*name", "q?mark", "~tilde",
         "-dash", "#hash", "and", "semi;colon", "pipe|name", "amp&name", "paren(name)", "brace{a,b}", "é日本", "sp  two", "end ", "$HOME", "`tick`", "a=b", "x:y", "@at", "!bang",
         "a\\tb", "in\\$x\ny", "q'\nline", "[sq]"] + ['x"y\'', 'both\'"', 'Bob\'s "final" draft \'', '\'lead"', '"\'', "tri'''ple"] + ["form\x0cfeed", "vert\x0btab", "bell\x07", "esc\x1bname", "low\x01ctl", "del\x7fchar"]

_DRIVER = r'''
import contextlib, io, os, sys, json, warnings
warnings.simplefilter("ignore")
os.environ["XONSH_NO_RC"] = "1"
from xonsh.main import setup
setup(env=(("XONSH_SUBPROC_CMD_RAISE_ERROR", False), ("XONSH_SHOW_TRACEBACK", False), ("XONSH_INTERACTIVE", False)))
from xonsh.built_ins import XSH
from xonsh.completers.path import complete_path
from xonsh.parsers.completion_context import CompletionContextParser
REC = []
def _rec(args):
    REC.append(list(args)); return 0
XSH.aliases["rec"] = _rec
PARSER = CompletionContextParser()
def read_back(line):
    del REC[:]
    try:
        with contextlib.redirect_stdout(io.StringIO()), contextlib.redirect_stderr(io.StringIO()):
            XSH.execer.exec(line + "\n", mode="single", glbs={}, locs=None)
    except BaseException as exc:
        return "%s: %s" % (type(exc).__name__, str(exc).split("\n")[0][:80])
    return [list(a) for a in REC]
mode, arg = sys.argv[1], sys.argv[2]
out = []
if mode == "names":
    names = json.loads(arg)
    for name in names:
        d = os.path.join(os.getcwd(), "d%d" % names.index(name))
        os.makedirs(d)
        os.chdir(d)
        try:
            open(name, "w").close()
        except OSError as e:
            os.chdir(".."); continue
        typed_forms = [""] + [name[:k] for k in (1, 2) if k <= len(name) and name[:k].isalnum()]
        typed_forms += ["'" + name[:1] if name[:1] not in "'\\\n\t\r" else "'", '"' + name[:1] if name[:1] not in '"\\$\n\t\r' else '"', "r'", "'", '"']
        for typed in dict.fromkeys(typed_forms):
            line = "rec " + typed
            try:
                ctx = PARSER.parse(line, len(line))
                comps, lprefix = complete_path(ctx) if ctx is not None else (set(), 0)
            except BaseException as e:
                out.append([name, typed, None, "completer raised %s: %s" % (type(e).__name__, e)]); continue
            for c in sorted(str(c) for c in comps):
                newline = line[: len(line) - lprefix] + c
                got = read_back(newline)
                ok = got == [[name]]
                out.append([name, typed, c, None if ok else "read back as %r" % (got,)])
        os.chdir("..")
else:
    import itertools
    alphabet, maxlen = json.loads(arg)
    n = 0
    for L in range(0, maxlen + 1):
        for tup in itertools.product(alphabet, repeat=L):
            text = "".join(tup)
            for cur in range(len(text) + 1):
                n += 1
                try:
                    ctx = PARSER.parse(text, cur)
                except BaseException as e:
                    out.append([text, cur, "raised %s: %s" % (type(e).__name__, str(e)[:60])]); continue
                if ctx is None or ctx.command is None:
                    continue
                cc = ctx.command
                pre, suf = cc.prefix, cc.suffix
                # the argument under the cursor, minus its quotes, is prefix + suffix; the raw text before the cursor ends with opening_quote + prefix
                before = text[:cur]
                closed = cc.opening_quote + pre + cc.closing_quote if getattr(cc, "is_after_closing_quote", False) else None
                if not before.endswith(cc.opening_quote + pre) and not before.endswith(pre) and not (closed is not None and before.endswith(closed)):
                    out.append([text, cur, "prefix %r (opening quote %r) is not what stands before the cursor" % (pre, cc.opening_quote)])
                elif not text[cur:].startswith(suf):
                    out.append([text, cur, "suffix %r is not what stands after the cursor (%r)" % (suf, text[cur:])])
    out.append(["__count__", n, None])
print("RESULT " + json.dumps(out))
'''


def _known(prop):
    p = os.path.join(HERE, "KNOWN_FINDINGS.json")
    return [k for k in json.load(open(p))["findings"] if k["property"] == prop and k.get("status") == "known" and k.get("native_class")]


def _run(mode, arg):
    import subprocess
    import sys
    import tempfile
    import shutil

    repo = os.environ.get("XV_REPO", "/repo")
    d = tempfile.mkdtemp(prefix="xv-c18-", dir=os.environ.get("XV_SCRATCH"))
    try:
        open(os.path.join(d, "driver.py"), "w").write(_DRIVER)
        work = os.path.join(d, "w")
        os.makedirs(work)
        p = subprocess.run([sys.executable, os.path.join(d, "driver.py"), mode, arg], cwd=work, capture_output=True, text=True, timeout=1500,
                           env=dict(os.environ, PYTHONPATH=repo + os.pathsep + os.environ.get("PYTHONPATH", ""), HOME=work), stdin=subprocess.DEVNULL)
        line = [l for l in p.stdout.splitlines() if l.startswith("RESULT ")]
        if not line:
            return None, "driver failed: " + (p.stderr or p.stdout)[-500:]
        return json.loads(line[0][7:]), None
    finally:
        shutil.rmtree(d, ignore_errors=True)


def completions(tier, seed):
    res, err = _run("names", json.dumps(NAMES))
    if res is None:
        return {"kind": "bounded", "evaluations": 0, "distinct_nontrivial": 0, "failures": [], "exhaustive": False, "error": err, "bound": "", "domain": "", "samples": []}
    known = _known("C18")
    failures, known_hits, n, nontrivial, samples = [], {}, 0, 0, []
    for name, typed, comp, obs in res:
        n += 1
        if obs is None:
            nontrivial += 1
            if len(samples) < 4 and any(ch in name for ch in "\n$'"):
                samples.append({"name": name, "typed": typed, "inserted": comp})
            continue
        hit = None
        for kf in known:
            try:
                if eval(kf["native_class"], {"name": name, "typed": typed, "inserted": comp, "observed": obs}):
                    hit = kf
                    break
            except Exception:
                pass
        if hit:
            known_hits[hit["id"]] = known_hits.get(hit["id"], 0) + 1
        elif len(failures) < 6:
            failures.append({"clause": "the inserted text is read back as exactly one argument equal to the file name", "inputs": {"name": name, "typed": typed, "inserted": comp}, "observed": obs})
    return {"kind": "bounded", "evaluations": n, "distinct_nontrivial": nontrivial, "failures": failures, "exhaustive": False,
            "bound": "%d file names (spaces, both quotes, $, backslashes, newline / tab / CR, glob and shell metacharacters, leading ~ - #, a keyword) x typed prefixes "
                     "(nothing, 1-2 characters, an opened ' / \" / r' with and without a first character)" % len(NAMES),
            "domain": "real complete_path + CompletionContextParser, spliced like Completer.complete_line does, read back through the real execer with a recording alias",
            "samples": samples, "known_lines": ["KNOWN-FINDING: property=C18 %s [%s] (%d completions)" % (kf["text"], kf["id"], known_hits[kf["id"]]) for kf in known if kf["id"] in known_hits],
            "known_hits": known_hits}


native_check("C18", "completions-read-back-as-the-name", "bounded", completions, doc="names x typed prefixes x quote styles through completer and execer")


def analyser(tier, seed):
    alphabet = ["a", " ", "'", '"', "|", "r", "\\", "$", "("]
    maxlen = 4 if tier == "quick" else 5
    res, err = _run("analyser", json.dumps([alphabet, maxlen]))
    if res is None:
        return {"kind": "bounded", "evaluations": 0, "distinct_nontrivial": 0, "failures": [], "exhaustive": False, "error": err, "bound": "", "domain": "", "samples": []}
    count = [r for r in res if r[0] == "__count__"][0][1]
    bad = [r for r in res if r[0] != "__count__"]
    failures = [{"clause": "analysis never fails; prefix and suffix reproduce the text around the cursor", "inputs": {"text": t, "cursor": c}, "observed": o} for t, c, o in bad[:6]]
    return {"kind": "bounded", "evaluations": count, "distinct_nontrivial": count - len(bad), "failures": failures, "exhaustive": False,
            "bound": "every string over %r of length <= %d, every cursor position" % (alphabet, maxlen),
            "domain": "real CompletionContextParser.parse", "samples": []}


native_check("C18", "analyser-never-fails-and-reproduces-the-text", "bounded", analyser, doc="all short strings x cursor positions through the completion-context parser")
