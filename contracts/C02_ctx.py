"""C02 - Python wins: the name-binding bookkeeping of the context-aware transformer (xonsh/parsers/ast.py CtxAwareTransformer).

`self.contexts` is a stack of name sets: contexts[0] the session namespace, contexts[1] the module scope of the source, one more per
enclosing def / class.  A statement is left as Python when its names are found in ANY of them.  The stack discipline is what makes
"bound earlier in the same source" mean the same thing as in Python:"""
from pyvc.contract import *

A = "xonsh/parsers/ast.py::"
CTXS = List(VSet(Str))
T_ = Obj("CtxAwareTransformer", contexts=CTXS)
SAME_BELOW = "forall(lambda k: self.contexts[k] == old(self.contexts)[k], 0, len(self.contexts) - 1)"
contract(
    A + "CtxAwareTransformer.ctxadd", "C02", params=dict(self=T_, value=Str), modifies=["self.contexts"],
    requires={"inside-a-transform": "len(self.contexts) >= 2"},
    ensures={"binds-in-the-innermost-scope": "len(self.contexts) == old(len(self.contexts)) and value in self.contexts[len(self.contexts) - 1] and "
             "forall_str(lambda x: implies(x != value, (x in self.contexts[len(self.contexts) - 1]) == (x in old(self.contexts)[len(self.contexts) - 1])))",
             "and-nowhere-else": SAME_BELOW},
    from_property="bound earlier in the same source by assignment, import, def, class ... (the binding lands in the scope the statement is in)",
)
contract(
    A + "CtxAwareTransformer.ctxupdate", "C02", params=dict(self=T_, iterable=Seq(Str)), modifies=["self.contexts"],
    requires={"inside-a-transform": "len(self.contexts) >= 2"},
    ensures={"binds-every-name-in-the-innermost-scope": "len(self.contexts) == old(len(self.contexts)) and "
             "forall(lambda j: iterable[j] in self.contexts[len(self.contexts) - 1], 0, len(iterable)) and "
             "forall_str(lambda x: implies(x in old(self.contexts)[len(self.contexts) - 1], x in self.contexts[len(self.contexts) - 1]))",
             "nothing-that-was-not-named": "forall_str(lambda x: implies(x in self.contexts[len(self.contexts) - 1] and not (x in old(self.contexts)[len(self.contexts) - 1]), "
                                           "exists(lambda j: iterable[j] == x, 0, len(iterable))))",
             "and-nowhere-else": SAME_BELOW},
    from_property="bound ... by for, with, import, function parameters (all of them, in the innermost scope only)",
)
N = "len(self.contexts)"
INNERMOST_WITH = "exists(lambda k: value in old(self.contexts)[k] and forall(lambda m: value not in old(self.contexts)[m], k + 1, %s) and %%s, 0, %s)" % (N, N)
contract(
    A + "CtxAwareTransformer.ctxremove", "C02", params=dict(self=T_, value=Str), modifies=["self.contexts"],
    requires={"inside-a-transform": "len(self.contexts) >= 2"},
    loops={"for#1": dict(invariant={
        "nothing-touched-yet": "self.contexts == pre(self.contexts)",
        "the-scopes-already-passed-do-not-have-it": "forall(lambda m: value not in self.contexts[m], len(self.contexts) - _i, len(self.contexts))"},
        havoc_only=[], havoc_exprs=["self.contexts"])},
    ensures={
        "deleting-unbinds-in-the-innermost-scope-that-has-the-name-only":
            "len(self.contexts) == old(len(self.contexts)) and forall(lambda k: forall_str(lambda x: (x in self.contexts[k]) == "
            "(x in old(self.contexts)[k] and not (x == value and forall(lambda m: value not in old(self.contexts)[m], k + 1, %s)))), 0, %s)" % (N, N)},
    from_property="deleting the name returns later lines to command interpretation (in that scope: an outer binding of the same name stays, as in Python)",
)
contract(
    A + "CtxAwareTransformer.visit_Global", "C02", params=dict(self=T_, node=Obj("Global", names=Seq(Str))), modifies=["self.contexts"],
    externals={"self.generic_visit": Ext(), "CtxAwareTransformer.generic_visit": Ext()},
    requires={"inside-a-transform": "len(self.contexts) >= 2"},
    ensures={"the-names-become-module-level-names": "len(self.contexts) == old(len(self.contexts)) and forall(lambda j: node.names[j] in self.contexts[1], 0, len(node.names))",
             "no-other-scope-changes": "forall(lambda k: implies(k != 1, self.contexts[k] == old(self.contexts)[k]), 0, len(self.contexts))",
             "module-scope-only-grows-by-them": "forall_str(lambda x: implies(x in self.contexts[1] and not (x in old(self.contexts)[1]), exists(lambda j: node.names[j] == x, 0, len(node.names))))"},
    from_property="bound ... by global (a `global x` inside a function makes x a module-level name for the lines after the function)",
)

# ---- def / class open a new innermost scope for their body and close it again ---------------------------------------------
VISIT_EXT = {
    "self.generic_visit": Ext(havoc=["self.contexts"], ensures=["len(self.contexts) == old(len(self.contexts))"],
                              note="visits the body (with-body hypothesis: the scope stack has the same depth afterwards - every visitor here pops what it pushes)"),
    "CtxAwareTransformer.generic_visit": Ext(havoc=["self.contexts"], ensures=["len(self.contexts) == old(len(self.contexts))"]),
}
DEFNODE = Obj("DefNode", name=Str)
OPENED = ("len(self.contexts) == old(len(self.contexts)) + 1 and node.name in self.contexts[len(self.contexts) - 2] and "
          "forall(lambda k: self.contexts[k] == old(self.contexts)[k], 0, len(self.contexts) - 2) and "
          "forall_str(lambda x: implies(x != node.name, (x in self.contexts[len(self.contexts) - 2]) == (x in old(self.contexts)[len(self.contexts) - 2])))")
contract(
    A + "CtxAwareTransformer.visit_ClassDef", "C02", params=dict(self=T_, node=DEFNODE), modifies=["self.contexts"], externals=VISIT_EXT, config={"default_set_elem": Str},
    calls={"CtxAwareTransformer.ctxadd": A + "CtxAwareTransformer.ctxadd"},
    requires={"inside-a-transform": "len(self.contexts) >= 2"},
    asserts=[dict(before="self.generic_visit(node)", label="the-body-is-visited-in-a-fresh-empty-scope-above-the-one-that-got-the-name",
                  clause=OPENED + " and forall_str(lambda x: not (x in self.contexts[len(self.contexts) - 1]))")],
    ensures={"the-scope-is-closed-again": "len(self.contexts) == old(len(self.contexts))"},
    from_property="bound ... by def, class ... at which point and scope depth of the source (a class / function body is its own scope; its name belongs to the enclosing one)",
)
contract(
    A + "CtxAwareTransformer.visit_FunctionDef", "C02", params=dict(self=T_, node=DEFNODE), modifies=["self.contexts"], externals=VISIT_EXT, config={"default_set_elem": Str},
    calls={"CtxAwareTransformer.ctxadd": A + "CtxAwareTransformer.ctxadd"},
    requires={"inside-a-transform": "len(self.contexts) >= 2"},
    locals={"args": Opaque("arguments"), "argchain": Opaque("argchain")},
    abstract=[dict(line_contains="args = node.args", may_raise=False, reason="parameter list of the node"),
              dict(line_contains="argchain = [", may_raise=False, reason="parameter groups"),
              dict(line_contains="if args.vararg is not None:", may_raise=False, reason="*args"),
              dict(line_contains="if args.kwarg is not None:", may_raise=False, reason="**kwargs"),
              dict(line_contains="self.ctxupdate(a.arg for a in", may_raise=False, havoc=["self.contexts"],
                   keep_below_top=True,
                   reason="binds the parameter names: ASSUMED to change the innermost scope only (that is ctxupdate's verified contract; the generator argument is not modelled)")],
    asserts=[dict(before="args = node.args", label="a-fresh-scope-is-opened-before-the-parameters-are-bound", clause=OPENED + " and forall_str(lambda x: not (x in self.contexts[len(self.contexts) - 1]))"),
             dict(before="self.generic_visit(node)", label="the-enclosing-scopes-got-the-function-name-and-nothing-else", clause=OPENED)],
    ensures={"the-scope-is-closed-again": "len(self.contexts) == old(len(self.contexts))"},
    from_property="bound ... by def ... or a function parameter (parameters belong to the function's own scope, its name to the enclosing one)",
)

LAMBDA_OPENED = ("len(self.contexts) == old(len(self.contexts)) + 1 and forall(lambda k: self.contexts[k] == old(self.contexts)[k], 0, old(len(self.contexts)))")
contract(
    A + "CtxAwareTransformer.visit_Lambda", "C02", params=dict(self=T_, node=Opaque("lambdanode")), modifies=["self.contexts"], externals=VISIT_EXT, config={"default_set_elem": Str},
    requires={"inside-a-transform": "len(self.contexts) >= 2"},
    locals={"args": Opaque("arguments"), "argchain": Opaque("argchain")},
    abstract=[dict(line_contains="args = node.args", may_raise=False, reason="parameter list of the node"),
              dict(line_contains="argchain = [", may_raise=False, reason="parameter groups"),
              dict(line_contains="if args.vararg is not None:", may_raise=False, reason="*args"),
              dict(line_contains="if args.kwarg is not None:", may_raise=False, reason="**kwargs"),
              dict(line_contains="self.ctxupdate(a.arg for a in", may_raise=False, havoc=["self.contexts"], keep_below_top=True,
                   reason="binds the parameter names: ASSUMED to change the innermost scope only (ctxupdate's verified contract)")],
    asserts=[dict(before="args = node.args", label="a-fresh-scope-is-opened-before-the-parameters-are-bound-and-the-enclosing-scopes-are-untouched",
                  clause=LAMBDA_OPENED + " and forall_str(lambda x: not (x in self.contexts[len(self.contexts) - 1]))"),
             dict(before="self.generic_visit(node)", label="the-body-is-visited-inside-that-scope", clause=LAMBDA_OPENED)],
    ensures={"the-scope-is-closed-again": "len(self.contexts) == old(len(self.contexts))"},
    from_property="bound ... by ... a function parameter (a lambda's parameters are names of its body - `lambda x: not x` - and of nothing else; added with fix e08f775)",
)


# ---- the binding visitors: each one binds exactly the names Python binds, in the innermost scope ------------------------------
ALIAS = Rec("alias", name=Str, asname=Union(NoneT, Str))
IMPORT = Obj("Import", names=Seq(ALIAS))
TOPN = "(node.names[j].asname if node.names[j].asname is not None else node.names[j].name.partition('.')[0])"
TOP = len("len(self.contexts) - 1") and "self.contexts[len(self.contexts) - 1]"
for _v, _bound, _why in (
        ("visit_Import", TOPN, "`import a.b.c` binds a; `import a.b as x` binds x"),
        ("visit_ImportFrom", "(node.names[j].asname if node.names[j].asname is not None else node.names[j].name)", "`from m import n` binds n; `... as x` binds x")):
    contract(
        A + "CtxAwareTransformer." + _v, "C02", params=dict(self=T_, node=IMPORT), modifies=["self.contexts"],
        calls={"CtxAwareTransformer.ctxadd": A + "CtxAwareTransformer.ctxadd"},
        requires={"inside-a-transform": "len(self.contexts) >= 2"},
        loops={"for#1": dict(invariant={
            "bound-so-far": "len(self.contexts) == pre(len(self.contexts)) and forall(lambda j: %s in %s, 0, _i)" % (_bound, TOP),
            "other-scopes-untouched": "forall(lambda k: self.contexts[k] == pre(self.contexts)[k], 0, len(self.contexts) - 1)",
            "innermost-scope-only-grows": "forall_str(lambda x: implies(x in pre(self.contexts)[len(self.contexts) - 1], x in %s))" % TOP},
            havoc_only=[], havoc_exprs=["self.contexts"])},
        ensures={"binds-the-name-python-binds-for-every-clause": "len(self.contexts) == old(len(self.contexts)) and forall(lambda j: %s in %s, 0, len(node.names))" % (_bound, TOP),
                 "in-the-innermost-scope-only": SAME_BELOW},
        from_property="bound earlier in the same source by ... import (%s)" % _why,
    )

NAMES_EXT = {
    "leftmostname": Ext(ret=Str, pure=True, uf="leftmost", note="the name an assignment target binds (ghost: helper not verified)"), "leftmost": Ext(ret=Str, pure=True, uf="leftmost"),
    "self.generic_visit": VISIT_EXT["self.generic_visit"], "CtxAwareTransformer.generic_visit": VISIT_EXT["CtxAwareTransformer.generic_visit"],
}
ANN = Obj("AnnAssign", target=Opaque("target"))
contract(
    A + "CtxAwareTransformer.visit_AnnAssign", "C02", params=dict(self=T_, node=ANN), modifies=["self.contexts"], externals=NAMES_EXT,
    calls={"CtxAwareTransformer.ctxadd": A + "CtxAwareTransformer.ctxadd"},
    requires={"inside-a-transform": "len(self.contexts) >= 2"},
    asserts=[dict(before="self.generic_visit(node)", label="the-target-is-bound-before-the-value-is-visited",
                  clause="len(self.contexts) == old(len(self.contexts)) and leftmost(node.target) in %s and %s" % (TOP, SAME_BELOW))],
    ensures={"depth-kept": "len(self.contexts) == old(len(self.contexts))"},
    from_property="bound earlier in the same source by assignment (annotated form)",
)
WALRUS = Obj("NamedExpr", target=Obj("Name", id=Str))
contract(
    A + "CtxAwareTransformer.visit_NamedExpr", "C02", params=dict(self=T_, node=WALRUS), modifies=["self.contexts"], externals=NAMES_EXT,
    calls={"CtxAwareTransformer.ctxadd": A + "CtxAwareTransformer.ctxadd"},
    requires={"inside-a-transform": "len(self.contexts) >= 2"},
    asserts=[dict(before="self.generic_visit(node)", label="the-walrus-target-is-bound",
                  clause="len(self.contexts) == old(len(self.contexts)) and node.target.id in %s and %s" % (TOP, SAME_BELOW))],
    ensures={"depth-kept": "len(self.contexts) == old(len(self.contexts))"},
    from_property="bound earlier in the same source by ... walrus",
)
HANDLER = Rec("handler", name=Union(NoneT, Str))
TRY = Obj("Try", handlers=Seq(HANDLER))
contract(
    A + "CtxAwareTransformer.visit_Try", "C02", params=dict(self=T_, node=TRY), modifies=["self.contexts"], externals=NAMES_EXT,
    calls={"CtxAwareTransformer.ctxadd": A + "CtxAwareTransformer.ctxadd"},
    requires={"inside-a-transform": "len(self.contexts) >= 2"},
    loops={"for#1": dict(invariant={
        "bound-so-far": "len(self.contexts) == pre(len(self.contexts)) and forall(lambda j: implies(node.handlers[j].name is not None, node.handlers[j].name in %s), 0, _i)" % TOP,
        "other-scopes-untouched": "forall(lambda k: self.contexts[k] == pre(self.contexts)[k], 0, len(self.contexts) - 1)",
        "innermost-scope-only-grows": "forall_str(lambda x: implies(x in pre(self.contexts)[len(self.contexts) - 1], x in %s))" % TOP},
        havoc_only=[], havoc_exprs=["self.contexts"])},
    asserts=[dict(before="self.generic_visit(node)", label="every-`except-..-as-name`-is-bound-before-the-bodies-are-visited",
                  clause="len(self.contexts) == old(len(self.contexts)) and forall(lambda j: implies(node.handlers[j].name is not None, node.handlers[j].name in %s), 0, len(node.handlers)) and %s" % (TOP, SAME_BELOW))],
    ensures={"depth-kept": "len(self.contexts) == old(len(self.contexts))"},
    from_property="bound earlier in the same source by ... except",
)
TARG = Union(Rec("NameT", id=Str), Opaque("othertarget"))
DEL = Obj("Delete", targets=Seq(TARG))
contract(
    A + "CtxAwareTransformer.visit_Delete", "C02", params=dict(self=T_, node=DEL), modifies=["self.contexts"], externals=NAMES_EXT,
    config={"isinstance": {"Name": ["NameT"]}},
    calls={"CtxAwareTransformer.ctxremove": A + "CtxAwareTransformer.ctxremove"},
    requires={"inside-a-transform": "len(self.contexts) >= 2"},
    loops={"for#1": dict(invariant={"same-depth-and-only-shrinking": "len(self.contexts) == pre(len(self.contexts)) and "
                                    "forall(lambda k: forall_str(lambda x: implies(x in self.contexts[k], x in pre(self.contexts)[k])), 0, len(self.contexts))"},
                         havoc_only=[], havoc_exprs=["self.contexts"])},
    ensures={"depth-kept": "len(self.contexts) == old(len(self.contexts))"},
    asserts=[dict(before="self.generic_visit(node)", label="del-never-binds-anything",
                  clause="forall(lambda k: forall_str(lambda x: implies(x in self.contexts[k], x in old(self.contexts)[k])), 0, len(self.contexts))")],
    from_property="deleting the name returns later lines to command interpretation (del only ever removes names; which one: ctxremove's contract)",
)


# ---- with / for: every `as` target (for: the loop target) is bound, whatever stands before it -----------------------------------
WITHITEM = Rec("withitem", optional_vars=Union(NoneT, Opaque("target")))
WITH = Obj("With", items=Seq(WITHITEM))
GATHER_EXT = dict(NAMES_EXT)
GATHER_EXT.update({"gather_names": Ext(ret=Seq(Str), pure=True, uf="names_of", note="the names a target binds (helper not verified)"),
                   "names_of": Ext(ret=Seq(Str), pure=True, uf="names_of")})
T_W = Obj("CtxAwareTransformer", contexts=CTXS, _nwith=Int)
BOUND_W = "forall(lambda j: implies(node.items[j].optional_vars is not None, forall(lambda m: names_of(node.items[j].optional_vars)[m] in %s, 0, len(names_of(node.items[j].optional_vars)))), 0, %%s)" % TOP
contract(
    A + "CtxAwareTransformer.visit_With", "C02", params=dict(self=T_W, node=WITH), modifies=["self.contexts", "self"], externals=GATHER_EXT,
    calls={"CtxAwareTransformer.ctxupdate": A + "CtxAwareTransformer.ctxupdate"},
    requires={"inside-a-transform": "len(self.contexts) >= 2"},
    loops={"for#1": dict(invariant={
        "every-`as`-target-so-far-is-bound": "len(self.contexts) == pre(len(self.contexts)) and " + BOUND_W % "_i",
        "other-scopes-untouched": "forall(lambda k: self.contexts[k] == pre(self.contexts)[k], 0, len(self.contexts) - 1)",
        "innermost-scope-only-grows": "forall_str(lambda x: implies(x in pre(self.contexts)[len(self.contexts) - 1], x in %s))" % TOP},
        havoc_only=[], havoc_exprs=["self.contexts"])},
    asserts=[dict(before="self._nwith += 1", label="every-`as`-target-of-every-item-is-bound-before-the-body-is-visited",
                  clause="len(self.contexts) == old(len(self.contexts)) and " + BOUND_W % "len(node.items)" + " and " + SAME_BELOW)],
    ensures={"depth-kept": "len(self.contexts) == old(len(self.contexts))"},
    from_property="bound earlier in the same source by ... with (every item of a multi-item with, whether or not the items before it have an `as`)",
)
FOR = Obj("For", target=Opaque("target"))
contract(
    A + "CtxAwareTransformer.visit_For", "C02", params=dict(self=T_, node=FOR), modifies=["self.contexts"], externals=GATHER_EXT,
    calls={"CtxAwareTransformer.ctxupdate": A + "CtxAwareTransformer.ctxupdate"},
    requires={"inside-a-transform": "len(self.contexts) >= 2"}, locals={"targ": Opaque("target")},
    asserts=[dict(before="self.generic_visit(node)", label="the-loop-target-is-bound-before-the-body-is-visited",
                  clause="len(self.contexts) == old(len(self.contexts)) and forall(lambda m: names_of(node.target)[m] in %s, 0, len(names_of(node.target))) and %s" % (TOP, SAME_BELOW))],
    ensures={"depth-kept": "len(self.contexts) == old(len(self.contexts))"},
    from_property="bound earlier in the same source by ... for",
)


# ---- the decision itself: a statement is Python exactly when every name it READS is bound in SOME enclosing scope -----------------------
NAMESET = VSet(Str)
SCOPE_EXT = {
    "gather_load_store_names": Ext(ret=Tuple(NAMESET, NAMESET), pure=True, uf="load_store", note="ghost: (names the node reads, names it binds) - the walk itself is covered by the bounded probes"),
    "load_store": Ext(ret=Tuple(NAMESET, NAMESET), pure=True, uf="load_store"),
}
READS = "(x in load_store(node)[0] and x not in load_store(node)[1])"
BOUND_SOMEWHERE = "exists(lambda k: x in self.contexts[k], 0, len(self.contexts))"
contract(
    A + "CtxAwareTransformer.is_in_scope", "C02", params=dict(self=T_, node=Opaque("node")), externals=SCOPE_EXT, returns=Bool,
    locals={"names": NAMESET, "store": NAMESET, "inscope": Bool},
    loops={"for#1": dict(invariant={
        "still-missing-are-the-read-names-found-in-none-of-the-scopes-passed":
            "forall_str(lambda x: (x in names) == (%s and forall(lambda k: x not in self.contexts[k], len(self.contexts) - _i, len(self.contexts))))" % READS,
        "something-is-still-missing": "exists_str(lambda x: x in names)",
        "not-decided-yet": "not inscope"},
        havoc_only=[])},
    ensures={"python-exactly-when-every-name-read-is-bound-in-some-enclosing-scope":
             "result == forall_str(lambda x: implies(%s, %s))" % (READS, BOUND_SOMEWHERE)},
    from_property="When every name a statement reads is defined - as a Python builtin, a name already in the session, or bound earlier in the same source ... - xonsh "
                  "executes it with exactly Python's meaning (the decision: all read names are found in the scope stack; names the statement itself binds do not count)",
)
