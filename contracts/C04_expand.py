"""C04 - arguments reach the command exactly as written: the documented `~` expansion of a non-raw word (xonsh/tools.py expand_path).

Bash's rule, which the function cites: a word `key=value` gets a tilde expansion of `key`, and of EACH ':'-separated field of
`value` on its own; any other word gets one tilde expansion.  Nothing else may happen to the text: no field is dropped, added or
merged.  expanduser(p) is a ghost function (os.path.expanduser; it leaves text not starting with `~` alone - ASSUMED)."""
from pyvc.contract import *

TL = "xonsh/tools.py::"
EXT = {
    "expanduser": Ext(ret=Str, pure=True, uf="tilde"), "tilde": Ext(ret=Str, pure=True, uf="tilde"),
    "expandvars": Ext(ret=Str, pure=True, uf="dollar"), "dollar": Ext(ret=Str, pure=True, uf="dollar"),
    'Env.get("EXPAND_ENV_VARS")': Ext(ret=Bool, pure=True, uf="expand_env"), 'Env.get("XONSH_SUBPROC_ARG_EXPANDUSER")': Ext(ret=Bool, pure=True, uf="expand_user_on"),
    "expand_env": Ext(ret=Bool, pure=True, uf="expand_env"), "expand_user_on": Ext(ret=Bool, pure=True, uf="expand_user_on"),
}
S1 = "(dollar(s) if expand_env('EXPAND_ENV_VARS', False) else s)"
ON = "(expand_user and expand_user_on('XONSH_SUBPROC_ARG_EXPANDUSER', True))"
contract(
    TL + "expand_path", "C04", params=dict(s=Str, expand_user=Bool), globals={"xsh": Obj("XSH", env=Obj("Env")), "os.pathsep": ":"}, externals=EXT, returns=Str,
    locals={"pre": Str, "char": Str, "post": Str},
    ensures={
        "untouched-when-both-expansions-are-off": "implies(not expand_env('EXPAND_ENV_VARS', False) and not %s, result == s)" % ON,
        "a-plain-word-gets-exactly-one-tilde-expansion": "implies(%s and '=' not in %s, result == tilde(%s))" % (ON, S1, S1),
        "no-tilde-expansion-when-switched-off": "implies(not %s, result == %s)" % (ON, S1),
        "key=value:-the-key-and-EACH-colon-separated-field-of-the-value-is-expanded-on-its-own-none-dropped-added-or-merged":
            "implies(%(ON)s and '=' in %(S)s, result == tilde(%(S)s.partition('=')[0]) + '=' + ':'.join(map(expanduser, %(S)s.partition('=')[2].split(':'))))" % dict(ON=ON, S=S1),
    },
    asserts=[dict(before="s += os.pathsep.join(", label="the-key-is-expanded-and-the-=-kept", clause="s == tilde(pre) + '=' and char == '='")],
    from_property="a quoted Python string literal becomes exactly one argument whose value is the string's Python value (after the documented $VAR/~ expansion for non-raw strings)",
)


# ---- @() injection: one argument per string or element, each string untouched ------------------------------------------------
BI = "xonsh/built_ins.py::"
OTHER = Opaque("pyobj")          # any other python value (ints, paths, ...)
FN = Opaque("fn")
XV = Union(Str, Bytes, FN, OTHER)
INJ_EXT = {
    "os.fsdecode": Ext(ret=Str, pure=True, uf="fsdecode"), "fsdecode": Ext(ret=Str, pure=True, uf="fsdecode"),
    "str": Ext(ret=Str, pure=True, uf="textof"), "textof": Ext(ret=Str, pure=True, uf="textof"),
}
contract(
    BI + "ensure_str_or_callable", "C04", params=dict(x=XV), externals=INJ_EXT, returns=Union(Str, FN),
    config={"isinstance": {"str": ["str"], "bytes": ["bytes"]}, "callable_types": ("fn",)},
    ensures={"a-string-is-returned-untouched": "implies(isinstance(x, str), result == x)",
             "a-callable-is-returned-untouched": "implies(callable(x), result == x)",
             "bytes-are-decoded-the-way-the-os-would": "implies(isinstance(x, bytes), result == fsdecode(x))"},
    from_property="a value injected with @(expr) arrives verbatim ... never re-split, globbed or expanded",
)
_LEXT = dict(INJ_EXT, **{"ensure_str_or_callable": Ext(ret=Union(Str, FN), pure=True, uf="ensured", ensures=["implies(isinstance(a0, str), result == a0)"],
                                                      note="its own contract (a string is returned untouched)"),
                        "ensured": Ext(ret=Union(Str, FN), pure=True, uf="ensured")})
_LCFG = {"isinstance": {"str": ["str"], "bytes": ["bytes"], "cabc.Iterable": ["seq"], "Iterable": ["seq"]}, "callable_types": ("fn",)}
# one contract per shape of the injected value (so that no clause has to look inside a union)
contract(
    BI + "list_of_strs_or_callables", "C04", variant_id="string", params=dict(x=Str), returns=List(Union(Str, FN)), externals=_LEXT, config=_LCFG,
    ensures={"a-string-ANY-string-the-empty-one-included-is-exactly-one-argument-equal-to-it": "len(result) == 1 and result[0] == x"},
    from_property="a value injected with @(expr) arrives verbatim, one argument per string or element, never re-split, globbed or expanded",
)
contract(
    BI + "list_of_strs_or_callables", "C04", variant_id="list", params=dict(x=Seq(Str)), returns=List(Union(Str, FN)), externals=_LEXT, config=_LCFG,
    ensures={"a-list-of-strings-is-one-argument-per-element-in-order-each-untouched": "len(result) == len(x) and forall(lambda j: result[j] == x[j], 0, len(x))"},
    from_property="a value injected with @(expr) arrives verbatim, one argument per string or element, never re-split, globbed or expanded",
)
