"""C04 - arguments reach the command exactly as written: the documented `~` expansion of a non-raw word (xonsh/tools.py expand_path).

Bash's rule, which the function cites: a word `key=value` gets a tilde expansion of `key`, and of EACH ':'-separated field of
`value` on its own; any other word gets one tilde expansion.  Nothing else may happen to the text: no field is dropped, added or
merged.  expanduser(p) is a ghost function (os.path.expanduser; it leaves text not starting with `~` alone - ASSUMED)."""
from pyvc.contract import *

TL = "xonsh/tools.py::"
EXT = {
    "expanduser": Ext(ret=Str, pure=True, uf="tilde"), "tilde": Ext(ret=Str, pure=True, uf="tilde"),
    "expandvars": Ext(ret=Str, pure=True, uf="dollar"), "dollar": Ext(ret=Str, pure=True, uf="dollar"),
    'Env.get("EXPAND_ENV_VARS")': Ext(ret=Bool, pure=True, uf="expand_env"), 'Env.get("XONSH_SUBPROC_ARG_EXPANDUSER")': Ext(ret=Bool, pure=True, uf="expand_user_on"),
    "expand_env": Ext(ret=Bool, pure=True, uf="expand_env"), "expand_user_on": Ext(ret=Bool, pure=True, uf="expand_user_on"),
}
S1 = "(dollar(s) if expand_env('EXPAND_ENV_VARS', False) else s)"
ON = "(expand_user and expand_user_on('XONSH_SUBPROC_ARG_EXPANDUSER', True))"
contract(
    TL + "expand_path", "C04", params=dict(s=Str, expand_user=Bool), globals={"xsh": Obj("XSH", env=Obj("Env")), "os.pathsep": ":"}, externals=EXT, returns=Str,
    locals={"pre": Str, "char": Str, "post": Str},
    ensures={
        "untouched-when-both-expansions-are-off": "implies(not expand_env('EXPAND_ENV_VARS', False) and not %s, result == s)" % ON,
        "a-plain-word-gets-exactly-one-tilde-expansion": "implies(%s and '=' not in %s, result == tilde(%s))" % (ON, S1, S1),
        "no-tilde-expansion-when-switched-off": "implies(not %s, result == %s)" % (ON, S1),
        "key=value:-the-key-and-EACH-colon-separated-field-of-the-value-is-expanded-on-its-own-none-dropped-added-or-merged":
            "implies(%(ON)s and '=' in %(S)s, result == tilde(%(S)s.partition('=')[0]) + '=' + ':'.join(map(expanduser, %(S)s.partition('=')[2].split(':'))))" % dict(ON=ON, S=S1),
    },
    asserts=[dict(before="s += os.pathsep.join(", label="the-key-is-expanded-and-the-=-kept", clause="s == tilde(pre) + '=' and char == '='")],
    from_property="a quoted Python string literal becomes exactly one argument whose value is the string's Python value (after the documented $VAR/~ expansion for non-raw strings)",
)


# ---- @() injection: one argument per string or element, each string untouched ------------------------------------------------
BI = "xonsh/built_ins.py::"
OTHER = Opaque("pyobj")          # any other python value (ints, paths, ...)
FN = Opaque("fn")
XV = Union(Str, Bytes, FN, OTHER)
INJ_EXT = {
    "os.fsdecode": Ext(ret=Str, pure=True, uf="fsdecode"), "fsdecode": Ext(ret=Str, pure=True, uf="fsdecode"),
    "str": Ext(ret=Str, pure=True, uf="textof"), "textof": Ext(ret=Str, pure=True, uf="textof"),
}
contract(
    BI + "ensure_str_or_callable", "C04", params=dict(x=XV), externals=INJ_EXT, returns=Union(Str, FN),
    config={"isinstance": {"str": ["str"], "bytes": ["bytes"]}, "callable_types": ("fn",)},
    ensures={"a-string-is-returned-untouched": "implies(isinstance(x, str), result == x)",
             "a-callable-is-returned-untouched": "implies(callable(x), result == x)",
             "bytes-are-decoded-the-way-the-os-would": "implies(isinstance(x, bytes), result == fsdecode(x))"},
    from_property="a value injected with @(expr) arrives verbatim ... never re-split, globbed or expanded",
)
_LEXT = dict(INJ_EXT, **{"ensure_str_or_callable": Ext(ret=Union(Str, FN), pure=True, uf="ensured", ensures=["implies(isinstance(a0, str), result == a0)"],
                                                      note="its own contract (a string is returned untouched)"),
                        "ensured": Ext(ret=Union(Str, FN), pure=True, uf="ensured")})
_LCFG = {"isinstance": {"str": ["str"], "bytes": ["bytes"], "cabc.Iterable": ["seq"], "Iterable": ["seq"]}, "callable_types": ("fn",)}
# one contract per shape of the injected value (so that no clause has to look inside a union)
contract(
    BI + "list_of_strs_or_callables", "C04", variant_id="string", params=dict(x=Str), returns=List(Union(Str, FN)), externals=_LEXT, config=_LCFG,
    ensures={"a-string-ANY-string-the-empty-one-included-is-exactly-one-argument-equal-to-it": "len(result) == 1 and result[0] == x"},
    from_property="a value injected with @(expr) arrives verbatim, one argument per string or element, never re-split, globbed or expanded",
)
contract(
    BI + "list_of_strs_or_callables", "C04", variant_id="list", params=dict(x=Seq(Str)), returns=List(Union(Str, FN)), externals=_LEXT, config=_LCFG,
    ensures={"a-list-of-strings-is-one-argument-per-element-in-order-each-untouched": "len(result) == len(x) and forall(lambda j: result[j] == x[j], 0, len(x))"},
    from_property="a value injected with @(expr) arrives verbatim, one argument per string or element, never re-split, globbed or expanded",
)


# ---- weaving @() lists into the command: every element contributes its strings in order, nothing is re-split or merged ----------------
SPX = "xonsh/procs/specs.py::"
REDIR_IN = Tuple(Str, Seq(Str))           # ('>', ['file'])   as the parser leaves it
REDIR_OUT = Tuple(Str, Str)               # ('>', 'file')
ARG_IN = Union(Str, Seq(Str), REDIR_IN)   # a word, the strings of an @() list, a redirect
ARG_OUT = Union(Str, REDIR_OUT, REDIR_IN)
FLAT_EXT = {"woven": Ext(ret=Seq(ARG_OUT), pure=True, uf="woven", args=[Seq(ARG_IN)], note="ghost: the weave, DEFINED by the two axioms below")}
C0 = "old(self.cmd)"
FLAT_AXIOMS = {
    "weave-of-nothing": "len(woven(%s[:0])) == 0" % C0,
    "a-word-adds-exactly-itself": "forall(lambda k: implies(isinstance(%(C)s[k], str), woven(%(C)s[:k + 1]) == woven(%(C)s[:k]) + [narrow(%(C)s[k])]), 0, len(%(C)s))" % dict(C=C0),
    "an-injected-list-adds-its-strings-in-order-each-as-one-argument": "forall(lambda k: implies(isinstance(%(C)s[k], list), woven(%(C)s[:k + 1]) == woven(%(C)s[:k]) + narrow(%(C)s[k])), 0, len(%(C)s))" % dict(C=C0),
    "a-redirect-with-one-target-adds-the-pair-operator-target":
        "forall(lambda k: implies(isinstance(%(C)s[k], tuple) and len(%(C)s[k][1]) == 1, woven(%(C)s[:k + 1]) == woven(%(C)s[:k]) + [(narrow(%(C)s[k])[0], narrow(%(C)s[k])[1][0])]), 0, len(%(C)s))" % dict(C=C0),
    "any-other-redirect-shape-is-passed-on-as-it-is (rejected later)":
        "forall(lambda k: implies(isinstance(%(C)s[k], tuple) and len(%(C)s[k][1]) != 1, woven(%(C)s[:k + 1]) == woven(%(C)s[:k]) + [narrow(%(C)s[k])]), 0, len(%(C)s))" % dict(C=C0),
}
for _prop_ral, _from_ral in (("C04", "a value injected with @(expr) arrives verbatim, one argument per string or element, never re-split (the weave is defined by four axioms: a word adds itself, "
                              "an injected list adds its strings in order, a redirect adds its (operator, target) pair)"),
                             ("C07", "conflicting or malformed redirects are reported as errors rather than silently misrouted (a redirect whose target expands to several words is passed on "
                              "UNCHANGED, so that resolve_redirects rejects it - it is never cut down to its first word)")):
    contract(
        SPX + "SubprocSpec.resolve_args_list", _prop_ral, params=dict(self=Obj("SubprocSpec", cmd=List(ARG_IN))), locals={"resolved_cmd": List(ARG_OUT)},
        config={"isinstance": {"str": ["str"], "list": ["seq"], "tuple": ["tuple"]}, "injseq_fn": True}, externals=FLAT_EXT, axioms=FLAT_AXIOMS,
        modifies=["self.cmd"],
        loops={"for#1": dict(invariant={"woven-so-far": "resolved_cmd == woven(%s[:_i])" % C0}, havoc_only=["resolved_cmd"])},
        ensures={"the-command-is-the-weave-of-its-elements-in-order-nothing-re-split-merged-dropped-or-added": "self.cmd == woven(%s)" % C0},
        from_property=_from_ral,
    )
