"""C12 - bounded stand-ins on the real code and real files (never counted as proved)."""
import os
import shutil
import tempfile
from pyvc.contract import *


def _tmp(prefix):
    return tempfile.mkdtemp(prefix=prefix, dir=os.environ.get("XV_SCRATCH"))


def lazyjson_roundtrip(tier, seed):
    """real dumps -> a real UTF-8 file -> real LazyJSON: every node, reached through the index, loads to the value that was stored"""
    from xonsh.lib import lazyjson as lj

    strs = ["", "a", "ab c", "é", "日本", "a\"b", "tab\there", "nl\nx", "\\", "😀", "x" * 70, "ключ", "a b"]
    pool = list(strs) + [0, -3, 1.5, True, None, [], {}, ["é", "b"], {"k": "é", "z": [1, "日本", {"q": "😀"}]},
                         {"cmds": [{"inp": "echo é\n", "rtn": 0, "ts": [1.0, 2.0]}, {"inp": "ls 日本\n", "rtn": 1, "ts": [3.0, 4.5]}], "sessionid": "s", "locked": True},
                         [["é"], ["a", ["日本", []]], "tail"], {"é": 1, "b": "ü"}]
    if tier != "quick":
        pool += [[a, b] for a in strs for b in strs] + [{a: b} for a in strs[1:] for b in strs]
    failures, n, nontrivial = [], 0, 0
    d = _tmp("xv-c12lj-")

    def walk(node, want, path):
        nonlocal n
        n += 1
        if isinstance(node, lj.LJNode):
            got = node.load()
            if got != want:
                return "node %s loads %r, stored %r" % (path, got, want)
            if isinstance(want, dict):
                if set(node.keys()) != set(want):
                    return "node %s has keys %r, stored %r" % (path, sorted(node.keys()), sorted(want))
                for k in want:
                    r = walk(node[k], want[k], path + "[%r]" % k)
                    if r:
                        return r
            else:
                if len(node) != len(want):
                    return "node %s has length %d, stored %d" % (path, len(node), len(want))
                for i in range(len(want)):
                    r = walk(node[i], want[i], path + "[%d]" % i)
                    if r:
                        return r
                    r = walk(node[i - len(want)], want[i], path + "[%d]" % (i - len(want)))  # the same element counted from the end
                    if r:
                        return r
                for bad in (len(want), -len(want) - 1):
                    try:
                        got = node[bad]
                        return "node %s[%d] with %d elements returns %r instead of raising IndexError" % (path, bad, len(want), got.load() if isinstance(got, lj.LJNode) else got)
                    except IndexError:
                        pass
            return None
        return None if node == want and type(node) is type(want) else "leaf %s reads %r, stored %r" % (path, node, want)

    try:
        for v in pool:
            if not isinstance(v, (dict, list)):
                v = [v]
            fn = os.path.join(d, "f.json")
            obs = None
            try:
                with open(fn, "w", newline="\n", encoding="utf-8") as f:
                    lj.ljdump(v, f, sort_keys=True)
                with open(fn, newline="\n", encoding="utf-8") as f:
                    root = lj.LazyJSON(f, reopen=False)
                    nontrivial += 1
                    obs = walk(root, v, "root")
            except Exception as e:  # noqa
                obs = "%s: %s" % (type(e).__name__, e)
            if obs and len(failures) < 5:
                failures.append({"clause": "every stored value is read back through the embedded index", "inputs": {"value": repr(v)}, "observed": obs})
    finally:
        shutil.rmtree(d, ignore_errors=True)
    return {"kind": "bounded", "evaluations": n, "distinct_nontrivial": nontrivial, "failures": failures, "exhaustive": False,
            "bound": "%d documents built from %d strings (ASCII, Latin-1, CJK, astral, quotes, control characters) nested <= 3 deep" % (len(pool), len(strs)),
            "domain": "real ljdump -> real UTF-8 file -> real LazyJSON / LJNode reads of every node", "samples": []}


native_check("C12", "index-addresses-every-value-on-a-real-file", "bounded", lazyjson_roundtrip,
             doc="writer -> reader of the self-indexing JSON store with Unicode content")


def history_sequences(tier, seed):
    """real JsonHistory: every sequence of appends / flushes, read back by len, index (all in- and out-of-range keys), slice and
    iteration, against the list of appended commands"""
    import itertools
    from xonsh.built_ins import XSH
    from xonsh.environ import Env
    from xonsh.history.json import JsonHistory

    saved = XSH.env
    d = _tmp("xv-c12h-")
    failures, n, nontrivial, samples = [], 0, 0, []
    OPS = ["a", "b", "fail", "flush"]        # append `a`, append `b`, append a failing command, flush
    L = 4 if tier == "quick" else 5
    try:
        for control, bufsize in itertools.product(("", "ignoredups", "ignoreerr"), (1, 2, 100)):
            for seq in itertools.product(OPS, repeat=L):
                n += 1
                XSH.env = Env({"XONSH_DATA_DIR": d, "XONSH_HISTORY_SIZE": (1000, "commands"), "HISTCONTROL": set(filter(None, [control])),
                               "XONSH_STORE_STDOUT": False, "XONSH_HISTORY_SAVE_CWD": False})
                fn = os.path.join(d, "h-%d.json" % n)
                h = JsonHistory(filename=fn, gc=False, buffersize=bufsize)
                appended, obs = [], None
                try:
                    for i, op in enumerate(seq):
                        if op == "flush":
                            hf = h.flush()
                        else:
                            cmd = {"inp": {"a": "echo a\n", "b": "ls é 日本\n", "fail": "false\n"}[op], "rtn": 1 if op == "fail" else 0, "ts": (float(i), i + 0.5)}
                            appended.append((cmd["inp"], cmd["rtn"], tuple(cmd["ts"])))
                            hf = h.append(cmd)
                        if hf is not None:
                            hf.join()
                    size = len(h)
                    got = [(h.inps[k], h.rtns[k], tuple(h.tss[k])) for k in range(size)]
                    nontrivial += 1
                    # (a) in append order, no duplicates or inventions: a subsequence of what was appended
                    it = iter(appended)
                    if not all(any(g == a for a in it) for g in got):
                        obs = "read back %r, appended %r (not a subsequence)" % (got, appended)
                    # (b) nothing that no rule excludes is missing
                    must = [c for j, c in enumerate(appended)
                            if not (control == "ignoredups" and j > 0 and appended[j - 1][0] == c[0]) and not (control == "ignoreerr" and c[1] != 0)]
                    it = iter(got)
                    if not obs and not all(any(g == m for g in it) for m in must):
                        obs = "commands %r must be readable, read back %r" % (must, got)
                    # (c) len / index / slice / iteration agree
                    if not obs and list(h.inps) != [g[0] for g in got]:
                        obs = "iteration %r differs from indexing %r" % (list(h.inps), [g[0] for g in got])
                    if not obs and h.inps[:] != [g[0] for g in got]:
                        obs = "slice [:] %r differs from indexing" % (h.inps[:],)
                    for k in range(-size - 3, size + 3):
                        if obs:
                            break
                        try:
                            v = h.inps[k]
                            if not (-size <= k < size):
                                obs = "inps[%d] with len %d returns %r instead of raising IndexError" % (k, size, v)
                            elif v != got[k][0]:
                                obs = "inps[%d] is %r, position %d holds %r" % (k, v, k % size, got[k][0])
                        except IndexError:
                            if -size <= k < size:
                                obs = "inps[%d] with len %d raises IndexError" % (k, size)
                        except Exception as e:  # noqa
                            obs = "inps[%d] with len %d raises %s: %s" % (k, size, type(e).__name__, e)
                except Exception as e:  # noqa
                    obs = "%s: %s" % (type(e).__name__, e)
                finally:
                    try:
                        os.unlink(fn)
                    except OSError:
                        pass
                if obs and len(failures) < 5:
                    failures.append({"clause": "len, index, slice and iteration read back exactly the kept commands in append order",
                                     "inputs": {"HISTCONTROL": control, "buffersize": bufsize, "operations": list(seq)}, "observed": obs})
                elif not obs and len(samples) < 3 and control and "flush" in seq:
                    samples.append({"HISTCONTROL": control, "buffersize": bufsize, "operations": list(seq)})
    finally:
        XSH.env = saved
        shutil.rmtree(d, ignore_errors=True)
    return {"kind": "bounded", "evaluations": n, "distinct_nontrivial": nontrivial, "failures": failures, "exhaustive": False,
            "bound": "all sequences of %d operations out of %s x HISTCONTROL in {none, ignoredups, ignoreerr} x buffer size in {1, 2, 100}; flusher threads joined after each step" % (L, OPS),
            "domain": "real JsonHistory on real files (JSON backend; SQLite not covered)", "samples": samples}


native_check("C12", "append-flush-read-sequences", "bounded", history_sequences,
             doc="real JsonHistory against the list of appended commands for every short operation sequence")
