"""C10 - per-command `$X=1 cmd` overlays reach the stage they prefix: the stage-construction loop of cmds_to_specs
(the same contract as C07's first one, claimed here for the env alignment clause), and prep_env_subproc."""
from pyvc.contract import *
from contracts import C07_wiring as W

contract(
    W.S + "cmds_to_specs", "C10",
    params=dict(cmds=List(Union(Str, W.CMD)), captured=Union(Bool, Str), envs=Nullable(List(Union(NoneT, W.ENVMAP))), in_boolop=Bool),
    globals={"_PIPE_ALL": W.STREAM, "_PIPE_ERR": W.STREAM},
    externals=W.EXT, returns=List(W.SPEC),
    config={"properties": {"SubprocSpec": ["stdin", "stdout", "stderr"]}, "isinstance": {"str": ["str"]}},
    locals={"specs": List(W.SPEC), "redirects": List(Str), "spec": W.SPEC, "pipe": W.PIPE},
    requires={"a-pipeline-from-the-parser": "len(cmds) >= 1 and " + W.EVEN,
              "envs-aligned-with-cmds": "envs is None or len(envs) == len(cmds)",
              "the-two-sentinels-differ": "_PIPE_ALL != _PIPE_ERR"},
    loops={
        "for#1": dict(invariant={
            "one-spec-per-command": "len(specs) == (_i + 1) // 2 and len(redirects) == _i // 2",
            "each-built-from-its-own-command-and-overlay": W.BUILT,
            "separators-in-order": "forall(lambda k: redirects[k] == cmds[2 * k + 1], 0, len(redirects))"},
            havoc_only=["specs", "redirects"]),
    },
    abstract=[dict(line_contains="for i, redirect in enumerate(redirects):", may_raise=True, havoc=["specs"], reason="pipe wiring (C07)"),
              dict(line_contains="for spec in specs:", may_raise=True, reason="sentinel check (C07)"),
              dict(line_contains='if not XSH.env.get("XONSH_CAPTURE_ALWAYS"):', may_raise=True, havoc=["specs"], reason="capture boundary"),
              dict(line_contains="if len(specs) > 1:", may_raise=True, reason="unthreadable alias validation"),
              dict(line_contains="_update_last_spec(specs[-1])", may_raise=True, havoc=["specs"], reason="capture plumbing of the last stage (C06)"),
              dict(line_contains="for s in specs:", may_raise=False, reason="closes every stream of the specs built so far (C09)")],
    asserts=[dict(before="for i, redirect in enumerate(redirects):", label="stage-k-gets-the-overlay-written-in-front-of-the-k-th-command",
                  clause="len(specs) == (len(cmds) + 1) // 2 and " + W.BUILT)],
    raises={"XonshError": True, "Exception+": True},
    assumptions=["SubprocSpec.build records its env argument (normalised) as the stage's overlay; prep_env_subproc applies it with swap + detype (contracts above)"],
    from_property="including ... per-command `$X=1 cmd` overlays",
)


# ---- the child environment is computed INSIDE the swap of exactly this stage's overlay ------------------------------------------
def _swap_ctx(R, cmv, node, frame):
    from pyvc import models
    from pyvc.core import mk_int
    if cmv.t.kind == "opaque" and cmv.t.name == "swapscope":
        ctxv = R.ctx

        class _S(models.CtxMgr):
            def enter(self, R2):
                ctxv.emit_log(R2, "order", mk_int(1))      # 1 = the overlay is in force from here
                return R2.ctx.lookup_global(R2, "XSH.env") or cmv

            def exit(self, R2, exc):
                ctxv.emit_log(R2, "order", mk_int(3))      # 3 = the overlay is undone
                return False

        return _S()
    return None


STRMAPV = Opaque("strmap")
STAGE = Obj("SubprocSpec", env=Union(NoneT, W.ENVMAP))
contract(
    W.S + "SubprocSpec.prep_env_subproc", "C10", params=dict(self=STAGE, kwargs=Dict(Str, STRMAPV)),
    globals={"xp.ON_WINDOWS": False, "XSH.env": Opaque("envobj")},
    externals={"envobj.swap": Ext(ret=Opaque("swapscope"), event="swap", log=0, log_type=Union(NoneT, W.ENVMAP), note="Env.swap(other): its own contract (C11)"),
               "envobj.detype": Ext(ret=STRMAPV, event="order", log=("const", 2), log_type=Int, bind="detyped", note="Env.detype: its own contract above"),
               "<order>": Ext(event="order", log_type=Int)},
    hooks={"ctxmgr": _swap_ctx},
    modifies=["kwargs"],
    ensures={"the-overlay-swapped-in-is-this-stage's-own": "len(log('swap')) == 1 and log('swap')[0] == self.env",
             "the-mapping-is-computed-while-the-overlay-is-in-force": "log('order') == [1, 2, 3]",
             "and-is-what-the-child-gets": "kwargs['env'] == detyped"},
    from_property="handed to child processes as a string-to-string mapping that reflects the values at launch time - including ... per-command `$X=1 cmd` overlays (swap + detype at spawn)",
)
