"""C14 - bounded stand-in on real files (never counted as proved): JsonHistoryGC.files / run on a real history directory holding every
combination of {locked live session, unlocked old session} x {0, 2 stored commands} x limits; the file of a live (locked, started after
boot) session is never a candidate and never removed."""
import os
import shutil
import tempfile
from pyvc.contract import *


def gc_on_real_files(tier, seed):
    import itertools
    import time
    from xonsh.built_ins import XSH
    from xonsh.environ import Env
    from xonsh.lib import lazyjson as lj
    import xonsh.history.json as xj

    saved = XSH.env
    root = tempfile.mkdtemp(prefix="xv-c14-", dir=os.environ.get("XV_SCRATCH"))
    failures, n, nontrivial, samples = [], 0, 0, []
    now = time.time()
    try:
        shapes = [("live", 0), ("live", 2), ("old", 0), ("old", 2)]
        maxfiles = 4 if tier == "quick" else 5
        for k in range(1, maxfiles + 1):
            for combo in itertools.combinations_with_replacement(shapes, k):
                for limit in [(0, "files"), (1, "files"), (2, "files"), (1, "commands"), (0, "s")]:
                    n += 1
                    d = os.path.join(root, "h%d" % n)
                    os.makedirs(d)
                    live = []
                    for i, (kind, ncmds) in enumerate(combo):
                        fn = os.path.join(d, "xonsh-%s-%d.json" % (kind, i))
                        doc = {"cmds": [{"inp": "c%d\n" % j, "rtn": 0, "ts": [now - 100 + j, now - 99 + j]} for j in range(ncmds)],
                               "sessionid": "s%d" % i, "ts": [now - 200 + i, None if kind == "live" else now - 150 + i], "locked": kind == "live"}
                        with open(fn, "w", newline="\n", encoding="utf-8") as f:
                            lj.ljdump(doc, f, sort_keys=True)
                        if kind == "live":
                            live.append(fn)
                    XSH.env = Env({"XONSH_DATA_DIR": d, "XONSH_HISTORY_SIZE": limit, "XONSH_HISTORY_FILE": os.path.join(d, "xonsh-current.json")})
                    obs = None
                    try:
                        gc = xj.JsonHistoryGC.__new__(xj.JsonHistoryGC)
                        gc.size = limit
                        gc.force_gc = True
                        gc.wait_for_shell = False
                        gc.gc_units_to_rmfiles = {"commands": xj._xhj_gc_commands_to_rmfiles, "files": xj._xhj_gc_files_to_rmfiles,
                                                  "s": xj._xhj_gc_seconds_to_rmfiles, "b": xj._xhj_gc_bytes_to_rmfiles}
                        cands = gc.files(only_unlocked=True)
                        nontrivial += 1
                        bad = [c[2] for c in cands if c[2] in live]
                        if bad:
                            obs = "files(only_unlocked=True) offers the live session file(s) %r for removal" % [os.path.basename(b) for b in bad]
                        else:
                            gc.run()
                            gone = [os.path.basename(fn) for fn in live if not os.path.exists(fn)]
                            if gone:
                                obs = "gc removed the file(s) of live sessions: %r" % gone
                    except Exception as e:  # noqa
                        obs = "%s: %s" % (type(e).__name__, e)
                    shutil.rmtree(d, ignore_errors=True)
                    if obs and len(failures) < 5:
                        failures.append({"clause": "never deletes the file of a live (locked) session", "inputs": {"files": [list(c) for c in combo], "limit": list(limit)}, "observed": obs})
                    elif not obs and len(samples) < 3 and k == 3:
                        samples.append({"files": [list(c) for c in combo], "limit": list(limit)})
    finally:
        XSH.env = saved
        shutil.rmtree(root, ignore_errors=True)
    return {"kind": "bounded", "evaluations": n, "distinct_nontrivial": nontrivial, "failures": failures, "exhaustive": False,
            "bound": "history directories of <= %d files out of {live, old} x {0, 2 commands} x 5 limits" % maxfiles,
            "domain": "real JsonHistoryGC.files / run on real lazyjson files", "samples": samples}


native_check("C14", "live-session-files-survive-gc-on-real-files", "bounded", gc_on_real_files, doc="real GC on real history directories")
