"""C20 - the job table is always consistent with the processes it tracks."""
from pyvc.contract import *

Proc = Opaque("proc")
Pipe = Opaque("pipeline")
JOB = DRec("job", optional=("status", "pids"), obj=Union(NoneT, Proc), bg=Bool, status=Str, pids=Seq(Int), pipeline=Pipe)
JOBS = Dict(Int, JOB.rec())
TASKS = Deque(Int)  # counted: sequence + ghost multiset count

F = "xonsh/procs/jobs.py::"
CFG = {"records": [JOB], "untracked_keys": ("started",)}
G = {"TASKS": TASKS, "JOBS": JOBS}

# representation invariant: the MRU order is a permutation of exactly the job numbers, each >= 1
TABLE = "forall(lambda x: cnt(TASKS, x) == (1 if x in JOBS else 0))"
POS = "forall(lambda x: implies(x in JOBS, x >= 1))"
FINITE = "forall(lambda x: implies(x in JOBS, x <= BOUND))"  # A4: a dict is finite (BOUND is a ghost constant)
DEAD = "(x not in JOBS or JOBS[x]['obj'] is None or poll(JOBS[x]['obj']) is not None)"


def _tab(R, a, k, n, f, r):
    return R.globals_["TASKS"]


def _jobs(R, a, k, n, f, r):
    return R.globals_["JOBS"]


EXT = {
    "get_tasks": Ext(model=_tab, note="sequential model: the calling thread's table (see get_tasks/get_jobs contracts)"),
    "get_jobs": Ext(model=_jobs),
    "proc.poll": Ext(ret=Union(NoneT, Int), pure=True, args=[Proc], note="ghost read of the process state, constant during one call (A8)"),
    "poll": Ext(ret=Union(NoneT, Int), pure=True, args=[Proc]),
    "time.time": Ext(ret=Real),
}

EXT["proc.poll"].uf = "poll"
EXT["poll"].uf = "poll"
DEFS = {"dead": "lambda x: " + DEAD}

# ---- purge of finished jobs ------------------------------------------------------------------
contract(
    F + "_clear_dead_jobs", "C20", emits=[], params={}, globals=G, config=CFG, externals=EXT, defs=DEFS,
    inline=["get_task"],
    locals={"to_remove": Set(Int), "alive": TASKS},
    requires={"table": TABLE},
    modifies=["TASKS", "JOBS"],
    loops={
        "for#1": dict(invariant={
            "marks-exactly-the-dead": "forall(lambda x: (x in to_remove) == (dead(x) and exists(lambda j: _seq[j] == x, 0, _i)))"}),
        "for#2": dict(invariant={
            "popped-so-far": "forall(lambda x: (x in JOBS) == (pre(x in JOBS) and not exists(lambda k: _seq[k] == x, 0, _i)))",
            "records-kept": "forall(lambda x: implies(x in JOBS, JOBS[x] == pre(JOBS[x])))"}),
    },
    ensures={
        "removes-exactly-the-dead(order)": "forall(lambda x: cnt(TASKS, x) == (0 if old(dead(x)) else old(cnt(TASKS, x))))",
        "removes-exactly-the-dead(table)": "forall(lambda x: (x in JOBS) == (old(x in JOBS) and not old(cnt(TASKS, x) >= 1 and dead(x))))",
        "records-kept": "forall(lambda x: implies(x in JOBS, JOBS[x] == old(JOBS[x])))",
        "table": TABLE,
        "only-live-jobs-remain": "forall(lambda x: implies(x in JOBS, not old(dead(x))))",
    },
    from_property="finished jobs disappear ... the most-recently-used order is always a permutation of exactly the live jobs",
)

# ---- numbering -------------------------------------------------------------------------------
contract(
    F + "get_next_job_number", "C20", emits=[], params={}, globals=dict(G, BOUND=Int), config=CFG, externals=EXT, defs=DEFS,
    returns=Int,
    requires={"table": TABLE, "finite": FINITE},
    modifies=["TASKS", "JOBS"],
    loops={"while#1": dict(invariant={"all-below-are-taken": "forall(lambda k: implies(1 <= k and k < i, k in JOBS))",
                                      "starts-at-1": "i >= 1"},
                           variant="BOUND + 2 - i")},
    ensures={
        "free": "result not in JOBS",
        "lowest": "forall(lambda k: implies(1 <= k and k < result, k in JOBS))",
        "starting-at-1": "result >= 1",
        "table": TABLE,
        "purge-only": "forall(lambda x: implies(x in JOBS, old(x in JOBS) and JOBS[x] == old(JOBS[x])))",
        # "lowest free" is meant among the jobs that still exist: the numbers of finished jobs are free again
        "finished-jobs-are-gone-before-numbering": "forall(lambda x: implies(x in JOBS, not old(dead(x))))",
    },
    from_property="under a unique number - the lowest free one, starting at 1 - and finished jobs disappear",
)

# every registered job carries a status and at least one pid (add_job sets the status; the pids
# come from specs._run_command_pipeline)
JOBSWF = "forall(lambda x: implies(x in JOBS, 'status' in JOBS[x]))"
XSHT = Obj("XSH", env=Obj("Env"))
EXT2 = dict(EXT)
EXT2.update({
    'Env.get("XONSH_INTERACTIVE")': Ext(ret=Bool, pure=True),
    'Env.get("AUTO_CONTINUE")': Ext(ret=Bool, pure=True),
    "print_one_job": Ext(note="diagnostic listing of one job (reads the table only)"),
    "pipeline.spec": Ext(ret=Opaque("spec"), pure=True, attr=True),
    "spec.captured": Ext(ret=Union(Bool, Str), pure=True, attr=True),
    "pipeline.resume": Ext(event="resume", log="recv", note="terminal hand-over and SIGCONT: unverified"),
    "_continue": Ext(event="continue", log=None),
})
G2 = dict(G, XSH=XSHT)

# ---- registration ----------------------------------------------------------------------------
contract(
    F + "add_job", "C20", emits=[], params=dict(info=JOB), globals=dict(G2, BOUND=Int), config=CFG, externals=EXT2, defs=DEFS,
    requires={"table": TABLE, "finite": FINITE, "jobs-well-formed": JOBSWF},
    modifies=["TASKS", "JOBS", "info"],
    snapshots={"numbered": "get_next_job_number"},
    ensures={
        "front-of-mru-order": 'TASKS == [TASKS[0]] + at("numbered", TASKS)',
        "fresh-number": 'TASKS[0] not in at("numbered", JOBS) and TASKS[0] >= 1',
        "lowest-free-number": 'forall(lambda k: implies(1 <= k and k < TASKS[0], k in at("numbered", JOBS)))',
        "registered-exactly-once": "TASKS[0] in JOBS and cnt(TASKS, TASKS[0]) == 1",
        "record-stored": "JOBS[TASKS[0]]['pipeline'] == old(info['pipeline']) and JOBS[TASKS[0]]['bg'] == old(info['bg']) "
                         "and JOBS[TASKS[0]]['obj'] == old(info['obj'])",
        "status-defaults-to-running": "JOBS[TASKS[0]]['status'] == (old(info['status']) if old('status' in info) else 'running')",
        "others-untouched": 'forall(lambda x: implies(x != TASKS[0], (x in JOBS) == at("numbered", x in JOBS) and '
                            'implies(x in JOBS, JOBS[x] == at("numbered", JOBS[x]))))',
        "table": TABLE,
        "jobs-well-formed": JOBSWF,
    },
    from_property="Every background or suspended pipeline appears exactly once in `jobs` under a unique number - the lowest free one, starting at 1",
)

# ---- selection: fg / bg --------------------------------------------------------------------------
VALID = ('(len(at("purged", TASKS)) > 0 and (len(args) == 0 or (len(args) == 1 and ('
         'args[0] == "+" or (args[0] == "-" and len(at("purged", TASKS)) >= 2) or '
         '(args[0] != "+" and args[0] != "-" and is_py_int_literal(args[0]) and int(args[0]) in at("purged", JOBS))))))')
WANT = ('(at("purged", TASKS)[0] if (len(args) == 0 or args[0] == "+") else '
        '(at("purged", TASKS)[1] if args[0] == "-" else int(args[0])))')
EXT3 = dict(EXT2)
EXT3["is_py_int_literal"] = Ext(ret=Bool, pure=True, uf="is_py_int_literal", note="ghost: int(s) accepts the string")

contract(
    F + "resume_job", "C20", emits=['resume'], params=dict(args=List(Str), wording=Str), globals=G2, config=CFG, externals=EXT3, defs=DEFS,
    requires={"table": TABLE, "jobs-well-formed": JOBSWF},
    modifies=["TASKS", "JOBS"],
    snapshots={"purged": "_clear_dead_jobs"},
    inline=["get_task"],
    returns=Union(NoneT, Tuple(Str, Str)),
    ensures={
        "error-leaves-the-table-alone": 'implies(result is not None, TASKS == at("purged", TASKS) and JOBS == at("purged", JOBS))',
        "invalid-selection-is-an-error": "implies(not %s, result is not None)" % VALID,
        "valid-selection-succeeds": "implies(%s, result is None)" % VALID,
        "selects-the-documented-job": "implies(result is None, TASKS[0] == %s)" % WANT,
        "moves-it-to-the-front-keeping-the-rest": 'implies(result is None, exists(lambda k: at("purged", TASKS)[k] == TASKS[0] and '
            'TASKS == [TASKS[0]] + at("purged", TASKS)[:k] + at("purged", TASKS)[k + 1:], 0, len(at("purged", TASKS))))',
        "job-marked-running-foreground": "implies(result is None, not JOBS[TASKS[0]]['bg'] and JOBS[TASKS[0]]['status'] == 'running')",
        "other-jobs-untouched": 'implies(result is None, forall(lambda x: (x in JOBS) == at("purged", x in JOBS) and '
                                'implies(x in JOBS and x != TASKS[0], JOBS[x] == at("purged", JOBS[x]))))',
        "resumed-exactly-once": 'len(log("resume")) == (1 if result is None else 0)',
        "nonempty-on-success": "implies(result is None, len(TASKS) > 0 and TASKS[0] in JOBS)",
        "table": TABLE,
        "jobs-well-formed": JOBSWF,
    },
    from_property="`fg`, `bg` and `disown` with no argument, `+`, `-` or a number select the documented job, or report an error without altering the table",
)


EXT3["_continue"] = Ext(event="continue", log="const", note="SIGCONT to the job's process group: unverified")
ELIG = {"eligible": "lambda t: not JOBS[t]['bg'] and JOBS[t]['status'] == 'running'"}

contract(
    F + "bg", "C20", emits=['resume', 'continue'], params=dict(args=List(Str)), globals=G2, config=CFG, externals=EXT3, defs=DEFS,
    requires={"table": TABLE, "jobs-well-formed": JOBSWF},
    modifies=["TASKS", "JOBS"], inline=["get_task"],
    returns=Union(NoneT, Tuple(Str, Str)),
    ensures={
        "resumed-job-runs-in-background": "implies(result is None, JOBS[TASKS[0]]['bg'] and JOBS[TASKS[0]]['status'] == 'running' and len(log('continue')) == 1)",
        "error-is-passed-through": "implies(result is not None, len(log('continue')) == 0)",
        "table": TABLE, "jobs-well-formed": JOBSWF,
    },
    notes="decorated with @use_main_jobs() (see its contract): the body runs on the main table",
    from_property="`fg`, `bg` ... select the documented job, or report an error without altering the table",
)

contract(
    F + "get_next_task", "C20", emits=[], params={}, globals=G2, config=CFG, externals=EXT3, defs=dict(DEFS, **ELIG),
    requires={"table": TABLE, "jobs-well-formed": JOBSWF},
    modifies=["TASKS", "JOBS"], inline=["get_task"],
    snapshots={"purged": "_clear_dead_jobs"},
    locals={"selected_task": Union(NoneT, Int)},
    loops={"for#1": dict(invariant={"none-eligible-so-far": "forall(lambda j: not eligible(TASKS[j]), 0, _i)",
                                    "nothing-selected-yet": "selected_task is None"})},
    ensures={
        "none-eligible": 'implies(result is None, forall(lambda j: not eligible(TASKS[j]), 0, len(TASKS)) and TASKS == at("purged", TASKS))',
        "first-eligible-moves-to-front": 'implies(result is not None, eligible(TASKS[0]) and exists(lambda k: at("purged", TASKS)[k] == TASKS[0] and '
            'forall(lambda j: not at("purged", eligible(TASKS[j])), 0, k) and '
            'TASKS == [TASKS[0]] + at("purged", TASKS)[:k] + at("purged", TASKS)[k + 1:], 0, len(at("purged", TASKS))))',
        "records-untouched": 'JOBS == at("purged", JOBS)',
        "table": TABLE,
    },
    from_property="the most-recently-used order is always a permutation of exactly the live jobs",
)

PIDSWF = "forall(lambda x: implies(x in JOBS, 'pids' in JOBS[x] and len(JOBS[x]['pids']) >= 1))"
TID = "(job_ids[0] if len(job_ids) == 1 else old(TASKS)[0])"
contract(
    F + "disown_fn", "C20", emits=['continue'], params=dict(job_ids=List(Int), force_auto_continue=Bool), globals=G2, config=CFG, externals=EXT3, defs=DEFS,
    requires={"table": TABLE, "jobs-well-formed": JOBSWF, "jobs-have-pids": PIDSWF,
              "no-argument-or-one-number": "len(job_ids) <= 1"},
    modifies=["TASKS", "JOBS"], inline=["get_task"],
    locals={"messages": List(Str)},
    returns=Union(NoneT, Str, Tuple(Str, Str)),
    ensures={
        "empty-table-is-an-error": "implies(len(old(TASKS)) == 0, TASKS == old(TASKS) and JOBS == old(JOBS) and result is not None)",
        "unknown-id-is-an-error-and-changes-nothing": "implies(len(old(TASKS)) > 0 and %s not in old(JOBS), TASKS == old(TASKS) and JOBS == old(JOBS))" % TID,
        "removes-exactly-that-job": "implies(len(old(TASKS)) > 0 and %s in old(JOBS), %s not in JOBS and cnt(TASKS, %s) == 0 and "
                                    "forall(lambda x: implies(x != %s, (x in JOBS) == old(x in JOBS) and cnt(TASKS, x) == old(cnt(TASKS, x)) and "
                                    "implies(x in JOBS, JOBS[x] == old(JOBS[x])))))" % (TID, TID, TID, TID),
        "keeps-the-order-of-the-rest": "implies(len(old(TASKS)) > 0 and %s in old(JOBS), exists(lambda k: old(TASKS)[k] == %s and "
                                       "TASKS == old(TASKS)[:k] + old(TASKS)[k + 1:], 0, len(old(TASKS))))" % (TID, TID),
        "table": TABLE,
    },
    assumptions=["disown with several ids at once is outside the statement ('no argument ... or a number'): requires len(job_ids) <= 1",
                 "jobs are registered with at least one pid (specs._run_command_pipeline)"],
    from_property="`disown` with no argument ... or a number select the documented job, or report an error without altering the table",
)

# ---- thread view ----------------------------------------------------------------------------------
TL = Obj("TL", tasks=("optional", TASKS), jobs=("optional", JOBS))
XSH_ALL = Obj("XSH", all_jobs=JOBS)
GT = {"_jobs_thread_local": TL, "_tasks_main": TASKS, "XSH": XSH_ALL}
ON_MAIN = {"on_main_thread": Ext(ret=Bool, pure=True, note="ghost: which thread is running")}

contract(
    F + "get_tasks", "C20", params={}, globals=GT, externals=ON_MAIN,
    modifies=["_jobs_thread_local.tasks", "_jobs_thread_local.__missing_tasks"],
    ensures={
        "keeps-an-existing-view": "implies(not old(_jobs_thread_local.__missing_tasks), result is old_ref(_jobs_thread_local.tasks))",
        "main-thread-sees-the-main-order": "implies(old(_jobs_thread_local.__missing_tasks) and on_main_thread(), result is _tasks_main)",
        "other-threads-get-a-private-empty-order": "implies(old(_jobs_thread_local.__missing_tasks) and not on_main_thread(), "
                                                   "result is not _tasks_main and len(result) == 0)",
        "view-is-remembered": "not _jobs_thread_local.__missing_tasks and result is _jobs_thread_local.tasks",
    },
    from_property="issued from the main thread or from an alias thread",
)
contract(
    F + "get_jobs", "C20", params={}, globals=GT, externals=ON_MAIN,
    modifies=["_jobs_thread_local.jobs", "_jobs_thread_local.__missing_jobs"],
    ensures={
        "keeps-an-existing-view": "implies(not old(_jobs_thread_local.__missing_jobs), result is old_ref(_jobs_thread_local.jobs))",
        "main-thread-sees-the-main-table": "implies(old(_jobs_thread_local.__missing_jobs) and on_main_thread(), result is XSH.all_jobs)",
        "other-threads-get-a-private-table": "implies(old(_jobs_thread_local.__missing_jobs) and not on_main_thread(), result is not XSH.all_jobs)",
        "view-is-remembered": "not _jobs_thread_local.__missing_jobs and result is _jobs_thread_local.jobs",
    },
    from_property="issued from the main thread or from an alias thread",
)


# ---- fg is resume_job with the wording "fg" and nothing else ------------------------------------------------------------------------
contract(
    F + "fg", "C20", params=dict(args=List(Str), stdin=Opaque("stream")), globals=G2, config=CFG, defs=DEFS,
    externals=dict(EXT3, resume_job=Ext(ret=Union(NoneT, Tuple(Str, Str)), event="resumed", log="const", log_type=Int, requires=["wording == 'fg'", "nargs == 1"],
                                       note="its own contract (selection, errors leave the table alone)")),
    returns=Union(NoneT, Tuple(Str, Str)), emits=["resumed"],
    ensures={"exactly-one-selection-by-resume_job-with-the-wording-fg": "len(log('resumed')) == 1"},
    from_property="`fg` ... with no argument, `+`, `-` or a number select the documented job (fg adds nothing to resume_job's selection)",
)


# ---- the listing: every live job exactly once, in most-recently-used order, finished ones gone ---------------------------------------
EXT_LIST = dict(EXT2)
EXT_LIST["print_one_job"] = Ext(event="listed", log=0, log_type=Int, note="prints one line for the job number given (reads the table only)")
contract(
    F + "jobs", "C20", emits=["listed"], params=dict(args=Seq(Str), stdin=Opaque("stream"), stdout=Opaque("stream"), stderr=Opaque("stream")), globals=G2, config=CFG,
    externals=EXT_LIST, defs=DEFS, returns=Tuple(NoneT, NoneT),
    requires={"table": TABLE, "jobs-well-formed": JOBSWF},
    modifies=["TASKS", "JOBS"], snapshots={"purged": "_clear_dead_jobs"},
    locals={"format": Str},
    loops={"for#1": dict(invariant={"one-line-per-job-so-far-in-order": "log('listed') == TASKS[:_i]", "table-untouched": 'TASKS == at("purged", TASKS)'}, havoc_only=[])},
    ensures={
        "lists-exactly-the-most-recently-used-order": "log('listed') == TASKS",
        "every-live-job-once-and-no-finished-one": "forall(lambda x: cnt(TASKS, x) == (1 if x in JOBS else 0)) and forall(lambda x: implies(x in JOBS, not dead(x)))",
        "table": TABLE, "jobs-well-formed": JOBSWF,
    },
    notes="decorated with @use_main_jobs() (see its contract): the body runs on the main table",
    from_property="Every background or suspended pipeline appears exactly once in `jobs` under a unique number ... and finished jobs disappear",
)


def _umj_yield(R, frame, val, ynode):
    """with-contract: the body of the `with` may do anything to the tables' contents but does not
    rebind the thread-local attributes; it may also raise (the generator is then resumed by throw)"""
    from pyvc.core import PyRaise, Exc, mk_none
    if R.choose(["resume", "throw"], "yield") == "throw":
        raise PyRaise(Exc("BaseException", exact=False, tag="exception raised by the with-body"))
    return mk_none()


contract(
    F + "use_main_jobs", "C20", params={}, globals=GT,
    externals={"get_tasks": Ext(model=lambda R, a, k, n, f, r: R.getattr(R.globals_["_jobs_thread_local"], "tasks")),
               "get_jobs": Ext(model=lambda R, a, k, n, f, r: R.getattr(R.globals_["_jobs_thread_local"], "jobs"))},
    requires={"view-initialised": "not _jobs_thread_local.__missing_tasks and not _jobs_thread_local.__missing_jobs"},
    hooks={"yield": _umj_yield},
    asserts=[dict(before="yield", label="body-runs-on-the-main-table",
                  clause="_jobs_thread_local.tasks is _tasks_main and _jobs_thread_local.jobs is XSH.all_jobs")],
    raises={"BaseException+": True},
    ensures={"previous-view-restored": "_jobs_thread_local.tasks is old_ref(_jobs_thread_local.tasks) and _jobs_thread_local.jobs is old_ref(_jobs_thread_local.jobs)"},
    ensures_exc={"previous-view-restored": "_jobs_thread_local.tasks is old_ref(_jobs_thread_local.tasks) and _jobs_thread_local.jobs is old_ref(_jobs_thread_local.jobs)"},
    assumptions=["the with-body does not rebind _jobs_thread_local.tasks/.jobs (only this function and get_tasks/get_jobs do)"],
    from_property="issued from the main thread or from an alias thread (jobs, bg, disown run on the main table whatever the calling thread)",
)

# ---- native world for replay / bounded stand-in ---------------------------------------------------
class FakeProc:
    def __init__(self, name, poll):
        self.name, self._poll = name, poll

    def poll(self):
        return self._poll

    def __eq__(self, o):
        return isinstance(o, FakeProc) and o.name == self.name

    def __hash__(self):
        return hash(self.name)

    def __repr__(self):
        return "FakeProc(%r, poll=%r)" % (self.name, self._poll)


class FakePipe:
    def __init__(self, name, logs, captured=False):
        self.name, self.logs = name, logs
        self.spec = type("Spec", (), {"captured": captured})()

    def resume(self, job, tee_output=True):
        self.logs.setdefault("resume", []).append(self.name)

    def __eq__(self, o):
        return isinstance(o, FakePipe) and o.name == self.name

    def __hash__(self):
        return hash(self.name)

    def __deepcopy__(self, memo):
        return self

    def __repr__(self):
        return "FakePipe(%r)" % self.name


def _opq(x):
    return x["__opaque__"] if isinstance(x, dict) and "__opaque__" in x else str(x)


def _native_jobrec(rec, polls, logs):
    """model record (with has_* flags) -> the plain dict xonsh keeps"""
    d = {"bg": rec["bg"], "cmds": [["sleep", "1"]]}
    obj = rec.get("obj")
    d["obj"] = None if obj is None else FakeProc(_opq(obj), polls.get(_opq(obj)))
    d["pipeline"] = FakePipe(_opq(rec.get("pipeline")), logs)
    if rec.get("has_status", True):
        d["status"] = rec["status"]
    if rec.get("has_pids", True):
        d["pids"] = list(rec.get("pids", [1]))
    return d


class _Logs(dict):
    def __deepcopy__(self, memo):
        return self


def _prepare(inputs):
    import collections

    logs = _Logs()
    polls = inputs.get("polls", {}) or {}
    inputs["TASKS"] = collections.deque(inputs["TASKS"])
    inputs["JOBS"] = {k: _native_jobrec(v, polls, logs) for k, v in inputs["JOBS"].items()}
    if "info" in inputs:
        inputs["info"] = _native_jobrec(inputs["info"], polls, logs)
    inputs["__logs__"] = logs
    return inputs


def _jobs_harness(fname, argnames=()):
    def run(inputs):
        import collections, copy
        import xonsh.procs.jobs as xj
        from xonsh.built_ins import XSH

        logs = inputs["__logs__"]
        tasks, jobs = inputs["TASKS"], inputs["JOBS"]
        saved_env = XSH.env
        saved = {n: getattr(xj, n) for n in ("_clear_dead_jobs", "get_next_job_number", "_continue", "print_one_job")}
        snaps = {}

        def wrap(name, label):
            real = saved[name]

            def w(*a, **k):
                r = real(*a, **k)
                snaps.setdefault(label, {"TASKS": collections.deque(tasks), "JOBS": copy.deepcopy(jobs)})
                return r

            setattr(xj, name, w)

        wrap("_clear_dead_jobs", "purged")
        wrap("get_next_job_number", "numbered")
        xj._continue = lambda job: logs.setdefault("continue", []).append(1)
        xj.print_one_job = lambda *a, **k: None
        XSH.env = {"XONSH_INTERACTIVE": False, "AUTO_CONTINUE": inputs.get("auto_continue", False)}
        xj._jobs_thread_local.tasks = tasks
        xj._jobs_thread_local.jobs = jobs
        saved_main = (xj._tasks_main, XSH.all_jobs)
        xj._tasks_main, XSH.all_jobs = tasks, jobs  # @use_main_jobs() functions switch to these
        out = {"__snapshots__": snaps, "__logs__": logs}
        try:
            out["__result__"] = saved.get(fname, getattr(xj, fname))(*[inputs[a] for a in argnames]) if fname in saved else getattr(xj, fname)(*[inputs[a] for a in argnames])
        except BaseException as e:  # noqa
            out["__result__"], out["__exc__"] = None, e
        finally:
            for n, f in saved.items():
                setattr(xj, n, f)
            XSH.env = saved_env
            xj._tasks_main, XSH.all_jobs = saved_main
            del xj._jobs_thread_local.tasks
            del xj._jobs_thread_local.jobs
        return out

    return run


def _jobs_extras(ev, inputs):
    polls = {}
    for k, rec in inputs["JOBS"].items():
        if rec.get("obj") is not None:
            polls[_opq(rec["obj"])] = ev("poll(JOBS[%d]['obj'])" % k)
    return {"polls": polls}


def _native_env(inputs):
    def poll(p):
        return p.poll()

    def is_py_int_literal(s):
        try:
            int(s)
            return True
        except ValueError:
            return False

    return {"poll": poll, "is_py_int_literal": is_py_int_literal, "BOUND": 12}


def _jobs_domain(argsets):
    """bounded native domain: all tables over job numbers 1..3 (any MRU order), each job alive or
    finished, fg/bg, running/stopped; x the given argument sets"""
    def dom(tier, seed):
        import itertools
        cases = []
        nums = (1, 2, 3) if tier == "quick" else (1, 2, 3, 4)
        for r in range(len(nums) + 1):
            for subset in itertools.combinations(nums, r):
                for order in itertools.permutations(subset):
                    for flags in itertools.product(range(4), repeat=len(order)):
                        jobs = {}
                        polls = {}
                        for n, fl in zip(order, flags):
                            jobs[n] = {"obj": {"__opaque__": "p%d" % n}, "bg": bool(fl & 1), "status": "stopped" if fl & 1 else "running",
                                       "pids": [100 + n], "pipeline": {"__opaque__": "pipe%d" % n}, "has_status": True, "has_pids": True}
                            polls["p%d" % n] = 0 if fl & 2 else None
                        for extra in argsets:
                            c = {"TASKS": list(order), "JOBS": jobs, "polls": polls}
                            c.update(extra)
                            cases.append(c)
        if tier == "quick" and len(cases) > 1500:
            step = len(cases) // 1500 + 1
            cases = cases[seed % step::step]
        return {"cases": cases, "bound": "job numbers within %s, all MRU orders, each job alive/finished x fg-running/bg-stopped" % (nums,),
                "domain": "all such tables x %d argument sets" % len(argsets)}
    return dom


_ARGS = [{"args": a, "wording": "fg"} for a in ([], ["+"], ["-"], ["1"], ["2"], ["3"], ["7"], ["x"], ["1", "2"], [""], ["0"])]
for _c in BY_PROP["C20"]:
    q = _c.target.split("::")[1]
    _c.native_env = _native_env
    _c.native_prepare = _prepare
    _c.replay_extras = _jobs_extras
    if q == "_clear_dead_jobs":
        _c.replay = _jobs_harness("_clear_dead_jobs")
        _c.native_domain = _jobs_domain([{}])
    elif q == "get_next_job_number":
        _c.replay = _jobs_harness("get_next_job_number")
        _c.native_domain = _jobs_domain([{}])
    elif q == "resume_job":
        _c.replay = _jobs_harness("resume_job", ("args", "wording"))
        _c.native_domain = _jobs_domain(_ARGS)
    elif q == "bg":
        _c.replay = _jobs_harness("bg", ("args",))
        _c.native_domain = _jobs_domain([{"args": a["args"]} for a in _ARGS])
    elif q == "get_next_task":
        _c.replay = _jobs_harness("get_next_task")
        _c.native_domain = _jobs_domain([{}])
    elif q == "disown_fn":
        _c.replay = _jobs_harness("disown_fn", ("job_ids", "force_auto_continue"))
        _c.native_domain = _jobs_domain([{"job_ids": j, "force_auto_continue": f, "auto_continue": False} for j in ([], [1], [2], [3], [5]) for f in (False, True)])
    elif q in ("get_tasks", "get_jobs", "use_main_jobs", "jobs", "fg"):
        _c.native_env = None
        _c.native_prepare = None
        _c.replay_extras = None
    elif q == "add_job":
        _c.replay = _jobs_harness("add_job", ("info",))
        _c.native_domain = _jobs_domain([{"info": {"obj": {"__opaque__": "pnew"}, "bg": b, "status": "suspended", "pids": [9],
                                                   "pipeline": {"__opaque__": "pipenew"}, "has_status": hs, "has_pids": True}}
                                         for b in (False, True) for hs in (False, True)])
