"""C14 - history garbage collection only ever discards the oldest, unlocked history."""
from pyvc.contract import *

FileT = Tuple(Real, Int, Str, Int)  # (timestamp, ncmds, path, size)
FILES = List(FileT)

PROP_TEXT = ("deletes strictly oldest-first, keeps the largest set of newest files that fits "
             "$XONSH_HISTORY_SIZE, deletes nothing when the history is already within the limit")


def _selector(target, field, loops):
    psum = GhostFn("def psum(j): return 0 if j <= 0 else psum(j - 1) + files[j - 1][%d]" % field, [("j", Int)], Int)
    return contract(
        target, "C14",
        params=dict(hsize=Int, files=FILES),
        returns=Tuple(Int, Seq(FileT)),
        requires={"limit-nonneg": "hsize >= 0",
                  "sizes-nonneg": "all(f[%d] >= 0 for f in files)" % field},
        ghost={"psum": psum},
        lemmas=[Lemma("psum_nonneg", "j", "0", "len(files)", "psum(j) >= 0"),
                Lemma("psum_mono", "j", "0", "len(files)", "forall(lambda i: psum(i) <= psum(j), 0, j + 1)")],
        loops=loops,
        let={"units": "result[0]", "rm": "result[1]", "m": "len(result[1])"},
        ensures={
            "prefix": "rm == files[:m]",
            "fits": "psum(len(files)) - psum(m) <= hsize",
            "maximal": "m == 0 or psum(len(files)) - psum(m - 1) > hsize",
            "within=>nothing": "implies(psum(len(files)) <= hsize, m == 0)",
            "units": "units == psum(m)",
        },
        from_property=PROP_TEXT,
    )


_selector("xonsh/history/json.py::_xhj_gc_commands_to_rmfiles", 1, {
    "for#1": dict(invariant={"count": "n == _i",
                             "suffix-sum": "ncmds == psum(len(files)) - psum(len(files) - n)",
                             "fits": "ncmds <= hsize"}),
    "for#2": dict(invariant={"prefix-sum": "cmds_removed == psum(_i)"}),
})
_selector("xonsh/history/json.py::_xhj_gc_bytes_to_rmfiles", 3, {
    "for#1": dict(invariant={"count": "n == _i",
                             "suffix-sum": "nbytes == psum(len(files)) - psum(len(files) - n)",
                             "fits": "nbytes <= hsize"}),
    "for#2": dict(invariant={"prefix-sum": "bytes_removed == psum(_i)"}),
})


def _small_files(tier, with_ts=False):
    """bounded native domain: all file lists of length <= L with per-file measure in 0..2"""
    import itertools
    L = 3 if tier == "quick" else 4
    cases = []
    for n in range(L + 1):
        for sizes in itertools.product(range(3), repeat=n):
            files = [(float(10 * i + 1), s, "f%d" % i, s) for i, s in enumerate(sizes)]
            for hsize in range(0, 2 * L + 2):
                cases.append({"hsize": hsize, "files": files})
    return {"cases": cases, "bound": "len(files) <= %d, measure in 0..2, 0 <= hsize <= %d" % (L, 2 * L + 1),
            "domain": "all such (hsize, files)"}


for _c in BY_PROP["C14"]:
    _c.native_domain = _small_files

# ---- files unit --------------------------------------------------------------------------
contract(
    "xonsh/history/json.py::_xhj_gc_files_to_rmfiles", "C14",
    params=dict(hsize=Int, files=FILES),
    returns=Tuple(Int, Seq(FileT)),
    requires={"limit-nonneg": "hsize >= 0"},
    locals={"rmfiles": FILES},
    let={"units": "result[0]", "rm": "result[1]", "m": "len(result[1])"},
    ensures={
        "prefix": "rm == files[:m]",
        "fits": "len(files) - m <= hsize",
        "maximal": "m == 0 or len(files) - (m - 1) > hsize",
        "within=>nothing": "implies(len(files) <= hsize, m == 0)",
        "units": "units == m",
    },
    native_domain=_small_files,
    from_property=PROP_TEXT,
)


# ---- seconds unit ------------------------------------------------------------------------
def _seconds_replay(inputs):
    import xonsh.history.json as hj
    now = inputs["now"]
    real = hj.time.time
    hj.time.time = lambda: now
    try:
        return hj._xhj_gc_seconds_to_rmfiles(inputs["hsize"], inputs["files"])
    finally:
        hj.time.time = real


def _seconds_domain(tier, seed):
    import itertools
    L = 3 if tier == "quick" else 4
    cases = []
    for n in range(L + 1):
        for ts in itertools.combinations_with_replacement(range(0, 5), n):
            files = [(float(t), 1, "f%d" % i, 1) for i, t in enumerate(ts)]
            for hsize in range(0, 7):
                cases.append({"hsize": float(hsize), "files": files, "now": 5.0})
    return {"cases": cases, "bound": "len(files) <= %d, timestamps in 0..4 (sorted), now=5, hsize 0..6" % L, "domain": "all such"}


class _Clock:
    def __init__(self, now):
        self._now = now

    def time(self):
        return self._now


contract(
    "xonsh/history/json.py::_xhj_gc_seconds_to_rmfiles", "C14",
    params=dict(hsize=Real, files=FILES),
    returns=Tuple(Real, Seq(FileT)),
    requires={"limit-nonneg": "hsize >= 0",
              "sorted-oldest-first": "forall(lambda i, j: implies(i <= j, files[i][0] <= files[j][0]), 0, len(files))"},
    externals={"time.time": Ext(ret=Real, pure=True, note="ghost clock, constant during the call (A8)")},
    ghost_inputs={"now": "time.time()"},
    loops={"for#1": dict(invariant={"count": "n == _i",
                                    "all-old": "forall(lambda k: time.time() - files[k][0] >= hsize, 0, n)"})},
    let={"units": "result[0]", "rm": "result[1]", "m": "len(result[1])"},
    ensures={
        "prefix": "rm == files[:m]",
        "fits": "forall(lambda k: time.time() - files[k][0] < hsize, m, len(files))",
        "maximal": "forall(lambda k: time.time() - files[k][0] >= hsize, 0, m)",
        "within=>nothing": "implies(forall(lambda k: time.time() - files[k][0] < hsize, 0, len(files)), m == 0)",
        "units": "units == (time.time() - hsize - files[0][0] if m > 0 else 0)",
    },
    replay=_seconds_replay,
    native_env=lambda inputs: {"time": _Clock(inputs.get("now"))},
    native_domain=_seconds_domain,
    assumptions=["A2: timestamps and the seconds limit are real numbers"],
    from_property=PROP_TEXT + " (seconds: keeps exactly the files younger than the limit)",
)


# ---- JsonHistoryGC.run / .files ----------------------------------------------------------
FnT = Opaque("fn")
LjT = Opaque("lj")
HistT = Obj("Hist", hist_size=Real, hist_units=Str)
EnvT = Obj("Env")
GCT = Obj("JsonHistoryGC", wait_for_shell=Bool, size=Union(NoneT, Opaque("sizearg")), force_gc=Bool,
          gc_units_to_rmfiles=Dict(Str, FnT))

LIVE = Ext(ret=Bool, pure=True, note="ghost predicate: the history file at this path belongs to a live (running) session")

contract(
    "xonsh/history/json.py::JsonHistoryGC.run", "C14",
    params=dict(self=GCT),
    globals={"XSH": Obj("XSH", env=EnvT, history=HistT)},
    requires={"shell-ready": "not self.wait_for_shell"},
    abstract=[dict(line_contains="if hist is not None:", may_raise=False,
                   reason="remembers the last gc pass size on the history object (not contract-visible)"),
              dict(line_contains="if xonsh_debug:", may_raise=False, reason="debug progress printing")],
    externals={
        "time.sleep": Ext(),
        'Env.get("XONSH_DEBUG")': Ext(ret=Int, pure=True),
        'Env.get("XONSH_HISTORY_SIZE")': Ext(ret=Tuple(Real, Str), pure=True, bind="cfg"),
        "xt.to_history_tuple": Ext(ret=Tuple(Real, Str), pure=True, raises=["ValueError"], bind="cfg"),
        "<call:fn>": Ext(ret=Tuple(Real, Seq(FileT)), bind="sel", ensures=["result[1] == a2[:len(result[1])]"],
                         note="whichever per-unit selector the table holds: assumed only to return a prefix of the "
                              "files it is given (proved for the four real selectors above)"),
        "os.remove": Ext(event="os.remove", raises=["OSError"]),
        "live": LIVE,
    },
    loops={"for#1": dict(invariant={
        "attempted-in-order": 'len(log("os.remove")) == _i and forall(lambda k: log("os.remove")[k] == rm_files[k][2], 0, _i)'})},
    raises={"ValueError": True, "KeyError": True},
    ensures_exc={"no-effect-before-error": 'len(log("os.remove")) == 0'},
    ensures={
        "only-selected-in-order": 'len(log("os.remove")) <= len(sel[1]) and '
                                  'forall(lambda k: log("os.remove")[k] == sel[1][k][2], 0, len(log("os.remove")))',
        "refuses-unless-forced": 'implies(not self.force_gc and not (sel[0] < cfg[0]), len(log("os.remove")) == 0)',
        "a-failed-removal-does-not-stop-the-rest": 'implies(self.force_gc or sel[0] < cfg[0], len(log("os.remove")) == len(sel[1]))',
        "never-a-live-session": 'forall(lambda k: not live(log("os.remove")[k]), 0, len(log("os.remove")))',
    },
    from_property="never deletes the file of a live (locked) session ... unless forced - refuses to run when it "
                  "would discard more than it keeps",
    assumptions=["selector dispatch table holds the four selectors under contract (constructor not verified)"],
)

contract(
    "xonsh/history/json.py::JsonHistoryGC.files", "C14",
    params=dict(self=GCT, only_unlocked=Bool),
    globals={"XSH": Obj("XSH", env=Nullable(EnvT))},
    returns=FILES,
    locals={"files": FILES},
    externals={
        'Env.get("XONSH_DEBUG")': Ext(ret=Int, pure=True),
        "uptime.boottime": Ext(ret=Real, pure=True),
        "_xhj_get_history_files": Ext(ret=List(Str)),
        "time.time": Ext(ret=Real),
        "os.path.getsize": Ext(ret=Int, raises=["OSError"], ensures=["result >= 0", "implies(result == 0, not live(a0))"],
                               note="assumed: the file of a live session is never empty (its header is written at creation)"),
        "os.path.getmtime": Ext(ret=Real, raises=["OSError"]),
        "xlj.LazyJSON": Ext(ret=LjT, raises=["OSError", "ValueError"], ensures=["lj_path(result) == a0"]),
        "lj_path": Ext(ret=Str, pure=True, note="ghost: path a LazyJSON handle was opened on"),
        'lj.get("locked")': Ext(ret=Bool, raises=["OSError", "ValueError"],
                                ensures=["implies(not result, not live(lj_path(recv)))"],
                                note="meaning of `live`: a file whose lock flag is off is not a live session"),
        'lj.__getitem__("ts")': Ext(ret=Tuple(Real, Union(NoneT, Real)), pure=True, raises=["OSError", "ValueError"],
                                    ensures=["implies(result[0] < uptime.boottime(), not live(lj_path(recv)))"],
                                    note="meaning of `live`: a session started before the last boot is not live"),
        'lj.get("ts")': Ext(ret=Tuple(Real, Union(NoneT, Real)), raises=["OSError", "ValueError"]),
        "lj.load": Ext(ret=Opaque("histdoc"), raises=["OSError", "ValueError"]),
        "lj.close": Ext(),
        "histdoc.__setitem__": Ext(),
        "open": Ext(ret=Opaque("file"), event="open", raises=["OSError"]),
        "xlj.ljdump": Ext(event="ljdump", raises=["OSError", "ValueError"]),
        "os.path.dirname": Ext(ret=Str, pure=True),
        "tempfile.mkstemp": Ext(ret=Tuple(Int, Str), event="mkstemp", raises=["OSError"]),
        "os.fdopen": Ext(ret=Opaque("file"), event="fdopen", raises=["OSError"]),
        "os.replace": Ext(event="replace", raises=["OSError"]),
        "os.unlink": Ext(event="unlink", raises=["OSError"]),
        "lj.sizes": Ext(ret=Opaque("sizes"), pure=True, attr=True),
        'sizes.__getitem__("cmds")': Ext(ret=Seq(Int), pure=True, raises=["KeyError"]),
        "live": LIVE,
    },
    abstract=[dict(line_contains="if xonsh_debug:", reason="debug progress printing", may_raise=False)],
    loops={"for#1": dict(invariant={
        "no-live-candidate": "implies(only_unlocked, all(not live(f[2]) for f in files))"})},
    raises={"KeyError": True},
    ensures={
        "oldest-first": "forall(lambda i, j: implies(i <= j, result[i][0] <= result[j][0]), 0, len(result))",
        "never-a-live-session": "implies(only_unlocked, all(not live(f[2]) for f in result))",
    },
    from_property="never deletes the file of a live (locked) session; deletes strictly oldest-first "
                  "(the selectors take a prefix of this list)",
)
