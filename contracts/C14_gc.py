"""C14 - history garbage collection only ever discards the oldest, unlocked history."""
from pyvc.contract import *

FileT = Tuple(Real, Int, Str, Int)  # (timestamp, ncmds, path, size)
FILES = List(FileT)

PROP_TEXT = ("deletes strictly oldest-first, keeps the largest set of newest files that fits "
             "$XONSH_HISTORY_SIZE, deletes nothing when the history is already within the limit")


def _selector(target, field, loops):
    psum = GhostFn("def psum(j): return 0 if j <= 0 else psum(j - 1) + files[j - 1][%d]" % field, [("j", Int)], Int)
    return contract(
        target, "C14",
        params=dict(hsize=Int, files=FILES),
        returns=Tuple(Int, Seq(FileT)),
        requires={"limit-nonneg": "hsize >= 0",
                  "sizes-nonneg": "all(f[%d] >= 0 for f in files)" % field},
        ghost={"psum": psum},
        lemmas=[Lemma("psum_nonneg", "j", "0", "len(files)", "psum(j) >= 0"),
                Lemma("psum_mono", "j", "0", "len(files)", "forall(lambda i: psum(i) <= psum(j), 0, j + 1)")],
        loops=loops,
        let={"units": "result[0]", "rm": "result[1]", "m": "len(result[1])"},
        ensures={
            "prefix": "rm == files[:m]",
            "fits": "psum(len(files)) - psum(m) <= hsize",
            "maximal": "m == 0 or psum(len(files)) - psum(m - 1) > hsize",
            "within=>nothing": "implies(psum(len(files)) <= hsize, m == 0)",
            "units": "units == psum(m)",
        },
        from_property=PROP_TEXT,
    )


_selector("xonsh/history/json.py::_xhj_gc_commands_to_rmfiles", 1, {
    "for#1": dict(invariant={"count": "n == _i",
                             "suffix-sum": "ncmds == psum(len(files)) - psum(len(files) - n)",
                             "fits": "ncmds <= hsize"}),
    "for#2": dict(invariant={"prefix-sum": "cmds_removed == psum(_i)"}),
})
_selector("xonsh/history/json.py::_xhj_gc_bytes_to_rmfiles", 3, {
    "for#1": dict(invariant={"count": "n == _i",
                             "suffix-sum": "nbytes == psum(len(files)) - psum(len(files) - n)",
                             "fits": "nbytes <= hsize"}),
    "for#2": dict(invariant={"prefix-sum": "bytes_removed == psum(_i)"}),
})
