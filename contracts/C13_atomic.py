"""C13 - a crash or I/O failure while saving history never damages what was already saved.

Atomicity "at any instant" is a statement about the effect trace of each writer, checked at the
point of emission of every file-system event (contracts/fsmodel.py): the bytes under an existing
history file's name change only through os.replace(tmp, target) with tmp a temp file created in the
target's directory by this call, completely written and closed.  If that holds on every path -
every external may fail - then every prefix of the trace (every crash point, every single failing
call) leaves each history file equal to its complete old or complete new version."""
import ast
from pyvc.contract import *
from contracts import fsmodel

H = "xonsh/history/json.py::"
CMD = Opaque("cmd")      # one history record (a dict; identity only - its fields are read through ghost functions)
LJ = Opaque("lj")
RX = Opaque("rx")
HISTDOC = DRec("histdoc", optional=("ts",), cmds=List(CMD), ts=List(Real), locked=Bool)
CFG = {"records": [HISTDOC], "untracked_keys": ("sessionid",)}

COMMON = dict(fsmodel.EXTERNALS)
COMMON.update({
    'Env.get("HISTCONTROL")': Ext(ret=Str, pure=True),
    'Env.get("XONSH_STORE_STDOUT")': Ext(ret=Bool, pure=True),
    'Env.get("XONSH_DEBUG")': Ext(ret=Int, pure=True),
    'cmd.__getitem__("inp")': Ext(ret=Str, pure=True),
    'cmd.__getitem__("rtn")': Ext(ret=Int, pure=True),
    "<call:fn>": Ext(note="skip-counter callback of the owning history object (C12)"),
    "xlj.LazyJSON": Ext(ret=LJ, raises=["ValueError", "OSError"], note="parses the index of a history file; raises on a corrupt / unreadable file"),
    "lj.load": Ext(ret=HISTDOC, raises=["ValueError", "OSError"], snapshot="loaded"),
    "time.time": Ext(ret=Real),
    "time.sleep": Ext(),
    "_xhj_get_history_files": Ext(ret=List(Str)),
    "re.compile": Ext(ret=RX, raises=["Exception+"]),
    "rx.match": Ext(ret=Bool, pure=True),
})
ANY = {"Exception+": True}   # an exception may escape a writer (files stay intact); the trace clauses hold on every path
TOL = ["a history document that parses but is malformed (e.g. 'ts' with fewer than two entries) may make a writer raise before it writes anything"]

FLUSHER = Obj("JsonHistoryFlusher", buffer=List(CMD), filename=Str, at_exit=Bool, skip=Union(NoneT, Opaque("fn")))
contract(
    H + "JsonHistoryFlusher.dump", "C13", params=dict(self=FLUSHER), globals={"XSH": Obj("XSH", env=Obj("Env"))},
    externals=COMMON, hooks=fsmodel.HOOKS, config=CFG,
    locals={"cmds": List(CMD), "hist": HISTDOC, "last_inp": Union(NoneT, Str)},
    loops={"for#1": dict(invariant={"filtering-the-buffer": "True"}, havoc_only=["cmds"])},
    abstract=[dict(line_contains='[cmd.pop("out")', may_raise=False,
                   reason="strips captured output from the records added by this flush (in place; the sequence of records is unchanged)")],
    asserts=[dict(before="dirname = os.path.dirname(self.filename)", label="commands-saved-earlier-are-kept-and-the-new-ones-appended",
                  clause='len(at("loaded", hist["cmds"])) == load_hist_len and hist["cmds"][:load_hist_len] == at("loaded", hist["cmds"]) '
                         'and hist["cmds"][load_hist_len:] == cmds')],
    raises=ANY, assumptions=TOL,
    from_property="flushing ... each history file on disk afterwards is either its complete previous version or its complete new version ... "
                  "commands saved earlier are never lost",
)

HIST = Obj("JsonHistory", buffer=List(CMD), filename=Str)
_FIRST_FOR = lambda node, fv: isinstance(node, ast.For) and fv.loop_key(node) == "for#1"
contract(
    H + "JsonHistory.delete", "C13", params=dict(self=HIST, pattern=Str), globals={"XSH": Obj("XSH", env=Obj("Env"))},
    externals=COMMON, hooks=dict(fsmodel.HOOKS, loop=fsmodel.loop_reset), config=CFG, returns=Int,
    locals={"new_commands": List(CMD), "file_content": HISTDOC, "commands": List(CMD)},
    abstract=[dict(line_contains="self.buffer[:] = [", may_raise=False, reason="filters the in-memory buffer (C12)"),
              dict(line_contains="while self.gc and self.gc.is_alive()", may_raise=False, reason="waits for the GC thread (schedules are out of scope)"),
              dict(line_contains="new_commands = [", may_raise=False, reason="the records that do not match the pattern")],
    loops={"for#1": dict(invariant={"per-file": "True"})},
    raises=ANY, assumptions=TOL,
    from_property="deleting from ... history files: each file is either its complete previous version or its complete new version",
)

contract(
    H + "JsonHistory.erasedups", "C13", params=dict(self=HIST), globals={"XSH": Obj("XSH", env=Obj("Env"))},
    externals=COMMON, hooks=dict(fsmodel.HOOKS, loop=fsmodel.loop_reset), config=CFG,
    returns=Tuple(Int, Int),
    locals={"new_cmds": List(CMD), "file_content": HISTDOC, "cmds": List(CMD), "entries": List(Tuple(Str, Real, Str, Int)),
            "keep_set": Set(Tuple(Str, Int)), "keep": Dict(Str, Tuple(Real, Str, Int))},
    abstract=[dict(line_contains="while self.gc and self.gc.is_alive()", may_raise=False, reason="waits for the GC thread"),
              dict(match=_FIRST_FOR, may_raise=True, reason="first pass: reads every file and collects (inp, ts, file, index) - no writes"),
              dict(line_contains="for inp, tsb, fpath, idx in entries:", may_raise=False, reason="chooses the newest occurrence of each command"),
              dict(line_contains="keep_set = {", may_raise=False, reason="set of (file, index) to keep"),
              dict(line_contains="new_cmds = [", may_raise=False, reason="the records of this file that are kept")],
    loops={"for#4": dict(invariant={"per-file": "True"})},
    raises=ANY, assumptions=TOL,
    from_property="de-duplicating ... history files: each file is either its complete previous version or its complete new version",
)

# ---- unlocking a stale locked file during GC enumeration ----------------------------------------------
FILET = Tuple(Real, Int, Str, Int)
GCT = Obj("JsonHistoryGC")
FILES_EXT = dict(COMMON)
FILES_EXT.update({
    "uptime.boottime": Ext(ret=Real, pure=True),
    "os.path.getsize": Ext(ret=Int, raises=["OSError"]),
    "os.path.getmtime": Ext(ret=Real, raises=["OSError"]),
    'lj.get("locked")': Ext(ret=Bool, raises=["OSError", "ValueError"]),
    'lj.__getitem__("ts")': Ext(ret=Tuple(Real, Union(NoneT, Real)), raises=["OSError", "ValueError"]),
    'lj.get("ts")': Ext(ret=Tuple(Real, Union(NoneT, Real)), raises=["OSError", "ValueError"]),
    "lj.close": Ext(),
    "lj.sizes": Ext(ret=Opaque("sizes"), pure=True, attr=True),
    'sizes.__getitem__("cmds")': Ext(ret=Seq(Int), pure=True, raises=["KeyError"]),
})
contract(
    H + "JsonHistoryGC.files", "C13", params=dict(self=GCT, only_unlocked=Bool),
    globals={"XSH": Obj("XSH", env=Nullable(Obj("Env")))},
    externals=FILES_EXT, hooks=dict(fsmodel.HOOKS, loop=fsmodel.loop_reset), config=CFG,
    returns=List(FILET), locals={"files": List(FILET), "hist": HISTDOC},
    abstract=[dict(line_contains="if xonsh_debug:", may_raise=False, reason="debug progress printing")],
    loops={"for#1": dict(invariant={"per-file": "True"})},
    raises=ANY,
    from_property="unlocking history files: each history file on disk afterwards is either its complete previous version or its complete new version",
)
