"""C18 - the per-candidate quoting decision of the path completer (xonsh/completers/path.py _quote_paths).

A raw string literal cannot spell a control character through an escape sequence, and the completer DOES write control characters as
escape sequences (`\\n`, `\\t`, ...).  So, for every candidate name: the raw prefix is chosen only for names without control characters.
(The full read-back property - decode(quote(name)) == name - needs the lexer as a spec function: bounded check only.)"""
import ast as _ast
from pyvc.contract import *

CP = "xonsh/completers/path.py::"
_KEEP = ("has_ctrl = ", "needs_raw = ")


def _noise(node, fv):
    """every statement of the loop body other than the two that make the decision"""
    loop = [n for n in fv.fn.body if isinstance(n, _ast.For)]
    if not loop or node not in loop[0].body:
        return False
    src = _ast.unparse(node)
    return not any(src.startswith(k) for k in _KEEP)


contract(
    CP + "_quote_paths", "C18", params=dict(paths=VSet(Str), start=Str, end=Str, append_end=Bool, cdpath=Bool),
    globals={"XSH": Obj("XSH")},
    externals={"_has_control_chars": Ext(ret=Bool, pure=True, uf="has_control_chars"), "has_control_chars": Ext(ret=Bool, pure=True, uf="has_control_chars"),
               "xt.get_sep": Ext(ret=Str, pure=True), "XSH.expand_path": Ext(ret=Opaque("fn"), pure=True, attr=True), "set": Ext(ret=Opaque("outset"))},
    locals={"has_ctrl": Bool, "needs_raw": Bool, "s": Str, "out": Opaque("outset")},
    loops={"for#1": dict(invariant={"per-candidate": "True"}, havoc_only=[])},
    abstract=[dict(match=_noise, may_raise=True, reason="directory test, tail, escaping and assembly of the inserted text (bounded read-back check only)"),
              dict(line_contains="return out, need_quotes", may_raise=False, may_return="None", reason="result assembly")],
    asserts=[dict(before='if start != "" and "r" not in start.lower() and needs_raw:', label="a-raw-literal-is-never-chosen-for-a-name-with-control-characters",
                  clause="implies(needs_raw, not has_control_chars(s))"),
             dict(before='if start != "" and "r" not in start.lower() and needs_raw:', label="a-name-with-$-or-backslash-and-no-control-character-is-written-raw",
                  clause="implies(('$' in s or '\\\\' in s) and not has_control_chars(s), needs_raw)")],
    raises={"Exception+": True},
    from_property="the text the path completer inserts - with whatever quoting it chooses - is read back by xonsh as exactly one argument equal to that name",
)
