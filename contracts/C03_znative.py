"""C03 - bounded stand-in on the real execer (never counted as proved): command lines x statement positions x backslash
continuations, the bare form parsed by the real Execer against the same source with every segment wrapped in ![...] by hand."""
import ast
from pyvc.contract import *

SEGMENTS = [
    ["echo", "hi"], ["ls", "-l", "/tmp"], ["echo", "'a b'", "$HOME"], ["echo", "@(1+1)"], ["echo", "$(echo x)"], ["cat", "<", "/dev/null"],
    ["echo", "hi", ">", "/dev/null"], ["echo", "@(str(1))"], ["echo", "$(echo @(str(2)))", "x"], ["echo", "a", "|", "cat"], ["sleep", "0", "&"], ["grep", "-r", "foo", "."], ["tar", "-x", "-v", "-f", "file.tar", "dir"],
]
CONTEXTS = {  # name -> (prefix lines, indent of the probe, suffix lines)
    "top level": ([], 0, []),
    "after a semicolon": (None, 0, []),
    "inside if": (["if True:"], 1, []),
    "inside for inside def": (["def f():", "    for i in range(1):"], 2, []),
    "inside try": (["try:"], 1, ["except Exception:", "    pass"]),
    "inside with": (["with open('/dev/null') as fh:"], 1, []),
    "inside while inside if inside def": (["def g():", "    if True:", "        while False:"], 3, []),
}


def _strip(tree):
    import ast

    for node in ast.walk(tree):
        for a in ("lineno", "col_offset", "end_lineno", "end_col_offset", "max_lineno", "max_col"):
            if hasattr(node, a):
                try:
                    delattr(node, a)
                except AttributeError:
                    pass
    return ast.dump(tree)


def bare_vs_explicit(tier, seed):
    import builtins
    from xonsh.execer import Execer

    from xonsh.built_ins import XSH

    ex = Execer()
    XSH.load(execer=ex, inherit_env=True)
    XSH.env["XONSH_INTERACTIVE"] = False
    ctx = set(dir(builtins))
    failures, n, nontrivial, samples = [], 0, 0, []
    import json as _json
    import os as _os
    kp = _os.path.join(_os.path.dirname(_os.path.dirname(_os.path.abspath(__file__))), "KNOWN_FINDINGS.json")
    known = [k for k in _json.load(open(kp))["findings"] if k["property"] == "C03" and k.get("status") == "known" and k.get("native_class")]
    known_hits = {}
    maxcont = 3 if tier == "quick" else 4
    for words in SEGMENTS:
        for ncont in range(0, maxcont + 1):
            if ncont >= len(words):
                continue
            # split the words over ncont+1 physical lines joined by backslash continuations
            per = [[] for _ in range(ncont + 1)]
            for i, w in enumerate(words):
                per[min(i * (ncont + 1) // len(words), ncont)].append(w)
            if any(not p for p in per):
                continue
            for cname, (pre, ind, post) in CONTEXTS.items():
                for chain in (None, "&&", "and", "||"):
                    n += 1
                    pad = "    " * ind
                    bare = (" \\\n" + pad + "  ").join(" ".join(p) for p in per)
                    text = " ".join(words)
                    if chain:
                        bare_line = bare + " " + chain + " echo done"
                        expl_line = "![%s] %s ![echo done]" % (text, chain)
                    else:
                        bare_line, expl_line = bare, "![%s]" % text
                    if pre is None:
                        src_b = "x = 1; " + bare_line + "\n"
                        src_e = "x = 1; " + expl_line + "\n"
                    else:
                        src_b = "\n".join(pre + [pad + bare_line] + post) + "\n"
                        src_e = "\n".join(pre + [pad + expl_line] + post) + "\n"
                    obs = None
                    try:
                        tb = ex.parse(src_b, ctx=set(ctx), mode="exec", filename="<bare>")
                        te = ex.parse(src_e, ctx=set(ctx), mode="exec", filename="<explicit>")
                        nontrivial += 1
                        db, de = _strip(tb), _strip(te)
                        if db != de:
                            obs = "the bare form compiles to a different program than the hand-wrapped form"
                    except SyntaxError as e:
                        obs = "SyntaxError for the bare form: %s" % str(e).split("\n")[0]
                    except RecursionError:
                        obs = "RecursionError"
                    except Exception as e:  # noqa
                        obs = "%s: %s" % (type(e).__name__, e)
                    if obs:
                        hit = None
                        for kf in known:
                            try:
                                if eval(kf["native_class"], {"command": text, "chain": chain, "position": cname, "physical_lines": ncont + 1, "observed": obs}):
                                    hit = kf
                                    break
                            except Exception:
                                pass
                        if hit:
                            known_hits[hit["id"]] = known_hits.get(hit["id"], 0) + 1
                            obs = None
                    if obs and len(failures) < 6:
                        failures.append({"clause": "a bare command line means exactly its explicit ![...] form", "inputs": {"command": text, "physical_lines": ncont + 1,
                                                                                                                            "position": cname, "chain": chain, "source": src_b},
                                         "observed": obs})
                    elif not obs and len(samples) < 3 and ncont == 2 and chain:
                        samples.append({"command": text, "position": cname, "chain": chain, "physical_lines": 3})
    XSH.unload()
    return {"kind": "bounded", "evaluations": n, "distinct_nontrivial": nontrivial, "failures": failures, "exhaustive": False,
            "bound": "%d command lines x 1..%d physical lines x %d statement positions x {no chain, &&, and, ||}" % (len(SEGMENTS), maxcont + 1, len(CONTEXTS)),
            "domain": "real Execer.parse of the bare source vs the same source with each segment wrapped in ![...] (AST equality modulo positions)", "samples": samples,
            "known_lines": ["KNOWN-FINDING: property=C03 %s [%s] (%d cases)" % (kf["text"], kf["id"], known_hits[kf["id"]]) for kf in known if kf["id"] in known_hits],
            "known_hits": known_hits}


native_check("C03", "bare-equals-explicit", "bounded", bare_vs_explicit, doc="bare command lines vs hand-wrapped form through the real execer")


# a line that "does not start with a bound name": the binding bookkeeping is C02's; its bounded decision check also guards C03's premise
from contracts.C02_znative import decisions as _c02_decisions  # noqa: E402

native_check("C03", "names-bound-only-in-inner-scopes-do-not-stop-the-wrap", "bounded", _c02_decisions,
             doc="C02's probe programs: a name bound only in a function / class / as a parameter leaves a later module-level line a command")


def _commands(tree):
    """the argument lists of the subprocess calls of a program, in source order of evaluation (depth first, left to right)"""
    out = []

    def words(call):
        ws = []
        for a in call.args[:1]:
            for e in getattr(a, "elts", []):
                if isinstance(e, ast.Call) and e.args and isinstance(e.args[0], ast.Constant):
                    ws.append(e.args[0].value)
                elif isinstance(e, ast.Constant):
                    ws.append(e.value)
                else:
                    ws.append("?")
        return ws

    def visit(n):
        if isinstance(n, ast.Call) and isinstance(n.func, ast.Attribute) and n.func.attr.startswith("subproc_") and n.func.attr != "subproc_check_boolop":
            out.append(words(n))
            return
        for c in ast.iter_child_nodes(n):
            visit(c)

    visit(tree)
    return out


def long_chains(tier, seed):
    """many command segments in one input: one-line chains of k commands and scripts of n two-command chain lines - the bare form compiles to the
    same program as the hand-wrapped form (the wrap-and-reparse budget must grow with the number of segments)"""
    import builtins
    from xonsh.execer import Execer
    from xonsh.built_ins import XSH

    ex = Execer()
    XSH.load(execer=ex, inherit_env=True)
    XSH.env["XONSH_INTERACTIVE"] = False
    ctx = set(dir(builtins))
    failures, n, samples = [], 0, []
    ks = (2, 6, 11, 12, 13, 20) + ((40,) if tier != "quick" else ())
    ns = (12, 24) + ((48,) if tier != "quick" else ())
    cases = []
    for op in ("&&", "||", "and", "or"):
        for k in ks:
            cases.append(("one line, %d commands joined by %s" % (k, op), (" %s " % op).join("echo a%d b" % i for i in range(k)),
                          (" %s " % op).join("![echo a%d b]" % i for i in range(k))))
    for nl in ns:
        for pad in ("", "    "):
            pre = ["if True:"] if pad else []
            cases.append(("%d lines of `cmd && cmd`%s" % (nl, " inside if" if pad else ""), "\n".join(pre + [pad + "echo a%d b && echo c d" % i for i in range(nl)]),
                          "\n".join(pre + [pad + "![echo a%d b] && ![echo c d]" % i for i in range(nl)])))
    # a chain continued over a backslash, the operator before or after the line break, segments that also parse as Python (`ls -l`): compared by the
    # COMMANDS the program runs, in order (the recorded known finding - a missing in_boolop flag on such segments - does not change them)
    for op in ("and", "or", "&&", "||"):
        for first in ("ls -l", "id -u", "echo a b"):
            for second in ("pwd -P", "echo c d"):
                cases.append(("`%s %s \\<nl> %s`" % (first, op, second), "%s %s \\\n  %s" % (first, op, second), "![%s] %s ![%s]" % (first, op, second)))
                cases.append(("`%s \\<nl> %s %s`" % (first, op, second), "%s \\\n  %s %s" % (first, op, second), "![%s] %s ![%s]" % (first, op, second)))
                cases.append(("`%s \\<nl> %s %s \\<nl> %s ls -a`" % (first, op, second, op), "%s \\\n  %s %s \\\n  %s ls -a" % (first, op, second, op), "![%s] %s ![%s] %s ![ls -a]" % (first, op, second, op)))
    cases.append(("12 commands separated by ;", "; ".join("echo a%d b" % i for i in range(12)), "; ".join("![echo a%d b]" % i for i in range(12))))
    for name, bare, expl in cases:
        n += 1
        obs = None
        try:
            tb = ex.parse(bare + "\n", ctx=set(ctx), mode="exec", filename="<bare>")
            te = ex.parse(expl + "\n", ctx=set(ctx), mode="exec", filename="<explicit>")
            if "<nl>" in name:
                cb, ce = _commands(tb), _commands(te)
                if cb != ce:
                    obs = "the bare form runs the commands %r, the hand-wrapped form %r" % (cb, ce)
            elif _strip(tb) != _strip(te):
                obs = "the bare form compiles to a different program than the hand-wrapped form"
        except SyntaxError as e:
            obs = "SyntaxError for the bare form: %s" % str(e).split("\n")[0]
        except Exception as e:  # noqa
            obs = "%s: %s" % (type(e).__name__, e)
        if obs and len(failures) < 5:
            failures.append({"clause": "a bare command line means exactly its explicit ![...] form", "inputs": {"case": name}, "observed": obs})
        elif not obs and len(samples) < 3:
            samples.append({"case": name})
    return {"kind": "bounded", "evaluations": n, "distinct_nontrivial": n, "failures": failures, "exhaustive": False,
            "bound": "one-line chains of up to %d commands x 4 operators; scripts of up to %d chain lines" % (ks[-1], ns[-1]),
            "domain": "real Execer.parse, bare vs hand-wrapped source", "samples": samples}


native_check("C03", "many-segments-in-one-input", "bounded", long_chains, doc="long chains and many chain lines through the real execer")
