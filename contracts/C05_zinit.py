"""C05 - "a pipeline's code is its last stage's": a pipeline whose stage could not be started has no process handle (so its
returncode is 1, see CommandPipeline.returncode).  The contract lives with C09's (same function, same clauses)."""
from contracts import C09_session  # noqa: F401  (registers CommandPipeline.__init__ under C05 as well)
