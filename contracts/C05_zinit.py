"""C05 - "a pipeline's code is its last stage's": a pipeline whose stage could not be started has no process handle (so its
returncode is 1, see CommandPipeline.returncode).  The contract lives with C09's (same function, same clauses)."""
from contracts import C09_session  # noqa: F401  (registers CommandPipeline.__init__ under C05 as well)

# ---- the parser-side wrapper: "are we inside an and/or chain" is a scoped flag --------------------------------------------------
from pyvc.contract import *  # noqa: E402,F401,F403

PB = "xonsh/parsers/base.py::"
WRAPPER = Obj("_SubprocChainRaiseWrapper", _inside_boolop=Bool)
NODE = Opaque("astnode")
contract(
    PB + "_SubprocChainRaiseWrapper._visit_boolop", "C05", params=dict(self=WRAPPER, node=NODE), returns=NODE,
    externals={"self._recurse": Ext(raises=["Exception+"], note="visits the operands (nested chains see the flag set)"),
               "_SubprocChainRaiseWrapper._recurse": Ext(raises=["Exception+"]),
               "_boolop_contains_subproc": Ext(ret=Bool, pure=True, uf="has_cmd", note="its own contract"), "has_cmd": Ext(ret=Bool, pure=True, uf="has_cmd"),
               "self._wrap": Ext(ret=NODE, pure=True, uf="wrapped"), "_SubprocChainRaiseWrapper._wrap": Ext(ret=NODE, pure=True, uf="wrapped"),
               "wrapped": Ext(ret=NODE, pure=True, uf="wrapped")},
    modifies=["self"], raises={"Exception+": True},
    ensures={"the-flag-is-as-before-on-every-normal-exit": "self._inside_boolop == old(self._inside_boolop)",
             "an-outermost-chain-with-a-command-gets-the-raise-check-and-nothing-else-does":
                 "result == (wrapped(node) if (not old(self._inside_boolop) and has_cmd(node)) else node)"},
    ensures_exc={"the-flag-is-as-before-when-an-operand-fails-to-transform": "self._inside_boolop == old(self._inside_boolop)"},
    from_property="a chain ... raises CalledProcessError iff the last command that ran failed (every outermost chain containing a command is wrapped - "
                  "also the ones that come after a pure-Python and/or in the same input)",
)

# ---- a standalone command statement gets the raise check exactly once --------------------------------------------------------
STMT = Obj("stmt", value=Union(NoneT, NODE))
contract(
    PB + "_SubprocChainRaiseWrapper._maybe_wrap_stmt_value", "C05", params=dict(self=WRAPPER, stmt=STMT),
    externals={"getattr": Ext(model=lambda R, a, k, n, f, r: R.getattr(a[0], "value"), note="getattr(stmt, 'value', None) on a statement that has the field"),
               "_is_subproc_check_boolop_call": Ext(ret=Bool, pure=True, uf="is_check"), "is_check": Ext(ret=Bool, pure=True, uf="is_check"),
               "_is_raising_subproc_helper_call": Ext(ret=Bool, pure=True, uf="is_raising"), "is_raising": Ext(ret=Bool, pure=True, uf="is_raising"),
               "self._wrap": Ext(ret=NODE, pure=True, uf="wrapped"), "_SubprocChainRaiseWrapper._wrap": Ext(ret=NODE, pure=True, uf="wrapped"),
               "wrapped": Ext(ret=NODE, pure=True, uf="wrapped")},
    modifies=["stmt.value"],
    ensures={"a-bare-command-or-![]-statement-gets-the-raise-check-exactly-once-and-nothing-else-is-touched":
             "implies(old(stmt.value) is None, stmt.value is None) and "
             "implies(old(stmt.value) is not None, stmt.value == (wrapped(old(stmt.value)) if (not is_check(old(stmt.value)) and is_raising(old(stmt.value))) else old(stmt.value)))"},
    from_property="after the statement a CalledProcessError is raised iff the last command that ran failed - except !() results (captured forms are not wrapped; a value the chain "
                  "pass already wrapped is not wrapped twice)",
)
