"""C11 - bounded stand-in on the real Env (never counted as proved): every nesting of up to 3 scoped changes (kwargs swap, `other` dict,
overlay, DELETE_VAR mask, new variable) with a normal or exceptional exit, inside which an assignment to an unrelated variable is
made and the scoped variable may be deleted or assigned-then-deleted; afterwards every read path (`in`, `[]`, get, detype) is as before and the assignment persists; meanwhile a second thread sees
none of it."""
import threading
from pyvc.contract import *

BODIES = ["assign OTHER", "delete X", "assign-then-delete X"]
LOCAL_X = ("kw X", "other X", "both X", "mask X")
FORMS = ["kw X", "kw NEW", "other X", "overlay X", "mask X", "mask-overlay X", "both X", "bad-value X"]


def scopes(tier, seed):
    import itertools
    from xonsh.environ import Env
    from xonsh.built_ins import XSH
    from xonsh.environ import DELETE_VAR  # noqa

    saved = XSH.env
    failures, n, nontrivial, samples = [], 0, 0, []
    depth = 3 if tier == "quick" else 4

    def view(env):
        out = {}
        for k in ("X", "NEW", "OTHER"):
            try:
                v = env[k]
            except KeyError:
                v = "<KeyError>"
            out[k] = (k in env, v, env.get(k, "<none>"), env.detype().get(k))
        return out

    def enter(env, form, i):
        name = form.split()[1]
        if form.startswith("kw"):
            return env.swap(**{name: "k%d" % i})
        if form.startswith("bad-value"):
            # X is swapped, then a second variable gets a value that fails to convert: entering the scope raises, X must not stay swapped
            return env.swap(X="x%d" % i, XONSH_HISTORY_SIZE="not a size")
        if form.startswith("both"):
            return env.swap({name: "o%d" % i}, **{name: "b%d" % i})   # the same variable in `other` AND as a keyword
        if form.startswith("other"):
            return env.swap({name: "o%d" % i})
        if form.startswith("overlay"):
            return env.swap(overlay={name: "v%d" % i})
        if form == "mask X":
            return env.swap(X=DELETE_VAR)
        return env.swap(overlay={"X": DELETE_VAR})

    try:
        for d in range(1, depth + 1):
            for forms in itertools.product(FORMS, repeat=d):
                for raise_at, body in itertools.product([None] + list(range(d)), BODIES):
                    if body != "assign OTHER" and ("bad-value X" in forms or not any(f in LOCAL_X for f in forms)):
                        # deleting X where no enclosing scope holds a thread-local value for X is an ordinary, permanent deletion
                        # of the shared variable (the overlay forms only mask the view): nothing to undo, so nothing is claimed
                        continue
                    n += 1
                    env = Env({"X": "base", "PATH": ["/bin"]})
                    XSH.env = env
                    before = view(env)
                    seen_by_other = {}
                    obs = None

                    def other_thread():
                        seen_by_other.update(view(env))

                    def nest(level):
                        if level == d:
                            env["OTHER"] = "set-inside"
                            if body in ("assign-then-delete X",):
                                env["X"] = "temp"
                            if body != "assign OTHER":
                                try:
                                    del env["X"]      # the swapped variable is deleted inside the scope: only this thread's scoped value may go
                                except KeyError:
                                    pass
                            t = threading.Thread(target=other_thread)
                            t.start()
                            t.join()
                            return
                        with enter(env, forms[level], level):
                            nest(level + 1)
                            if raise_at == level:
                                raise RuntimeError("body")

                    try:
                        try:
                            nest(0)
                        except (RuntimeError, ValueError):
                            pass
                        nontrivial += 1
                        after = view(env)
                        entered = "bad-value X" not in forms
                        want = dict(before, OTHER=(True, "set-inside", "set-inside", "set-inside")) if entered else dict(before)
                        if after != want:
                            obs = "after the scopes %r are left: %r, expected %r" % (list(forms), {k: after[k] for k in after if after[k] != want[k]}, {k: want[k] for k in after if after[k] != want[k]})
                        else:
                            w2 = dict(before, OTHER=(True, "set-inside", "set-inside", "set-inside"))
                            bad = {k: seen_by_other.get(k) for k in ("X", "NEW") if seen_by_other and seen_by_other.get(k) != w2[k]}
                            if bad:
                                obs = "another thread, while the scopes %r were open, saw %r (the scoped values are this thread's only)" % (list(forms), bad)
                    except Exception as e:  # noqa
                        obs = "%s: %s" % (type(e).__name__, e)
                    if obs and len(failures) < 6:
                        failures.append({"clause": "scoped changes are exactly undone, assignments to other variables persist, other threads see nothing",
                                         "inputs": {"scopes": list(forms), "exception_leaving_level": raise_at, "body": body}, "observed": obs})
                    elif not obs and len(samples) < 3 and d == 3 and raise_at == 1:
                        samples.append({"scopes": list(forms), "exception_leaving_level": raise_at, "body": body})
    finally:
        XSH.env = saved
    return {"kind": "bounded", "evaluations": n, "distinct_nontrivial": nontrivial, "failures": failures, "exhaustive": False,
            "bound": "all nestings of <= %d scopes out of %s, exit normal or by an exception raised at each level; innermost body one of %s; one observer thread at the innermost point" % (depth, FORMS, BODIES),
            "domain": "real Env.swap / overlays / DELETE_VAR on a real Env; views: in, [], get, detype", "samples": samples}


native_check("C11", "nested-scopes-are-undone-and-thread-private", "bounded", scopes, doc="nestings of scoped changes with exceptions and an observer thread")
