"""Ghost file-system discipline for history writers (C13): safety clauses checked at the point of
emission of each effect event, against ghost flags kept per path (DESIGN §2.4 A8).

The only events allowed to change the bytes reachable under an EXISTING name are one
`os.replace(tmp, target)` (atomic) where `tmp` is a temp file created by `mkstemp(dir=dirname(target))`
in this call, completely written, and closed.  Everything else must write to such a temp file."""
import z3
from pyvc.contract import *
from pyvc.core import V, mk_str, mk_none, EngineError, const

FILE = Opaque("file")


def _st(R):
    g = R.ghost.setdefault("fs", {"temps": [], "handles": {}, "emitted": 0})
    return g


def _same(a, b):
    return a is not None and b is not None and a.t == b.t and z3.simplify(a.z).eq(z3.simplify(b.z))


def _find_temp(R, path):
    for t in _st(R)["temps"]:
        if _same(t["name"], path):
            return t
    return None


def _mode_of(ev, default="r"):
    m = ev.kw.get("mode") or (ev.args[1] if len(ev.args) > 1 else None)
    if m is None:
        return default
    z = z3.simplify(m.z) if m.t.kind == "str" else None
    if z is None or not z3.is_string_value(z):
        return "?"
    return z.as_string()


def on_event(R, ev, node):
    """called when an effect event is emitted (before the callee's possible failure is decided)"""
    ctx = R.ctx
    st = _st(R)
    name = ev.name
    if name == "mkstemp":
        return
    if name == "open":
        mode = _mode_of(ev)
        path = ev.args[0] if ev.args else None
        if any(c in mode for c in "wax+?"):
            t = _find_temp(R, path) if path is not None else None
            ctx.add_obligation(R, "trace", "no-in-place-write", z3.BoolVal(t is not None),
                               clause="open(%s, %r): an existing history file is never opened for writing in place (only a fresh "
                                      "temp file created by mkstemp in this call may be)" % (path.z if path is not None else "?", mode),
                               line=getattr(node, "lineno", None))
        return
    if name == "fdopen":
        return
    if name == "raw-write":
        # os.write(fd, data) may write FEWER bytes than asked without raising (disk full, quota, RLIMIT_FSIZE, signals): a writer that does not
        # loop on / check the returned count can install a truncated file.  The discipline admits buffered file objects only (they raise).
        ctx.add_obligation(R, "trace", "writes-go-through-a-file-object-that-reports-short-writes", z3.BoolVal(False),
                           clause="os.write on a raw descriptor: a short write goes unnoticed unless the returned count is checked", line=getattr(node, "lineno", None))
        return
    if name == "raw-close":
        return
    if name == "write":  # ljdump(obj, fp)
        h = ev.args[1] if len(ev.args) > 1 else None
        t = st["handles"].get(id(h.z) if h is not None else None)
        t = None
        for hz, tt in st["handles"].items():
            if h is not None and z3.simplify(h.z).eq(hz):
                t = tt
        if t is None:
            ctx.add_obligation(R, "trace", "write-goes-to-a-temp-file", z3.BoolVal(False),
                               clause="ljdump writes through a handle that was not opened on a fresh temp file", line=getattr(node, "lineno", None))
        else:
            t["write_started"] = True
        return
    if name == "close":
        h = ev.args[0]
        for hz, tt in st["handles"].items():
            if z3.simplify(h.z).eq(hz):
                tt["closed"] = True
        return
    if name == "replace":
        src, dst = ev.args[0], ev.args[1]
        t = _find_temp(R, src)
        ok = t is not None and t.get("written_ok") and t.get("closed") and not t.get("failed")
        why = "source is not a temp file of this call" if t is None else (
            "temp file not completely written" if not t.get("written_ok") else ("temp handle still open" if not t.get("closed") else "a write to it failed"))
        ctx.add_obligation(R, "trace", "replace-only-a-complete-closed-temp", z3.BoolVal(bool(ok)),
                           clause="os.replace(tmp, target): tmp must be a temp file created in this call, completely written and closed (%s)" % ("ok" if ok else why),
                           line=getattr(node, "lineno", None))
        if t is not None:
            # same directory => same file system => rename is atomic
            dn = ctx.uf_apply(R, "os.path.dirname", [dst], T.Str)
            g = z3.BoolVal(False) if t.get("dir") is None else (t["dir"].z == dn.z)
            ctx.add_obligation(R, "trace", "temp-in-the-target's-directory", g,
                               clause="mkstemp(dir=...) must be the directory of the file it replaces (a cross-device rename is copy+delete, not atomic)",
                               line=getattr(node, "lineno", None))
            t["done"] = True
        return
    if name in ("unlink", "remove"):
        t = _find_temp(R, ev.args[0])
        ctx.add_obligation(R, "trace", "only-temp-files-are-deleted", z3.BoolVal(t is not None),
                           clause="os.%s(path): a history rewrite deletes nothing but its own temp file" % name, line=getattr(node, "lineno", None))
        if t is not None:
            t["done"] = True
        return
    if name == "truncate":
        ctx.add_obligation(R, "trace", "no-truncate", z3.BoolVal(False), clause="truncate on a history file", line=getattr(node, "lineno", None))


def on_event_result(R, ev, outcome, node):
    st = _st(R)
    if ev.name == "mkstemp" and outcome == "ok":
        res = ev.result  # Tuple(Int, Str)
        fd = V(T.Int, res.t.get(res.z, 0))
        nm = V(T.Str, res.t.get(res.z, 1))
        d = ev.kw.get("dir")
        st["temps"].append({"name": nm, "fd": fd, "dir": d, "closed": False, "written_ok": False, "failed": False, "done": False})
    elif ev.name == "fdopen" and outcome == "ok":
        fd = ev.args[0]
        for t in st["temps"]:
            if _same(t["fd"], fd):
                st["handles"][z3.simplify(ev.result.z)] = t
    elif ev.name == "open" and outcome == "ok":
        path = ev.args[0] if ev.args else None
        t = _find_temp(R, path) if path is not None else None
        if t is not None:
            st["handles"][z3.simplify(ev.result.z)] = t
    elif ev.name == "write":
        h = ev.args[1] if len(ev.args) > 1 else None
        for hz, tt in st["handles"].items():
            if h is not None and z3.simplify(h.z).eq(hz):
                if outcome == "ok":
                    tt["written_ok"] = True
                else:
                    tt["failed"] = True


def loop_reset(R):
    """at a loop cut: every temp file of an earlier iteration must be finished; start clean"""
    st = _st(R)
    st["temps"] = [t for t in st["temps"] if not t["done"]]


EXTERNALS = {
    "tempfile.mkstemp": Ext(ret=Tuple(Int, Str), event="mkstemp", raises=["OSError"],
                            note="creates a NEW file (name not in use before) in `dir` and returns (fd, name)"),
    "os.fdopen": Ext(ret=FILE, event="fdopen", raises=["OSError"]),
    "open": Ext(ret=FILE, event="open", raises=["OSError"]),
    "xlj.ljdump": Ext(event="write", raises=["Exception+"], note="serialises onto the given handle; may fail part-way (partial write)"),
    "os.replace": Ext(event="replace", raises=["OSError"], note="atomic rename (POSIX)"),
    "os.unlink": Ext(event="unlink", raises=["OSError"]),
    "os.remove": Ext(event="remove", raises=["OSError"]),
    "os.path.dirname": Ext(ret=Str, pure=True, uf="os.path.dirname"),
    "os.write": Ext(ret=Int, event="raw-write", raises=["OSError"], note="raw descriptor write: may be short"),
    "os.close": Ext(event="raw-close", raises=["OSError"]),
    "xlj.dumps": Ext(ret=Str, pure=True, raises=["Exception+"]),
}
HOOKS = {"event": on_event, "event_result": on_event_result}
