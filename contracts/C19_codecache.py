"""C19 - cached bytecode never changes what a script does."""
from pyvc.contract import *

CC = "xonsh/codecache.py::"
CODE = Opaque("code")           # a code object
OTHER = Opaque("noncode")       # any other python object a marshal payload may decode to
OBJ = Union(CODE, OTHER)
FILE = Opaque("file")
STAT = Opaque("stat")

FS = {
    "os.path.isfile": Ext(ret=Bool, pure=True, note="ghost file system, constant during the call (A8)"),
    "os.stat": Ext(ret=STAT, pure=True, note="ghost: stat of an existing path (the snapshot is constant during the call)"),
    "stat.st_mtime": Ext(ret=Real, pure=True, attr=True),
    "open": Ext(ret=FILE, event="open", raises=["OSError"], note="opening may fail (permissions, races)"),
    "marshal.load": Ext(ret=OBJ, raises=["Exception+"], bind="loaded",
                        note="raises on a truncated / corrupt payload, or returns an ARBITRARY object (not necessarily code)"),
}
G = {"XONSH_VERSION": Str, "PYTHON_VERSION_INFO_BYTES": Bytes}
CFG = {"isinstance": {"CodeType": ["code"], "types.CodeType": ["code"]}}

contract(
    CC + "_check_cache_versions", "C19", params=dict(cfile=FILE), globals=G, returns=Bool,
    externals={"file.readline": Ext(ret=Bytes, event="readline", log="result", log_type=Bytes, raises=["OSError"])},
    emits=["readline"],
    raises={"OSError": True},
    ensures={"both-version-lines-must-match": 'result == (len(log("readline")) == 2 and log("readline")[0].strip() == XONSH_VERSION.encode() '
                                              'and log("readline")[1].strip() == PYTHON_VERSION_INFO_BYTES)'},
    from_property="Cache entries written by another xonsh or Python version ... are ignored",
)

VALID = ("os.path.isfile(cachefname) and os.stat(cachefname).st_mtime >= os.stat(filename).st_mtime")
contract(
    CC + "script_cache_check", "C19", params=dict(filename=Str, cachefname=Str), globals=G, externals=FS, config=CFG,
    returns=Tuple(Bool, Union(NoneT, CODE, OTHER)),
    calls={"_check_cache_versions": CC + "_check_cache_versions"},
    let={"run_cached": "result[0]", "ccode": "result[1]"},
    ensures={
        "only-a-fresh-entry-is-used": "implies(run_cached, %s)" % VALID,
        "a-stale-entry-is-never-used": "implies(os.path.isfile(cachefname) and os.stat(cachefname).st_mtime < os.stat(filename).st_mtime, not run_cached)",
        "what-is-used-is-what-the-entry-holds": "implies(run_cached, ccode == loaded)",
        "only-code-is-ever-handed-to-exec": "implies(run_cached, isinstance(ccode, types.CodeType))",
        "an-ignored-entry-yields-nothing": "implies(not run_cached, ccode is None)",
    },
    from_property="once the source has a newer modification time the new source runs ... entries written by another version, truncated by a "
                  "crash, or otherwise unreadable are ignored and rebuilt - never executed, never fatal (no exception escapes: every "
                  "`no-exception` obligation of this function)",
)

contract(
    CC + "code_cache_check", "C19", params=dict(cachefname=Str), globals=G, externals=FS, config=CFG,
    returns=Tuple(Bool, Union(NoneT, CODE, OTHER)),
    calls={"_check_cache_versions": CC + "_check_cache_versions"},
    let={"run_cached": "result[0]", "ccode": "result[1]"},
    ensures={
        "only-an-existing-entry-is-used": "implies(run_cached, os.path.isfile(cachefname))",
        "what-is-used-is-what-the-entry-holds": "implies(run_cached, ccode == loaded)",
        "only-code-is-ever-handed-to-exec": "implies(run_cached, isinstance(ccode, types.CodeType))",
        "an-ignored-entry-yields-nothing": "implies(not run_cached, ccode is None)",
    },
    from_property="entries ... otherwise unreadable are ignored and rebuilt - never executed, never fatal",
)

EXECER = Obj("Execer", scriptcache=Bool, cacheall=Bool)
ENVX = {
    'Env.__getitem__("XONSH_CACHE_SCRIPTS")': Ext(ret=Bool, pure=True, uf="CS"),
    'Env.__getitem__("XONSH_CACHE_EVERYTHING")': Ext(ret=Bool, pure=True, uf="CE"),
    "CS": Ext(ret=Bool, pure=True, uf="CS"), "CE": Ext(ret=Bool, pure=True, uf="CE"),
}
USE = ('((execer.scriptcache or execer.cacheall) and (CS("XONSH_CACHE_SCRIPTS") or CE("XONSH_CACHE_EVERYTHING")) if mode == "exec" '
       'else (execer.cacheall or CE("XONSH_CACHE_EVERYTHING")))')
contract(
    CC + "should_use_cache", "C19", params=dict(execer=EXECER, mode=Str), globals={"XSH": Obj("XSH", env=Obj("Env"))}, externals=ENVX,
    returns=Bool,
    ensures={"switch-truth-table": "bool(result) == %s" % USE},
    from_property="all combinations of the cache switches",
)

def _makedirs(R, args, kw, node, frame, recv):
    """os.makedirs(d, exist_ok=True): OSError exactly when the ghost file system cannot provide the directory"""
    from pyvc.core import PyRaise, Exc, mk_none
    ok = R.ctx.uf_apply(R, "dir_makeable", [args[0]], Bool)
    R.ctx.emit_log(R, "makedirs", args[0])
    if not R.decide(ok.z, R.lab(node, "makedirs-ok")):
        raise PyRaise(Exc("OSError", tag="os.makedirs"))
    return mk_none()


contract(
    CC + "update_cache", "C19", params=dict(ccode=CODE, cache_file_name=Union(NoneT, Str)), globals=dict(G, XSH=Obj("XSH", env=Obj("Env"))),
    externals={
        "os.makedirs": Ext(model=_makedirs, event="makedirs", log_type=Str, note="ghost file system: fails (OSError) exactly when the directory cannot be made"),
        "dir_makeable": Ext(ret=Bool, pure=True, uf="dir_makeable", args=[Str]), "os.path.dirname": Ext(ret=Str, pure=True),
        "is_writable_file": Ext(ret=Bool, pure=True), 'Env.get("XONSH_DEBUG")': Ext(ret=Bool, pure=True), "print_warning": Ext(),
        "open": Ext(ret=FILE, event="open", raises=["OSError", "FileExistsError", "PermissionError"],
                    requires=["a1 == 'wb'"], note="the entry is opened for a TRUNCATING binary write: an existing (stale, truncated, foreign-version) entry is replaced"),
        "file.write": Ext(event="write", log=0, log_type=Bytes, raises=["OSError"]),
        "marshal.dump": Ext(event="dump", log=0, log_type=CODE, raises=["OSError", "ValueError"]),
    },
    emits=["makedirs", "open", "write", "dump", "close"],
    locals={"writable": Bool},
    raises={"OSError": True, "ValueError": True},
    ensures={
        "header-then-payload": 'implies(len(log("dump")) == 1, len(log("write")) == 2 and log("write")[0] == XONSH_VERSION.encode() + b"\\n" '
                               'and log("write")[1] == PYTHON_VERSION_INFO_BYTES + b"\\n" and log("dump")[0] == ccode)',
        "nothing-written-when-not-writable": 'implies(cache_file_name is None or not is_writable_file(cache_file_name), len(log("open")) == 0 and len(log("write")) == 0)',
        "a-writable-entry-IS-rewritten-whenever-the-call-returns-normally (no silent keep of what was there)":
            'implies(cache_file_name is not None and dir_makeable(os.path.dirname(cache_file_name)) and is_writable_file(cache_file_name), len(log("open")) == 1 and len(log("dump")) == 1)',
    },
    from_property="entries written by another xonsh or Python version ... are ignored AND REBUILT (the writer stamps both versions, one per line, before the payload, "
                  "and replaces whatever entry was there); once the source is newer the new source runs",
)

# ---- cache key -------------------------------------------------------------------------------------
contract(
    CC + "_cache_renamer", "C19", params=dict(path=Str, code=Bool), returns=Seq(Str),
    externals={"os.path.realpath": Ext(ret=Str, pure=True, note="ghost: canonical path of a file (symlinks resolved)"),
               "os.path.abspath": Ext(ret=Str, pure=True)},
    abstract=[dict(line_contains="o = [", may_raise=False, reason="character mapping of the path components (an injective renaming, not verified)"),
              dict(line_contains="o[-1] = ", may_raise=False, reason="appends the interpreter cache tag")],
    locals={"o": List(Str)},
    asserts=[dict(before="o = [", label="script-entries-are-keyed-by-the-file's-real-path",
                  clause="code or path == os.path.realpath(old(path))")],
    from_property="observably identical to running it uncached (two different files never share a script entry: the key is the "
                  "real path, so a symlink that is re-pointed names a different entry)",
)

RUNX = {
    "get_cache_filename": Ext(ret=Str, pure=True, note="cache file name: a function of (file name | code digest, store)"),
    "open": Ext(ret=FILE, event="open", raises=["OSError"]),
    "file.read": Ext(ret=Str, pure=True, uf="content", note="ghost: current content of the source file"),
    "compile_code": Ext(ret=CODE, pure=True, uf="compiled", raises=["Exception+"], note="C(filename, source text, mode): the compiler as an uninterpreted function"),
    "run_compiled_code": Ext(ret=Opaque("excinfo"), event="run", log=0, log_type=Union(NoneT, CODE, OTHER)),
    "code_cache_name": Ext(ret=Str, pure=True, uf="digest", note="md5 of the code text, treated as injective (cryptographic assumption)"),
    "digest": Ext(ret=Str, pure=True, uf="digest"),
}
RUNX.update({k: v for k, v in FS.items() if k not in RUNX})
RUNX["is_writable_file"] = Ext(ret=Bool, pure=True)
RUNX["os.path.dirname"] = Ext(ret=Str, pure=True)
RUNX["dir_makeable"] = Ext(ret=Bool, pure=True, uf="dir_makeable", args=[Str])
CHECK_RET = Tuple(Bool, Union(NoneT, CODE, OTHER))
contract(
    CC + "run_script_with_cache", "C19",
    params=dict(filename=Str, execer=EXECER, glb=Opaque("ns"), loc=Opaque("ns"), mode=Str),
    globals=dict(G, XSH=Obj("XSH", env=Obj("Env"))), externals=dict(RUNX, **ENVX), config=CFG,
    calls={"should_use_cache": CC + "should_use_cache", "script_cache_check": CC + "script_cache_check", "update_cache": CC + "update_cache"},
    locals={"ccode": Union(NoneT, CODE, OTHER)},
    raises={"OSError": True, "Exception+": True, "ValueError": True},
    ensures={
        "cache-untouched-when-switched-off": 'implies(not %s, len(log("call:script_cache_check")) == 0 and len(log("call:update_cache")) == 0)' % USE,
        "runs-exactly-one-program": 'len(log("run")) == 1',
        "runs-code": 'isinstance(log("run")[0], types.CodeType)',
        "a-rebuilt-entry-is-stored": 'implies(%s and len(log("call:update_cache")) == 0, len(log("call:script_cache_check")) == 1)' % USE,
    },
    from_property="Running a script ... with the bytecode cache enabled is observably identical to running it uncached ... all combinations of the cache switches",
)
contract(
    CC + "run_code_with_cache", "C19",
    params=dict(code=Str, display_filename=Str, execer=EXECER, glb=Opaque("ns"), loc=Opaque("ns"), mode=Str),
    globals=dict(G, XSH=Obj("XSH", env=Obj("Env"))), externals=dict(RUNX, **ENVX), config=CFG,
    calls={"should_use_cache": CC + "should_use_cache", "code_cache_check": CC + "code_cache_check", "update_cache": CC + "update_cache"},
    locals={"ccode": Union(NoneT, CODE, OTHER)},
    raises={"OSError": True, "Exception+": True, "ValueError": True},
    asserts=[dict(before="use_cache = ", label="nothing", clause="True"),
             dict(before="run_cached = False", label="entry-is-named-by-the-digest-of-the-code-text-only",
                  clause="cachefname == get_cache_filename(digest(code), code=True)")],
    ensures={
        "cache-untouched-when-switched-off": 'implies(not %s, len(log("call:code_cache_check")) == 0 and len(log("call:update_cache")) == 0)' % USE,
        "runs-exactly-one-program": 'len(log("run")) == 1',
        "runs-code": 'isinstance(log("run")[0], types.CodeType)',
    },
    from_property="different code strings never share an entry (entry name = digest of the code text) ... all combinations of the cache switches",
)


# ---- native: writer/reader agreement and corruption tolerance (bounded stand-in / cross-check) ---------
def writer_reader(tier, seed):
    import marshal, os, tempfile, shutil
    import xonsh.codecache as cc
    from xonsh import __version__ as V
    from xonsh.platform import PYTHON_VERSION_INFO_BYTES as PV

    d = tempfile.mkdtemp(prefix="xv-c19-", dir=os.environ.get("XV_SCRATCH"))
    failures, n, samples = [], 0, []
    try:
        src = os.path.join(d, "s.xsh")
        open(src, "w").write("x = 1\n")
        code = compile("x = 1\n", src, "exec")
        cf = os.path.join(d, "sub", "entry")
        cc.update_cache(code, cf)
        os.utime(cf, (os.stat(src).st_mtime + 5,) * 2)
        good = open(cf, "rb").read()
        n += 1
        r = cc.script_cache_check(src, cf)
        if not (r[0] is True and r[1] == code) or cc.code_cache_check(cf) != r:
            failures.append({"clause": "the reader accepts exactly what the writer wrote", "inputs": {"case": "fresh entry"}, "observed": repr(r)})
        # every truncation point and a set of corruptions of the entry: ignored, never fatal, never non-code
        variants = [("truncate@%d" % k, good[:k]) for k in range(0, len(good), 1 if tier == "thorough" else 3)]
        variants += [("other-xonsh-version", b"0.0.0\n" + good.split(b"\n", 1)[1]),
                     ("other-python-version", good.split(b"\n", 2)[0] + b"\n(9, 9, 9)\n" + good.split(b"\n", 2)[2]),
                     ("non-code-payload", good.split(b"\n", 2)[0] + b"\n" + good.split(b"\n", 2)[1] + b"\n" + marshal.dumps([1, 2])),
                     ("empty", b""), ("garbage", b"\xff" * 64)]
        for name, data in variants:
            n += 1
            with open(cf, "wb") as f:
                f.write(data)
            os.utime(cf, (os.stat(src).st_mtime + 5,) * 2)
            for fn, args in ((cc.script_cache_check, (src, cf)), (cc.code_cache_check, (cf,))):
                try:
                    ok, obj = fn(*args)
                    bad = ok and not isinstance(obj, type(code))
                    if data != good and ok and obj != code:
                        bad = True
                except BaseException as e:  # noqa
                    bad, ok, obj = True, None, repr(e)
                if bad and len(failures) < 5:
                    failures.append({"clause": "a corrupt / foreign entry is ignored: never fatal, never executed",
                                     "inputs": {"variant": name, "function": fn.__name__}, "observed": repr((ok, obj))})
            if len(samples) < 3:
                samples.append(name)
        # stale entry
        n += 1
        with open(cf, "wb") as f:
            f.write(good)
        os.utime(cf, (os.stat(src).st_mtime - 5,) * 2)
        if cc.script_cache_check(src, cf)[0]:
            failures.append({"clause": "a stale entry is never used", "inputs": {"case": "cache older than source"}, "observed": "used"})
    finally:
        shutil.rmtree(d, ignore_errors=True)
    return {"kind": "bounded", "evaluations": n, "distinct_nontrivial": n, "failures": failures, "exhaustive": False,
            "bound": "one entry, every%s truncation point, 5 corruptions" % ("" if tier == "thorough" else " third"),
            "domain": "real update_cache -> real script_cache_check / code_cache_check on real files", "samples": samples}


native_check("C19", "writer-reader-agreement", "bounded", writer_reader,
             doc="what update_cache writes is what the checks accept; truncations / corruptions are ignored")


# ---- imported xonsh modules go through the same cache: the import hook's get_code ------------------------------------------------------
IH = "xonsh/imphooks.py::"
HOOK = Obj("XonshImportHook", _execer=EXECER, _filenames=Opaque("names"))
IMPX = dict(RUNX, **ENVX)
IMPX.update({
    "XonshImportHook.get_filename": Ext(ret=Union(NoneT, Str), pure=True, uf="module_file"), "module_file": Ext(ret=Union(NoneT, Str), pure=True, uf="module_file"),
    "XonshImportHook.get_source": Ext(ret=Str, pure=True, uf="module_source", raises=["OSError", "Exception+"], note="ghost: current source text of the module file"),
    "module_source": Ext(ret=Str, pure=True, uf="module_source"),
})
contract(
    IH + "XonshImportHook.get_code", "C19", params=dict(self=HOOK, fullname=Str),
    globals=dict(G, XSH=Obj("XSH", env=Nullable(Obj("Env")))), externals=IMPX, config=CFG, returns=Union(CODE, OTHER),
    calls={"should_use_cache": CC + "should_use_cache", "script_cache_check": CC + "script_cache_check", "update_cache": CC + "update_cache"},
    locals={"ccode": Union(NoneT, CODE, OTHER), "ctx": Opaque("ns")},
    raises={"ImportError": "module_file(self, fullname) is None", "OSError": True, "Exception+": True, "ValueError": True},
    raises_iff=["ImportError"],
    ensures={
        "cache-untouched-when-switched-off-or-no-session": 'implies(XSH.env is None, len(log("call:script_cache_check")) == 0 and len(log("call:update_cache")) == 0)',
        "hands-the-import-machinery-a-code-object": "isinstance(result, types.CodeType)",
    },
    abstract=[dict(line_contains="ctx = {}", may_raise=False, reason="a fresh dummy namespace for the module")],
    ensures_locals={
        "a-module-compiled-afresh-is-the-compilation-of-its-current-source":
            'implies(len(log("call:script_cache_check")) == 0 or len(log("call:update_cache")) == 1, result == compiled(module_file(self, fullname), module_source(self, fullname), self._execer, ctx, ctx, "exec"))',
    },
    from_property="Running a script ... with the bytecode cache enabled is observably identical to running it uncached (imported .xsh modules: the hook returns either an entry "
                  "script_cache_check accepted - its own contract - or the compilation of the current source; nothing else)",
)
