"""C05 - chains, exit codes and fail-fast follow the documented truth table."""
from pyvc.contract import *

ARGS = Opaque("args")
OUT = Opaque("output")
SPEC = Rec("spec", background=Bool, captured=Union(Bool, Str, NoneT), raise_subproc_error=Union(NoneT, Bool),
           in_boolop=Bool, args=ARGS)
# a value handed to the wrapper: a CommandPipeline (spec/returncode attributes) or a str / None / list result
CP = Rec("cp", spec=Union(NoneT, SPEC), returncode=Union(NoneT, Int), output=OUT)
VALUE = Union(NoneT, Str, Seq(Str), CP)
XSHT = Obj("XSH", env=Obj("Env"), lastcmd=Union(NoneT, CP))
CFG = {"isinstance": {"CommandPipeline": ["cp"]}}
B = "xonsh/built_ins.py::"
EXT = {
    'Env.get("XONSH_SUBPROC_RAISE_ERROR")': Ext(ret=Bool, pure=True, uf="RAISE"),
    'Env.get("XONSH_SUBPROC_CMD_RAISE_ERROR")': Ext(ret=Bool, pure=True, uf="CMD_RAISE"),
    "RAISE": Ext(ret=Bool, pure=True, uf="RAISE", note="$XONSH_SUBPROC_RAISE_ERROR"),
    "CMD_RAISE": Ext(ret=Bool, pure=True, uf="CMD_RAISE", note="$XONSH_SUBPROC_CMD_RAISE_ERROR"),
}

# the pipeline the decision is about: the value itself when it is a finished pipeline, else the last command
DEFS = {
    "own": "lambda: isinstance(value, CommandPipeline) and value.spec is not None and value.returncode is not None",
    "own_bg": "lambda: isinstance(value, CommandPipeline) and value.spec is not None and value.spec.background",
    "eff": "lambda: value if own() else XSH.lastcmd",
    "failed": "lambda p: p is not None and p.spec is not None and not p.spec.background and p.returncode is not None "
              "and p.returncode != 0 and p.spec.captured != 'object' and p.spec.raise_subproc_error is not False",
}

contract(
    B + "subproc_check_boolop", "C05", params=dict(value=VALUE), globals={"XSH": XSHT}, externals=EXT, config=CFG, defs=DEFS,
    returns=VALUE,
    raises={"CalledProcessError": 'RAISE("XONSH_SUBPROC_RAISE_ERROR") and not own_bg() and failed(eff())'},
    raises_iff=["CalledProcessError"],
    ensures={"passes-the-value-through": "result == value"},
    from_property="after the statement a CalledProcessError is raised iff the last command that ran failed - except `!()` results and "
                  "`@error_ignore`d commands ... `$XONSH_SUBPROC_RAISE_ERROR=False` turns chain raising off",
)

contract(
    B + "_check_subproc_helper_raise", "C05", params=dict(in_boolop=Bool), globals={"XSH": XSHT}, externals=EXT, config=CFG,
    defs={"failed": DEFS["failed"]},
    raises={"CalledProcessError": 'not in_boolop and RAISE("XONSH_SUBPROC_RAISE_ERROR") and failed(XSH.lastcmd)'},
    raises_iff=["CalledProcessError"],
    from_property="a CalledProcessError is raised iff the last command that ran failed (operands of a chain are left to the chain wrapper)",
)

P = "xonsh/procs/pipelines.py::"
PIPE = Obj("CommandPipeline", spec=Obj("Spec", raise_subproc_error=Union(NoneT, Bool), in_boolop=Bool, args=ARGS),
           returncode=Union(NoneT, Int), output=OUT)
contract(
    P + "CommandPipeline._raise_subproc_error", "C05", params=dict(self=PIPE), globals={"XSH": Obj("XSH", env=Obj("Env"))},
    externals=dict(EXT, **{"CommandPipeline._return_terminal": Ext(event="return_terminal", log="const")}),
    emits=["return_terminal"],
    raises={"CalledProcessError": "self.returncode is not None and self.returncode != 0 and (self.spec.raise_subproc_error is True or "
                                  '(self.spec.raise_subproc_error is None and not self.spec.in_boolop and CMD_RAISE("XONSH_SUBPROC_CMD_RAISE_ERROR")))'},
    raises_iff=["CalledProcessError"],
    ensures={"terminal-untouched-without-error": 'len(log("return_terminal")) == 0'},
    ensures_exc={"terminal-returned-before-raising": 'len(log("return_terminal")) == 1'},
    assumptions=["spec.raise_subproc_error is None/True/False (the callable form, resolved by calling user code, is not modelled)",
                 "self.returncode / self.output are read as attributes (the blocking properties' waiting is C06/C09 territory)"],
    from_property="`@error_raise` and `$XONSH_SUBPROC_CMD_RAISE_ERROR` raise at the failing command itself",
)

contract(
    P + "CommandPipeline.__bool__", "C05", params=dict(self=PIPE), returns=Bool,
    ensures={"zero-is-true": "result == (self.returncode == 0)"},
    from_property="short-circuit evaluation over exit codes (0 is true)",
)

PROC = Obj("Proc", returncode=Union(NoneT, Int))
PIPE2 = Obj("CommandPipeline", proc=Nullable(PROC))
contract(
    P + "CommandPipeline.returncode", "C05", params=dict(self=PIPE2), returns=Union(NoneT, Int),
    globals={"XSH": Obj("XSH", env=Obj("Env"))},
    externals={"CommandPipeline.end": Ext(note="drains and closes the pipeline (C06/C09)"),
               "Proc.poll": Ext(ret=Union(NoneT, Int), raises=["Exception+"], bind="polled"),
               'Env.get("XONSH_SUBPROC_TRACE")': Ext(ret=Bool, pure=True), "xt.print_exception": Ext()},
    ensures={
        "no-process-counts-as-failure": "implies(self.proc is None, result == 1)",
        "the-last-stage's-code": "implies(self.proc is not None and self.proc.returncode is not None, result == self.proc.returncode)",
    },
    from_property="a pipeline's code is its last stage's",
)

X = "xonsh/procs/proxies.py::"
ELEM = Union(NoneT, Str, Int, Bool, Opaque("obj"))
RET = Union(NoneT, Str, Int, Bool, Seq(ELEM), Opaque("obj"))
STREAM = Opaque("stream")
contract(
    X + "parse_proxy_return", "C05", params=dict(r=RET, stdout=STREAM, stderr=STREAM), returns=Int,
    config={"isinstance": {}},
    externals={"stream.write": Ext(event="write", log=0), "stream.flush": Ext(), "xt.endswith_newline": Ext(ret=Str, pure=True)},
    ensures={
        "int-is-the-return-code": "implies(isinstance(r, int), result == (r if not isinstance(r, bool) else (1 if r else 0)))",
        "third-element-is-the-return-code": "implies(isinstance(r, cabc.Sequence) and not isinstance(r, str), "
                                            "result == ((r[2] if not isinstance(r[2], bool) else (1 if r[2] else 0)) if (len(r) > 2 and isinstance(r[2], int)) else 0))",
        "anything-else-is-success": "implies(r is None or isinstance(r, str), result == 0)",
    },
    from_property="a pipeline's code is its last stage's (callable aliases report theirs through this decoder)",
)

# ---- AST pass: which BoolOps get the runtime check ---------------------------------------------------
NODE = Opaque("node")
PB = "xonsh/parsers/base.py::"
AST_EXT = {
    "ast.walk": Ext(ret=Seq(NODE), pure=True, uf="desc", note="ghost: finite sequence of all descendants of a node (node itself first)"),
    "desc": Ext(ret=Seq(NODE), pure=True, uf="desc"),
    "_is_subproc_helper_call": Ext(ret=Bool, pure=True, uf="is_helper", note="node is a Call to a __xonsh__.subproc_* helper"),
    "is_helper": Ext(ret=Bool, pure=True, uf="is_helper"),
    "node.values": Ext(ret=Seq(NODE), pure=True, attr=True, note="direct operands of a BoolOp"),
}
contract(
    PB + "_boolop_contains_subproc", "C05", params=dict(node=NODE), returns=Bool, externals=AST_EXT,
    loops={"for#1": dict(invariant={"none-so-far": "forall(lambda k: not is_helper(desc(node)[k]), 0, _i)"})},
    ensures={"any-descendant-at-any-depth": "result == exists(lambda k: is_helper(desc(node)[k]), 0, len(desc(node)))"},
    from_property="nested or mixed chains ... (the outermost chain is checked whenever a command occurs anywhere below it)",
)


# ---- native world (replay / cross-check over the full record cross product) --------------------------
class _NS:
    def __init__(self, **kw):
        self.__dict__.update(kw)

    def __eq__(self, o):
        return isinstance(o, _NS) and self.__dict__ == o.__dict__

    def __repr__(self):
        return "NS(%s)" % ", ".join("%s=%r" % kv for kv in self.__dict__.items())


def _mk_cp(rec):
    if rec is None:
        return None
    if not isinstance(rec, dict):
        return rec
    spec = rec.get("spec")
    if isinstance(spec, dict):
        spec = _NS(background=spec["background"], captured=spec["captured"], raise_subproc_error=spec["raise_subproc_error"],
                   in_boolop=spec.get("in_boolop", False), args=["cmd"])
    return _NS(spec=spec, returncode=rec.get("returncode"), output="")


def _prep(inputs):
    v = inputs.get("value")
    inputs["value"] = _mk_cp(v) if isinstance(v, dict) else v
    x = inputs.get("XSH") or {}
    fields = x.get("fields", x) if isinstance(x, dict) else {}
    last = fields.get("lastcmd") if isinstance(fields, dict) else None
    inputs["XSH"] = _NS(lastcmd=_mk_cp(last), env=None)
    return inputs


def _builtins_harness(fname, argnames):
    def run(inputs):
        import xonsh.built_ins as bi
        from xonsh.built_ins import XSH

        saved_env, saved_last = XSH.env, getattr(XSH, "lastcmd", None)
        XSH.env = {"XONSH_SUBPROC_RAISE_ERROR": inputs.get("raise_flag", True), "XONSH_SUBPROC_CMD_RAISE_ERROR": inputs.get("cmd_raise_flag", False)}
        XSH.lastcmd = inputs["XSH"].lastcmd
        try:
            return getattr(bi, fname)(*[inputs[a] for a in argnames])
        finally:
            XSH.env, XSH.lastcmd = saved_env, saved_last
    return run


def _c05_native_env(inputs):
    return {"RAISE": lambda name: inputs.get("raise_flag", True), "CMD_RAISE": lambda name: inputs.get("cmd_raise_flag", False),
            "CommandPipeline": _NS}


def _c05_domain(with_value):
    def dom(tier, seed):
        import itertools
        specs = [None] + [{"background": b, "captured": c, "raise_subproc_error": r, "in_boolop": False}
                          for b in (False, True) for c in (False, "stdout", "object", "hiddenobject") for r in (None, True, False)]
        cps = [None] + [{"spec": s, "returncode": rc} for s in specs for rc in (None, 0, 2)]
        values = [None, "out"] + cps[1:]
        cases = []
        for flag in (True, False):
            for last in cps:
                if with_value:
                    for v in values:
                        cases.append({"value": v, "XSH": {"lastcmd": last}, "raise_flag": flag})
                else:
                    for ib in (False, True):
                        cases.append({"in_boolop": ib, "XSH": {"lastcmd": last}, "raise_flag": flag})
        if tier == "quick" and len(cases) > 4000:
            step = len(cases) // 4000 + 1
            cases = cases[seed % step::step]
        return {"cases": cases, "bound": "returncode in {None, 0, 2}", "domain": "full cross product of value x lastcmd records x flag (%d cases)" % len(cases)}
    return dom


for _c in BY_PROP["C05"]:
    q = _c.target.split("::")[1]
    if q in ("subproc_check_boolop", "_check_subproc_helper_raise"):
        _c.native_prepare = _prep
        _c.native_env = _c05_native_env
        _c.ghost_inputs = {"raise_flag": 'RAISE("XONSH_SUBPROC_RAISE_ERROR")'}
        _c.replay = _builtins_harness(q, ("value",) if q == "subproc_check_boolop" else ("in_boolop",))
        _c.native_domain = _c05_domain(q == "subproc_check_boolop")
