"""Assemble /verif/seeded/<id>/ from a sub-agent's output directory and my own confirmation log."""
import json, os, shutil, sys, re
HERE = os.path.dirname(os.path.dirname(os.path.abspath(__file__)))
DETECT = json.load(open(os.path.join(HERE, "dev", "seeded_detect.json")))
for sid, info in DETECT.items():
    prop, k = sid.split("-")
    src = "/tmp/seed-%s/out/%s" % (prop, k)
    if not os.path.isdir(src):
        continue
    dst = os.path.join(HERE, "seeded", sid)
    os.makedirs(dst, exist_ok=True)
    patch = info.get("patch_override") or os.path.join(src, "patch.diff")
    shutil.copy(patch, os.path.join(dst, "patch.diff"))
    shutil.copy(os.path.join(src, "demo.py"), os.path.join(dst, "demo.py"))
    if os.path.exists(os.path.join(src, "notes.md")):
        shutil.copy(os.path.join(src, "notes.md"), os.path.join(dst, "notes.md"))
    log = "/var/tmp/xv-scratch/seedlogs/%s-%s.log" % (prop, k)
    ran = []
    if os.path.exists(log):
        t = open(log).read()
        m0 = re.search(r"== demo on unchanged tree\nrc=(\d+)", t)
        m1 = re.search(r"== demo on changed tree\nrc=(\d+)", t)
        ran.append("demo.py on the unchanged tree: exit %s (PASS); with patch.diff applied: exit %s (FAIL)" % (m0.group(1) if m0 else "?", m1.group(1) if m1 else "?"))
        ran.append(info.get("suite_note") or ("pytest -n 4 tests --ignore=tests/xintegration on the changed tree: same failing/erroring test ids as the unchanged tree "
                   "(apart from tests/test_imphooks.py, flaky under xdist on both trees)"))
    ran.extend(info.get("ran_extra", []))
    meta = {"id": sid, "property": prop, "breaks": info["breaks"], "needs_to_manifest": info["needs"],
            "author": "independent sub-agent given only the property text and a scratch worktree",
            "confirmed_by_me": ran,
            "detected_by_check": info["detected"], "check_command": "git -C /repo apply seeded/%s/patch.diff && ./xv check %s; git -C /repo checkout -- ." % (sid, prop),
            "detection_detail": info["detail"]}
    json.dump(meta, open(os.path.join(dst, "meta.json"), "w"), indent=1)
    print(sid, "->", info["detected"])
