"""Regenerates MANIFEST.json from the table below (kept valid at all times)."""
import json, os, sys
HERE = os.path.dirname(os.path.dirname(os.path.abspath(__file__)))
props = [json.loads(l) for l in open(os.path.join(HERE, "properties.jsonl"))]
TECH = "contracts on the real source; AST -> VC (own symbolic executor); z3 + cvc5; counter-models replayed natively"

TECH_PARTIAL = ("contract-based deductive verification of the listed functions (contracts on the real source; AST -> VC by pyvc; z3 + cvc5) decides the listed clauses; "
                "the rest of the property is covered only by bounded native stand-ins on the real code, labelled bounded and not counted as proved")
TECH_BOUNDED = ("bounded native exploration of the real code (stand-in, not a proof): the property is stated through xonsh's lexer, which no contract can use as a specification; "
                "contract-based deductive verification (pyvc, z3) covers two supporting asserts only")
CLAIMED = {
 "C14": dict(
   category="proof",
   text="Unbounded proof (all file lists, limits, loop iterations) of the four per-unit GC selectors against the property's own "
        "clauses (prefix = oldest-first, fits, maximal, within-limit => nothing), of JsonHistoryGC.run (removes only the selected "
        "prefix, in order, refuses unless forced when it would discard more than it keeps, a failing removal does not stop the "
        "rest, nothing removed before an error) and of JsonHistoryGC.files (result sorted oldest-first, never contains a live "
        "session's file). Every obligation is regenerated from /repo's current source on each run. Bounded stand-in (not counted as proved): the real "
        "JsonHistoryGC.files / run on real lazyjson files - every directory of <= 4 (thorough 5) files out of {locked live, unlocked old} x {0, 2 commands} x 5 limits: "
        "no live session's file is offered or removed.",
   note="Assumed/unverified: SQLite backend (SQL executed by the engine), LazyJSON/os calls as declared externals (ghost world), "
        "meaning of `live` given by assumed external contracts (lock flag off, or created before last boot, or empty file => not live), "
        "float timestamps as reals, sequential execution, the dispatch table built in __init__. Trusted: pyvc engine + library models + z3/cvc5.",
   design="§3 C14"),
 "C20": dict(
   category="proof",
   text="Representation invariant Table (the MRU order is a permutation of exactly the job numbers: multiset count of x in the order "
        "is 1 if x is a job else 0) proved preserved, for all tables and arguments, by every operation under contract: _clear_dead_jobs "
        "(removes exactly the finished jobs from both structures), get_next_job_number (lowest free number >= 1, with a termination "
        "variant), add_job, get_next_task, resume_job (fg/bg selection: no argument, +, -, number; errors leave the table alone; MRU "
        "update keeps the order of the rest), fg (exactly one resume_job call with the wording `fg`), bg, disown_fn (no argument or one number), jobs (the listing prints exactly the most-recently-used order after the finished jobs are purged: every live job once, "
        "no finished one - loop invariant), plus the thread-view functions get_tasks / "
        "get_jobs / use_main_jobs (with-contract: body runs on the main table, previous view restored on normal and exceptional exit). "
        "The same contracts are evaluated natively on all tables over job numbers 1..3 as an engine cross-check.",
   note="Unverified: truly concurrent mutation (signal handler / second thread between two statements), the real process state behind "
        "poll() (ghost function, constant during a call), terminal hand-over in pipeline.resume, _continue/kill; disown with several ids "
        "(outside the statement); records are owned by their table slot; "
        "Trusted: pyvc engine + library models (deque/dict/set) + z3/cvc5.",
   design="§3 C20"),
 "C15": dict(
   category="proof",
   text="Aliases.eval_alias under contract for every alias table and command (list, callable, decorator and return_command aliases, "
        "any cycle shape): termination of the recursion by a variant (number of alias names not yet in the seen set, strictly "
        "decreasing at the recursive call), each alias expanded at most once per chain (ghost expansion log duplicate-free and "
        "disjoint from the seen set), result stops at a fixed point, the user's arguments are a suffix of the result in their "
        "original order (chains without return_command), decorators only appended; the alias table is only read through get/in/[] "
        "(order independence: iterating it is an obligation failure). Aliases.get (also: the alias looked up is not expanded again in its own chain - `ls -> ls --color`, a return_command alias returning its own name), SubprocSpec.resolve_decorators / add_decorator / "
        "resolve_alias (every decorator collected by the chain applied once, in order; no re-entry for a running alias) and "
        "resolve_binary_loc (recursive-alias error iff ...) are verified against callee contracts, never bodies.",
   note="Assumed: finite alias table (two cardinality axioms: card >= 0, inserting a new name decreases the unseen count by 1); "
        "what a callable / return_command alias does when run (external, may raise); expand_path is a pure function of one word (C04); "
        "string-alias classification in Aliases.__setitem__ (lexer) not verified. Bounded stand-in (not proved): real Aliases.get on every table over 2 (thorough 3) names x {list alias, return_command alias} x heads: no alias body runs twice in a chain, the user's arguments come last once. Trusted: pyvc engine + models + z3/cvc5.",
   design="§3 C15"),
 "C05": dict(
   category="proof",
   text="The truth table lives in loop-free decision functions, so path enumeration over fully symbolic records is complete: "
        "subproc_check_boolop and _check_subproc_helper_raise raise CalledProcessError IFF the documented predicate holds (raise flag, "
        "effective pipeline = the value if it is a finished pipeline else the last command, not background, code not None/0, not !() "
        "capture, not @error_ignore) and otherwise pass the value through; CommandPipeline._raise_subproc_error raises IFF (@error_raise "
        "or standalone with $XONSH_SUBPROC_CMD_RAISE_ERROR) and returns the terminal before raising; __bool__ <=> returncode == 0; "
        "returncode is 1 without a process else the last stage's; parse_proxy_return decodes int / 3rd element / else 0; "
        "_boolop_contains_subproc sees helpers at any depth (loop invariant); CommandPipeline.__init__ leaves no process handle when a stage cannot be "
        "spawned (so the pipeline reports failure) and otherwise makes the last stage the pipeline's process; _SubprocChainRaiseWrapper._visit_boolop (the AST pass that inserts the "
        "check) leaves its nesting flag as it found it on EVERY exit - normal, early return, exception - so a later chain of the same parse is still recognised as outermost; _maybe_wrap_stmt_value gives a standalone bare-command / ![] statement the raise check exactly once (captured forms and "
        "values the chain pass already wrapped are left alone). Enum (complete): the @error_raise/@error_ignore rows of the "
        "real alias table. Bounded stand-in (not counted as proved): the real AST wrapper + runtime decision executed on every chain shape "
        "of up to 4 (thorough: 5) commands against reference short-circuit semantics; real ![..] / !(..) / $(..) / bare operands x exit 0 / 3 x output yes / no x 4 operators on real /bin/sh children.",
   note="KNOWN FINDING (recorded): a `$(cmd)` operand decides a chain by whether the command wrote output, not by its exit code ($() yields a string). Unverified: that the parser produces BoolOps/helper calls for &&/|| and for text that is / is not valid Python; that a failing "
        "operand really reports a non-zero code (process machinery, C06/C09); main_xonsh exit-status selection; callable raise_subproc_error. "
        "Trusted: pyvc engine + models + z3/cvc5.",
   design="§3 C05"),
 "C19": dict(
   category="proof",
   text="Over a ghost file system (isfile / mtime / open / readline / marshal.load as externals that may fail or return an arbitrary "
        "object): script_cache_check and code_cache_check use an entry only if it exists, is not older than the source, carries both "
        "version lines, loads, and IS a code object; every other case (and every exception of every external) yields (False, None) - no "
        "exception escapes (exhaustive path enumeration; no-exception obligations). should_use_cache equals the documented switch truth "
        "table; update_cache writes version line, python line, payload in that order and nothing when not writable, opens the entry for a TRUNCATING write (an existing entry is replaced) and rewrites a writable entry on every normal return; run_script_with_cache "
        "/ run_code_with_cache touch the cache only when switched on, run exactly one code object, name code entries by the digest of the "
        "text only; _cache_renamer keys script entries by the file's real path; the import hook (XonshImportHook.get_code) hands the import machinery either an entry script_cache_check accepted or the "
        "compilation of the module's CURRENT source - always a code object - and raises ImportError exactly for an unknown module. Bounded stand-in: real writer -> real readers on real "
        "files, every truncation point and 5 corruptions.",
   note="Assumed: md5 injective; the compiler as an uninterpreted function C(filename, text, mode); the equal-mtime window (>= keeps an "
        "entry written in the same timestamp tick); os.stat of an existing path does not fail during the call; marshal format stability not verified. Two genuine defects found and repaired (fix: cda8cf0). Trusted: pyvc engine + models + z3/cvc5.",
   design="§3 C19"),
 "C13": dict(
   category="proof",
   text="Effect-trace discipline proved for every path (including every exceptional path: each file-system call may fail) of the four "
        "JSON history rewriters - JsonHistoryFlusher.dump (flush), JsonHistory.delete, JsonHistory.erasedups, JsonHistoryGC.files (unlock): "
        "an existing history file is never opened for writing in place; every os.replace(tmp, target) has tmp created by mkstemp(dir=dirname("
        "target)) in this call, completely written (no failed write) and closed; only own temp files are unlinked; writes only go through "
        "temp handles; raw os.write / os.close on the mkstemp descriptor are outside the discipline (a short write is not an error there): any such call is a failed call "
        "precondition. Hence every prefix of the trace (any crash point, any single failing call) leaves each file its complete old or new "
        "version. dump additionally keeps the loaded commands as a prefix of what it stages (commands saved earlier are never lost). "
        "SQLite backend (transaction discipline): _xh_sqlite_get_conn opens the connection with NO keyword argument (python's default isolation level; any keyword is a "
        "failed call precondition), hands it out inside exactly one `with conn:` scope and closes it on every path; xh_sqlite_erasedups (loop invariant), "
        "xh_sqlite_delete_input_matching (loop invariant), xh_sqlite_delete_items, xh_sqlite_wipe_session and xh_sqlite_append_history issue all their statements inside "
        "one connection scope and never commit before their last statement, on normal and exceptional paths.",
   note="ASSUMED (the database engine): implicit transactions in the default isolation mode, commit / rollback by `with conn:`, journal "
        "recovery after a kill. Unverified: WAL mode, durability across power loss (no fsync), flush-at-exit / signal handling, "
        "JsonHistory.clear (discards content by intent; not among the listed operations), the buffer/dedup data computations (abstracted, "
        "see C12). Atomicity of os.replace and freshness of mkstemp names are assumed (POSIX). One genuine defect found and repaired "
        "(fix: 1023136). Trusted: pyvc engine + contracts/fsmodel.py event discipline + z3.",
   design="§3 C13"),
 "C16": dict(
   category="proof",
   text="With a ghost process directory CWD (os.chdir either sets it or raises and changes nothing) and a ghost predicate for which chdir "
        "would succeed: _change_working_directory is all-or-nothing, keeps $PWD == CWD, sets $OLDPWD to the previous $PWD and reports "
        "whether it happened; cd / pushd_fn / popd_fn / dirs_fn preserve $PWD == CWD; a non-zero return code implies $PWD, $OLDPWD, CWD and "
        "DIRSTACK are unchanged; a zero code with an attempted chdir implies the process really is there; cd - / cd -N / pushd dir / pushd / "
        "pushd -n / popd / popd +-N / dirs +-N select the documented entries under both $PUSHD_MINUS settings; the stack holds at most "
        "$DIRSTACK_SIZE entries after every pushd and truncation drops from the bottom (pushd / popd with and without the listing they print). cd under $AUTO_PUSHD pushes the directory left through `pushd -n -q` only (the alias is ASSUMED to decode into pushd_fn, whose verified clause is used), so the stack stays within $DIRSTACK_SIZE there too. with_pushd - `pushd d` "
        "then `popd` around a body (with-contract, callers checked against the pushd_fn / popd_fn CONTRACTS): with room on the stack, afterwards $PWD, the process directory and the stack are exactly as before, "
        "or - when the way back fails - exactly the pushed state, never a mixture; once the process is back in the old directory the stack is as before too; the way back is attempted exactly once on "
        "every exit of the body, exceptional ones included; a failed pushd changes nothing and raises. All paths, all stacks, all arguments. The same "
        "contracts are evaluated on a real directory tree (stacks of <= 3 dirs, injected chdir failures) as cross-check.",
   note="KNOWN FINDING (recorded, class excluded from the rotation clause only): pushd +-N moves entry N to the top instead of rotating. "
        "Two genuine defects repaired (fix: 917b945, 38594ac). Unverified: symlink semantics of realpath / cd -P, $CDPATH globbing, Windows UNC "
        "mapping, ArgParserAlias argument decoding, the default (tilde-abbreviated) dirs listing, the path-literal cd() context "
        "manager, BaseShell._fix_cwd; with_pushd's body is ASSUMED to leave directory and stack as it found them. Assumes stack entries are absolute paths. Trusted: pyvc engine + models + z3/cvc5.",
   design="§3 C16"),
 "C11": dict(
   category="proof",
   text="State = shared layer G, the running thread's override layer L, the thread's overlay stack. Env.swap is verified as a with-contract: "
        "entry loops (capture then thread-local set, loop invariants over the processed keys), an ARBITRARY body (L and G havoced; may raise "
        "Exception or KeyboardInterrupt), exit loop: every swapped variable is back to its previous override state (present with the same "
        "value, or absent), assignments to other variables persist, G is exactly what the body left, the overlay stack is as before - on "
        "normal and on exceptional exit. _capture_for_swap captures only the thread's own override; InternalEnvironDict.set_locally / "
        "del_locally / __setitem__ and the real Env._set_item / Env._del_item in thread-local mode never touch G (including the write to a "
        "`sync` partner; the recursion carries a termination variant); InternalEnvironDict.get_local_overrides hands out a COPY of the thread's overrides and set_local_overrides makes the thread's overrides exactly the given ones without touching the shared layer "
        "(the two primitives behind `worker threads inherit the spawner's view`); Env.__contains__ and Env.__getitem__ agree: `[]` raises KeyError "
        "exactly when `in` is False, with the top-most overlay deciding and DELETE_VAR masking. "
        "Bounded stand-in (not proved): every nesting of <= 3 (thorough 4) scopes out of 8 forms (kwargs / `other` / both / overlay / DELETE_VAR mask / masked overlay / new variable / a value that fails to convert) with a normal or "
        "exceptional exit at each level, an assignment to another variable inside, the scoped variable deleted (or assigned then deleted) inside a scope that holds it thread-locally, and an observer thread at the innermost point; views: in, [], get, detype.",
   note="Unverified: preemption between statements of swap / two threads inside _set_item on G; threading.local itself; WHEN worker threads "
        "copy the spawner's overrides (the call sites in proxies / posix; the two primitives are verified); iteration and detype views (C10); $UPDATE_OS_ENVIRON mirroring; swap relies "
        "on stronger clauses of _set_item/_del_item which are now PROVED on the real functions under their side conditions (valid value, no sync partner, variable still "
        "known at exit: contracts #strong) - what remains assumed is that these side conditions hold at swap's call sites and on with-body "
        "hypotheses (overlay stack discipline, no assignment of a swapped key in G, no deletion of a swapped override). Three genuine defects "
        "repaired (fix: 2d8e883; 642ef66: a value failing to convert while entering a swap left the earlier variables swapped - bounded check only; 8acad4e: the same variable in `other` and as a keyword was restored to the wrong value - the contract no longer needs a no-duplicate precondition). Trusted: pyvc engine + models + z3/cvc5.",
   design="§3 C11"),
 "C10": dict(
   category="proof",
   text="Representation invariant of the detype cache, INV: Env._detyped is None or equals DET(shared layer) pointwise (a key is exported iff it is "
        "set, not the DELETE_VAR mask, has a detyper and detypes to a string; the exported string is det(detyper, value)). Env.detype is proved for "
        "all layers / overlay stacks / cache states: the result is DET of the calling thread's effective mapping (overlays top-most first, over the "
        "thread's swap overrides, over the shared layer - two loops with invariants), masked and untranslatable entries omitted and nothing else, INV "
        "kept, the cache used and filled only by a thread without overlays or overrides. Env._set_item (both modes, sync partner recursion, "
        "$UPDATE_OS_ENVIRON mirroring and its rollback), Env._del_item, Env.replace_env, Env.__getitem__ (materialised callable defaults) and the "
        "layered-dict primitives keep INV on normal AND exceptional exit (i.e. the cache is dropped whenever the shared layer changed), and "
        "__getitem__ drops the cache whenever it hands out an editable value. SubprocSpec.prep_env_subproc computes the child's mapping while exactly this stage's overlay is swapped in "
        "and hands the child that mapping. Scalar converter/detyper pairs (to_bool/bool_to_str, "
        "to_bool_or_none, to_bool_or_int, to_int_or_none, to_shlvl/adjust_shlvl) are proved inverse on all valid values (string theory). "
        "Enum (complete): value types of the real registry vs the `editable` predicate. Bounded stand-ins (never counted as proved): "
        "convert(detype(v)) == v over all registered variables x a value pool; cached vs recomputed detype() after every history of <= 4 (thorough 5) "
        "operations out of 12 (set, del, hold, edit held, edit direct, swap+launch, read default, another thread inside a swap, equal-but-different re-assign); every stack of <= 3 (thorough 4) overlays / swaps on the same variables: the child's mapping says what a read says, innermost first.",
   note="KNOWN FINDINGS (recorded): an edit through a reference obtained before the last launch is not seen (cache dropped on READ of a mutable); six lossy "
        "string formats ($PATHEXT / csv sets with empty or separator-containing elements, non-integral history sizes, bools in int variables, None in "
        "pattern / logfile variables). Two genuine defects repaired (fix: 7aeafb3, 2d58ace). Unverified: LsColors / EnvPath / history-tuple / csv converters by SMT (bounded only), the detyper of each variable as a "
        "function (det) that may raise, ChainMap semantics of dict(self._d), os.environ mirroring content. Trusted: pyvc engine + models + z3/cvc5.",
   design="§3 C10"),
 "C07": dict(
   category="proof",
   text="cmds_to_specs on the real source with SubprocSpec objects kept as records in their list slots and the REAL stdin/stdout/stderr property "
        "setters inlined: (1) stage k is built from the k-th command with the overlay written in front of it, in order (loop invariant); (2) for every "
        "`|` between stage k and k+1, for all pipeline lengths: stdin of stage k+1 is the read end of a pipe created for this separator; an "
        "unredirected or a>p stdout goes into that pipe; e>p sends stderr into it and leaves a file-redirected stdout alone; otherwise stderr is "
        "untouched; a trailing & only backgrounds the last stage; the first stage keeps its stdin; one pipe per `|` (loop invariant over the "
        "processed separators, index-form slot updates); (3) no a>p / e>p sentinel survives without a following pipe (error). SubprocSpec.resolve_redirects (a stage's own redirects, applied in "
        "order through the real setters, loop invariants): on a normal return every stream was named by at most one redirect and holds exactly that one. The three setters on "
        "their own: first non-None store wins, a second one raises XonshError IFF both are non-None, changes nothing and closes the rejected "
        "handle. _redirect_streams (operator tables as ghost sets, safe_open through its contract): pipe / merge operators open nothing and return exactly their marks; a file redirect opens exactly its target, once, in the operator's "
        "mode; an input redirect sets stdin only, an stdout / stderr redirect that stream only, and a both-streams redirect gives both streams the SAME handle. safe_open opens exactly the file named, once, in the mode asked, and turns "
        "every failure (permission, missing directory, anything else) into a XonshError. Enum (complete): all 50 redirect spellings of the real tokenizer tables through the real parser (one redirect token, target "
        "taken iff one-sided) and the real _redirect_streams decode to the class their stream names denote - all spellings of a class agree, and a both-streams class hands both streams ONE shared handle (two opens of the same target would overwrite each other). "
        "SubprocSpec.resolve_args_list (shared with C04): a redirect whose target is several words is passed on UNCHANGED - to be rejected - never cut down to its first word. Bounded stand-ins (not counted as proved): real cmds_to_specs on every pipeline of <= 3 (thorough 4) stages x 9 redirect forms x trailing &; 13 operator spellings x multi-word targets: reported, no file touched.",
   note="Unverified: that the OS delivers bytes written to an fd to the file / pipe behind it; SubprocSpec.build as a whole (alias resolution, decorators; resolve_redirects "
        "is verified with _redirect_streams as a ghost function; _redirect_streams is verified with the operator TABLES as ghost sets - their content is what the spelling enum checks), the capture "
        "boundary / _update_last_spec (C06), alias-side handle resolution (ProcProxyThread._get_handles, _pick_buf), stage kinds other than "
        "external `echo` in the bounded check. ASSUMED for (2): no stage leaves build "
        "with both pipe sentinels (each sets stderr; the second store is rejected by the setter). Trusted: pyvc engine + object-record model "
        "(an object belongs to one list slot) + z3/cvc5.",
   design="§3 C07"),
 "C12": dict(
   category="proof",
   text="Session history H = disk ++ buffer with the accounting invariant len(disk) == _len - _skipped - len(buffer). JsonCommandField.__getitem__ "
        "(every int key, every split): returns the field of H[key] (negative keys from the end), raises IndexError IFF the key is outside "
        "[-len, len), reads the file only at an in-range non-negative position; __len__ of the field and of the history are _len - _skipped. "
        "JsonHistory.append: an excluded command changes nothing; a kept one is counted once and goes last exactly once - into the buffer, or "
        "into the single flusher created when the buffer reaches its size; flush hands over the whole buffer in order and empties it, and gives EVERY flusher - the inline exit-time one included - the drop-counter callback dump requires. "
        "JsonHistoryFlusher.dump (loop invariant): every handed-over command is either staged or reported dropped exactly once (so len stays "
        "consistent), the staged document is the loaded commands followed by the kept new ones in order, and without a HISTCONTROL rule "
        "nothing is dropped. lazyjson._to_json_with_size for ALL values (recursion through its own contract): the reported length is the "
        "length of the text and every child is told the absolute position at which its text really starts (loop invariants j == offset + "
        "len(s)); json.dumps only in its ASCII mode (any other keyword fails a call precondition). Reading: LJNode._getitem_sequence reads the table entry of "
        "element k (negative keys from the end), raises IndexError IFF the key is outside [-len, len) and never reaches the trailing whole-sequence entry; __len__ is the table "
        "length minus that entry. SQLite backend, in-memory side (SqliteHistory.append): an excluded command (ignore rule, ignoredups / ignoreerr / ignorespace) changes nothing and is not stored; a kept one goes last in "
        "every one of the five parallel session lists with its own values (text minus trailing whitespace only), the lists stay parallel, it is sent to the store exactly once, and a store error is reported, never raised. "
        "Bounded stand-ins (not proved): real "
        "writer -> UTF-8 file -> real LazyJSON on Unicode documents; real JsonHistory on every sequence of 4 (thorough 5) append/flush "
        "operations x 3 HISTCONTROL settings x 3 buffer sizes against the list of appended commands (len, every in/out-of-range index, "
        "slice, iteration).",
   note="Two genuine defects repaired (fix: ce6c11e: history keys below -len read the on-disk offsets table from the end; d82f7bb: LazyJSON sequence nodes returned the whole list for [-1] and [len]). Unverified: the "
        "SQLite backend's SQL (executed by the database engine) and its readers (items / all_items), flusher/reader thread interleavings (the FIFO ticket queue is ASSUMED to make a reader run after every earlier "
        "flusher; flushers are joined in the bounded check), which index entry is stored under which key (abstracted container statements; "
        "bounded check only), termination of the writer's recursion, LazyJSON._load_index / LJNode reads (bounded only), BaseShell history "
        "entry creation, slices through __getitem__ (bounded only), `history clear`. Trusted: pyvc engine + models + z3.",
   design="§3 C12"),
 "C09": dict(
   category="other",
   text="PARTIAL - deductive proof of the clauses listed here on the real source, bounded stand-ins (never counted as proved) for the rest of the property. Effect-trace contracts on the exit paths that must undo things, for all pipeline lengths and every failing external: CommandPipeline.__init__ "
        "(SubprocSpec objects as records in list slots; loop invariants): stages run once each, in order; when stage i cannot be spawned the "
        "constructor starts nothing further, returns the terminal exactly once, closes every stage from i on in order and leaves no process "
        "handle; otherwise the last stage is the pipeline's process and nothing is closed. PopenThread.__init__: every exception of the spawn "
        "(OSError, ValueError, any other) after a signal handler was installed runs _clean_up exactly once before it escapes; on success the "
        "handlers stay for the thread. PopenThread._clean_up / _restore_sigint / _restore_sigtstp / _restore_sigquit / _restore_sigwinch: each "
        "saved handler goes back exactly once (main thread) and is forgotten, nothing is installed otherwise - whatever the handler's truth value (signal.SIG_DFL is falsy: handler truthiness is an uninterpreted predicate). PipeChannel.close_writer / close_reader / close: an end is "
        "forgotten and closed exactly once if it was open, never otherwise (so a recycled descriptor number is never closed by mistake); SubprocSpec.close releases all five "
        "handles, closes every channel once in order and forgets them (idempotent). "
        "CommandPipeline._raise_subproc_error hands the terminal back exactly once before raising and not at all otherwise. cmds_to_specs (handler alone, try-body abstracted to `anything may happen "
        "and raise`): whatever fails while the stages are built and wired, every stage built so far is closed exactly once, in order, before the error escapes (loop invariant); nothing is closed on success. "
        "readers.safe_fdclose: never closes descriptors 0-2 or the shell's own sys.std* streams, never closes a handle its cache records as closed (recycled numbers), closes at most the one handle "
        "given, swallows a failing close; CommandPipeline._safe_close never closes an integer descriptor (PipeChannel owns them); CommandPipeline._end: the two closing steps and `ended` sit in a finally - on EVERY exit "
        "of the drain (return, exception, KeyboardInterrupt) the last stage is closed once, the earlier ones unless the reader already did, and the pipeline is marked ended; end() ends once and returns the "
        "terminal once, and does nothing for an ended pipeline; _close_proc releases each of the last stage's five spec handles and three process handles once, in order, closes every channel of both once (loop invariants), "
        "and lets no exception escape (a failing wait is swallowed); _close_prev_procs lets NO exception escape either - an interrupted wait for an earlier stage (KeyboardInterrupt is a BaseException) "
        "does not stop the closing of the remaining stages - and releases at least the three handles of every earlier stage. Bounded stand-in "
        "(not proved): 20 command shapes x 3 repetitions in a real headless session - descriptors, children, threads, cwd, std streams and the "
        "SIGINT handler before/after.",
   note="KNOWN FINDINGS (recorded, native check): `echo hi | nonexistent` leaves the started earlier stage's pipe ends and an unreaped child; an alias in a "
        "non-last stage leaves its SIGINT handler installed; `yes | cat | head -n 1` can leave an unreaped child (timing). Unverified: terminal "
        "ownership on a real tty, safe_fdclose's handle cache, proxies' _restore_sigint / _close_devnull, jobs.wait_for_active_job "
        "reaping, which channel ends _close_prev_procs closes in which order (only its no-exception clause and a handle count are verified), reader/closer thread schedules, Windows. ASSUMED: set-up "
        "statements of PopenThread.__init__ other than the spawn do not raise once handlers are installed. Trusted: pyvc engine + models + z3/cvc5.",
   design="§3 C09"),
 "C06": dict(
   category="other",
   text="PARTIAL - deductive proof of the clauses listed here on the real source, bounded stand-ins (never counted as proved) for the rest of the property. The reader queue, consumer and producer side, as sequential effect-trace contracts on the real source: QueueReader.readlines (polling form) and "
        "_read_all_lines return exactly the lines of every chunk they dequeued, in order - nothing dropped, nothing twice (loop invariant lines == "
        "flat(dequeued), flat given by its two defining axioms); QueueReader.read / readline return exactly the concatenation of the chunks they "
        "dequeued and iterqueue yields exactly the dequeued chunks in order; read_queue dequeues one chunk per call and nothing on a timeout; is_fully_read answers "
        "True only with `closed` set and with emptiness sampled LAST, after the producer thread was seen finished (the only sampling order that is right "
        "under every interleaving); populate_fd_queue queues exactly the non-empty chunks in the order read, stops only at end of stream or on a read "
        "error, and flags the reader closed after the last chunk is queued; QueueReader.__init__ creates the chunk queue UNBOUNDED (queue.Queue() with no argument: a bound lets the producer "
        "block in put() while the consumer waits for the process - any argument is a failed call precondition). Bounded stand-in (not proved): real $() / !() (.out, .raw_out, iteration) / "
        "@$() on payloads of 0..70000 bytes (thorough 1 MiB) and alias stages writing up to 60000 lines, byte for byte, plus CR/CRLF, stderr separation, one-line outputs ending in blanks / tabs (only the final newline goes) "
        "and the final stage's return code.",
   note="NOT covered by any contract: thread interleavings themselves (the property's quantifier over schedules) - the is_fully_read clause is the sequential "
        "obligation that makes the protocol schedule-independent, but PopenThread.run / _read_write, ProcProxyThread.run, CommandPipeline.iterraw / "
        "tee_stdout / _end, the final drain after wait and the closing order of previous stages are unverified (bounded check only, one schedule per "
        "case). Observation (not claimed either way): a single line that contains VT / FF or another character str.splitlines treats as a boundary is not `one line` for the formatter, so "
        "its final newline is kept; whether a one-line "
        "`.out` keeps its final newline depends on how many chunks the line arrived in. Trusted: pyvc engine + the two flat axioms + z3.",
   design="§3 C06"),
 "C08": dict(
   category="proof",
   text="Over a ghost file system (regular(p), xok(p): pure during one call, consulted afresh by every call): locate_file_in_path_env, for every $PATH and name "
        "(loop invariant over the directories): a result is pathstr(dir_k / name) for the FIRST k, in $PATH order, whose candidate is a regular file the process may "
        "execute, and None only when no directory has one; is_executable_in_posix is true exactly for an executable regular file; locate_file never searches $PATH "
        "for a name containing a separator and never the current directory for a bare name (is_explicit_path == '/' in name); the listing view "
        "_yield_accessible_unix_file_names yields exactly the names of the executable regular files of a directory (soundness and completeness invariants over "
        "scandir), i.e. the same test as the lookup; clear_paths is resolve -> de-duplicate -> keep existing. The mtime-keyed CommandsCache behind `name in`, iteration and completion: _update_paths_cache (loop invariant): after it every "
        "stat-able $PATH directory has an entry whose recorded mtime EQUALS the directory's current one and whose listing is the current listing, reporting `no change` means nothing changed, the order "
        "is recorded; _update_aliases_cache records the hash of the current alias names; _update_and_check_changes runs BOTH updates whatever the first one says; update_cache hands out a table that is the "
        "merge of the CURRENT listings, $PATH order and alias names - rebuilt whenever one of them changed, kept only when none did (callers checked against callee contracts); `name in cache` and `cache[name]` refresh the table exactly once before they answer from it. Every function on the lookup path carries a frame "
        "clause `no result cache` (a memoised helper used on the path is a failed obligation). Bounded stand-in (not proved): all histories of 3 (thorough 4) "
        "operations out of 15 (create / delete / chmod / mkdir / symlink-to-dir / broken link, $PATH reorder / duplicate / missing / symlinked entry, re-pointing a "
        "symlinked entry) with locate_executable, `in`, the listing and locate_binary compared with an independent POSIX search after every step; 320 permission modes of a candidate against what the kernel answers for this process (os.access).",
   note="KNOWN FINDING (recorded): chmod of a file is invisible to the mtime-keyed CommandsCache views. One genuine defect repaired (fix: b84b927: a reordered / "
        "shortened $PATH left the merged command table stale). ASSUMED for the cache contracts: a change of a directory's content changes its mtime (the design assumption of the cache; the chmod finding is its "
        "failure), no hash collision between alias-name sets, the persistent cache file is off. Unverified: what map / unique_everseen / filter compute in clear_paths and get_paths' double reversal "
        "(bounded only), WHAT the two rebuild loops of update_cache / _iter_binaries merge (a ghost function here; bounded only), locate_relative_path, $PATHEXT / Windows, the opt-in "
        "stable-directory listing cache ($XONSH_COMMANDS_CACHE_READ_DIR_ONCE: documented staleness, assumed empty), SubprocSpec.resolve_binary_loc beyond C15's clause, "
        "file-system changes DURING one lookup. Trusted: pyvc engine + models + z3.",
   design="§3 C08"),
 "C02": dict(
   category="other",
   text="PARTIAL - deductive proof of the clauses listed here on the real source, bounded stand-ins (never counted as proved) for the rest of the property. The scope-stack bookkeeping of CtxAwareTransformer with `contexts` as a list of name sets (sets live by value in their list slot): ctxadd / ctxupdate bind "
        "in the innermost scope and leave every other scope unchanged; ctxremove unbinds the name in the innermost scope that has it and nowhere else (loop "
        "invariant over the reversed stack; an outer binding of the same name stays, as in Python); visit_Global adds the names to the module scope "
        "contexts[1] only, at any nesting depth; visit_Import / visit_ImportFrom bind, for every clause, exactly the name Python binds (the alias, else the first dotted "
        "component / the imported name) in the innermost scope only (loop invariants); visit_AnnAssign, visit_NamedExpr, visit_Try bind their target / `except .. as` names "
        "before the sub-nodes are visited; visit_Delete never binds anything; visit_With / visit_For bind the `as` names of EVERY item (loop invariant over the items; items without `as` bind nothing) / the loop "
        "target before the body is visited, in the innermost scope only; visit_Lambda opens a fresh empty scope for its parameters, leaves the enclosing scopes alone and closes it again; visit_ClassDef / visit_FunctionDef give the name to the enclosing scope, open a fresh EMPTY scope before "
        "parameters are bound / the body is visited, and close it again; is_in_scope - the decision itself - answers True exactly when every name the node READS (names it binds itself "
        "excluded) is found in SOME scope of the stack (loop invariant over the reversed stack: the names still missing are those found in none of the scopes passed). Bounded stand-in (not proved): 12 binding forms x scope depths 0..2 (global: 1..3) x "
        "probe positions + del / parameter / class-body / session-name cases through the real Execer.parse, decision on a probe line `X -l` against Python's "
        "scoping rules.",
   note="Four genuine defects repaired (fix: 2827a8d: a walrus inside an expression statement was not recorded; c760ec2: `import a.b` recorded the dotted path instead of a; fa90dca: nested tuple / list assignment targets bound only their first names; e08f775: a lambda's parameters were not names of its body - `lambda x: not x` spawned `x`). Unverified: the name gathering "
        "helpers (gather_load_store_names - a ghost function in is_in_scope's contract -, gather_names, leftmostname), the callers of is_in_scope (visit_Expr / visit_BoolOp / visit_UnaryOp: bounded only), the $XONSH_BUILTINS_TO_CMD carve-outs, visit_Assign (bounded only); in visit_For / visit_With what gather_names / leftmostname return for a target is a ghost function, the with-body hypothesis on "
        "generic_visit (stack depth preserved), ctxupdate's generator argument in visit_FunctionDef (abstracted: assumed to touch the innermost scope only, "
        "which is ctxupdate's own verified contract), the three-phase parse and 'decision before anything runs' (Execer.parse / compile / exec), "
        "_SubprocChainRaiseWrapper. Trusted: pyvc engine + set-slot model + z3/cvc5.",
   design="§3 C02"),
 "C03": dict(
   category="other",
   text="PARTIAL - deductive proof of the clauses listed here on the real source, bounded stand-ins (never counted as proved) for the rest of the property. tools.get_logical_line for ALL sources and line indices: the logical line containing line i starts at the FIRST line of the maximal chain of continuation "
        "links ending at i (a link = previous line ends with a continuation, or the text before ends inside an open triple-quoted string) - loop invariant for "
        "the backward walk with a termination variant, for chains of any length; it spans >= 1 lines and stays inside the source (second loop, with "
        "variant). Termination of the wrap-and-reparse loop (Execer._parse_ctx_free._try_parse): every iteration leaves the loop or consumes one unit of a retry budget "
        "fixed before it (variant max_retries, invariant max_retries >= 0; the try-body abstracted - it never assigns the budget). tools._is_not_lparen_and_rparen: a `)` is a break "
        "only when EVERY open bracket is a plain `(` - inside any @( / $( / !( ... group it never is, whatever is nested on top. "
        "Bounded stand-ins (not proved): 11 command lines x 1..4 (thorough 5) physical lines x 7 statement positions (top level, after `;`, if / for-in-def "
        "/ try / with / while-in-if-in-def) x {no chain, &&, and, ||}: the bare source and the hand-wrapped ![...] source compile to the same program through the "
        "real Execer; C02's probe programs (names bound only in inner scopes do not stop the wrap); command lines include a Python call inside @( ); one-line chains of up to 20 (thorough 40) commands x 4 operators and scripts of up to 24 (48) chain lines; chains continued over a backslash (operator before / after the break, segments that also parse as Python) compared by the commands they run.",
   note="Two genuine defects repaired (fix: dde0af8: a one-line chain of 12+ bare commands was a SyntaxError - the retry budget ignored chain operators; e8bb740: `ls -l and \\<newline> pwd -P` compiled to `pwd -P and pwd -P`). KNOWN FINDING (recorded): a chain segment that is also valid Python (`ls -l /tmp && ...`) is wrapped without in_boolop=True. Unverified: termination of the "
        "parser / lexer / helper calls inside the retry loop's body and its depth-1 recursion (so 'for all input strings' is proved only modulo those), subproc_toks / find_next_break / "
        "_abs_lexpos / balanced_parens, replace_logical_line, strip_continuation_comments, _have_open_triple_quotes (a ghost predicate here), "
        "CtxAwareTransformer.try_subproc_toks / _column_window, the lexer's whitespace synthesis. Trusted: pyvc engine + models + z3.",
   design="§3 C03"),
 "C04": dict(
   category="other",
   text="PARTIAL - deductive proof of the clauses listed here on the real source, bounded stand-ins (never counted as proved) for the rest of the property. tools.expand_path for ALL words and switch settings, with os.path.expanduser / expandvars as ghost functions: a word is returned untouched when both expansions are off; "
        "with tilde expansion off the result is exactly the ($VAR-expanded) word; a plain word gets exactly one tilde expansion; for `key=value` the key is expanded, the `=` kept, "
        "and the result is key' = ':'.join(map(expanduser, value.split(':'))) - EACH colon-separated field expanded on its own, none dropped, added or merged (map over a sequence "
        "value is the uninterpreted sequence map_f(xs) with its two defining facts, so code and clause denote the same term). @() injection: ensure_str_or_callable returns a string or callable untouched (bytes: os.fsdecode); list_of_strs_or_callables "
        "turns ANY string - the empty one included - into exactly one argument equal to it (separate contract #string) and a list of strings into one argument per element, in order, each untouched (#list); SubprocSpec.resolve_args_list weaves the "
        "elements of the command in order - a word adds exactly itself, an injected list adds its strings in order each as ONE argument, a redirect adds its (operator, target) pair - "
        "nothing re-split, merged, dropped or added (loop invariant against a weave function defined by four axioms). "
        "Bounded stand-in (not proved): 41 argument strings (the empty string included) "
        "(spaces, quotes, backslashes, newlines, glob and shell metacharacters, tilde / assignment shapes) x up to 8 delivery forms (@(expr), @([list]), r'..', r\"\"\"..\"\"\", plain, "
        "triple-quoted, f-string, bare word; 7 texts with several $VAR references in string literals against a one-pass reference expansion) x 3 positions through the real execer to a recording callable alias, plus a real child process for a subset.",
   note="KNOWN FINDING (recorded): a value injected right next to a word (`w@('*')`) is globbed / tilde-expanded. Unverified: the parser actions that assemble the argument list (_subproc_cliargs, p_subproc_atom_*, p_string_literal - bounded only), list_of_list_of_strs_outer_product (see the known finding), macro raw-text slicing, SubprocSpec._fix_null_cmd_bytes, @$() re-splitting, expandvars itself, "
        "that os.path.expanduser leaves text not starting with `~` alone (assumed). Trusted: pyvc engine + str.split / str.join / map as uninterpreted functions + z3.",
   design="§3 C04"),
 "C18": dict(
   category="exploration",
   text="Deductive part (small): in _quote_paths, for every candidate name and every prefix / quote state, the raw prefix is chosen only for names without control characters, and a "
        "name with `$` or backslash and no control character is written raw (asserts on the real decision statements, rest of the loop body abstracted). The property itself - "
        "decode(quote(name)) == name - needs xonsh's lexer as a specification function and is NOT proved: bounded stand-ins on the real code: 48 file names (spaces, both quotes, FF / VT / BEL / ESC / DEL and other control characters, $, "
        "backslashes, newline / tab / CR, glob and shell metacharacters, leading ~ - # !, a keyword, trailing space / backslash) x typed prefixes (nothing, 1-2 characters, an opened "
        "' / \" / r' with and without a first character) spliced like the shell does and read back through the real execer; the analyser on every string over a 9-character alphabet up to "
        "length 4 (thorough 5) x every cursor position (never raises; prefix / suffix reproduce the text around the cursor).",
   note="KNOWN FINDINGS (recorded, 5): the delimiter quote inside a raw literal; control characters when the user opened a raw literal; a trailing backslash in a raw literal; a leading "
        "`!` is not quoted; a trailing space of a name is dropped. Level is `bounded`: no contract within reach expresses the read-back property (it is stated through the lexer). "
        "Unverified: name_needs_quotes / _PATTERN completeness, _path_from_partial_string, Completer.complete_line splicing (re-implemented in the harness the same way). "
        "Trusted: the harness + pyvc engine for the two asserts.",
   design="§3 C18"),
}
NA = {
 "C01": "equivalence of two grammars (PLY LALR tables vs CPython's PEG parser) is not a function contract; no contract within reach can express or decide it (DESIGN §3 C01)",
 "C17": "both clauses are stated through xonsh's parser (same syntax tree / idempotence of a token heuristic); the parser cannot serve as a spec function for a deductive verifier (DESIGN §3 C17)",
}
checks = []
for p in props:
    pid = p["id"]
    if pid in CLAIMED:
        c = CLAIMED[pid]
        checks.append({
            "property_id": pid,
            "quick_cmd": "./xv check %s --tier quick" % pid,
            "thorough_cmd": "./xv check %s --tier thorough" % pid,
            "evidence_file": "evidence/%s.json" % pid,
            "replay_cmd_template": "./xv replay {path}",
            "engine": "pyvc",
            "level_claimed": {"category": c["category"], "text": c["text"], "design_ref": c["design"]},
            "level_note": c["note"],
            "technique": c.get("technique", TECH if c["category"] == "proof" else (TECH_PARTIAL if c["category"] == "other" else TECH_BOUNDED)),
        })
na = []
for p in props:
    pid = p["id"]
    if pid not in CLAIMED:
        na.append({"property_id": pid, "reason": NA.get(pid, "check not built yet (work in progress) - see DESIGN.md §3 for the planned contracts")})
m = {
 "version": 1,
 "setup_cmd": "./setup.sh",
 "hooks": {"guard": "XONSH_XONSH_VERIF", "enable": "none needed - checks read /repo's source text and import it unmodified; no hook commits",
           "baseline_off_cmd": "cd /repo && /venv/bin/python -m pytest -ra -q -p no:cacheprovider --timeout=900 --continue-on-collection-errors",
           "source_commits": [], "add_only": True},
 "engines": [
   {"name": "pyvc", "path": "pyvc/", "serves_properties": sorted(CLAIMED), "kind_free_text": "own contract verifier: real source -> ast -> path-wise symbolic execution with loop invariants and modular calls -> named VCs -> z3 5.1 (cvc5 1.0.3 and z3 4.8 on unknown); counter-models replayed on the real code"},
   {"name": "pyvc-native", "path": "pyvc/native.py", "serves_properties": sorted(CLAIMED), "kind_free_text": "executable form of the same contracts evaluated on the real functions: enum (finite domains, complete) and bounded (stand-in / engine cross-check, never counted as proved)"},
 ],
 "checks": checks,
 "notes": "See DESIGN.md. Exit codes: 0 held, 1 VIOLATION, 2 undecided, 3 checker error. KNOWN_FINDINGS.json lists genuine defects (known / fixed).",
 "not_applicable": na,
}
json.dump(m, open(os.path.join(HERE, "MANIFEST.json"), "w"), indent=1)
print("claimed:", sorted(CLAIMED), "n/a:", len(na))
