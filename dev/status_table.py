"""Prints the 0a.1 status table rows from the evidence files of the last run (functions under contract, obligations, native checks)."""
import json, os, collections
HERE = os.path.dirname(os.path.dirname(os.path.abspath(__file__)))
man = {c["property_id"]: c for c in json.load(open(os.path.join(HERE, "MANIFEST.json")))["checks"]}
for pid in sorted(man):
    ev = json.load(open(os.path.join(HERE, "evidence", pid + ".json")))
    cov = ev["coverage"]
    by_mod = collections.OrderedDict()
    for f in cov["functions_under_contract"]:
        mod, fn = f["target"].split("::")
        fn = fn.split("#")[0]
        by_mod.setdefault(os.path.basename(mod)[:-3], [])
        if fn not in by_mod[os.path.basename(mod)[:-3]]:
            by_mod[os.path.basename(mod)[:-3]].append(fn)
    fns = "; ".join("%s: `%s`" % (m, "`, `".join(v)) for m, v in by_mod.items())
    nat = ", ".join("%s %s (%d)" % (n["kind"], n["name"], n["evaluations"]) for n in cov.get("native_checks", [])) or "—"
    print("| %s | %s | %s | %d | %s |" % (pid, man[pid]["level_claimed"]["category"], fns, cov["obligations"], nat))
