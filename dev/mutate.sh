#!/bin/bash
# usage: dev/mutate.sh <prop> <relfile> <python-expr old> <new>   (exact text replacement, first occurrence... count shown)
P=$1; F=$2; OLD=$3; NEW=$4
S=/var/tmp/xv-scratch/mut-$$
mkdir -p /var/tmp/xv-scratch; rm -rf $S; mkdir $S
(cd /repo && git archive HEAD | tar -x -C $S)
python3 - "$S/$F" "$OLD" "$NEW" <<'PY'
import sys
p, old, new = sys.argv[1:4]
s = open(p).read()
n = s.count(old)
print("occurrences:", n)
assert n >= 1
s = s.replace(old, new, 1)
open(p, "w").write(s)
PY
cd /verif; ./xv check $P --repo $S 2>&1 | cut -c1-260 | grep -v "^VIOLATION" | head -${5:-6}; echo "rc=${PIPESTATUS[0]}"
rm -rf $S
