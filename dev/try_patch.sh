#!/bin/sh
# usage: dev/try_patch.sh <prop> <patch.diff> [tier]   -- applies patch to a scratch copy of /repo and runs the check there
set -e
P=$1; PATCH=$2; TIER=${3:-quick}
S=/var/tmp/xv-scratch/try-$$
mkdir -p /var/tmp/xv-scratch
rm -rf $S; mkdir $S
(cd /repo && git archive HEAD | tar -x -C $S)
(cd $S && patch -p1 -s < $PATCH)
cd /verif
set +e
./xv check $P --tier $TIER --repo $S
rc=$?
rm -rf $S
echo "rc=$rc"
