"""dev helper: dump one obligation.  usage: dev/dump.py C14 JsonHistoryGC.run <substring>"""
import sys, os
sys.path.insert(0, os.path.dirname(os.path.dirname(os.path.abspath(__file__))))
from pyvc import contract as C, verify, solve, cli
prop, which, sub = sys.argv[1], sys.argv[2], sys.argv[3]
repo = sys.argv[4] if len(sys.argv) > 4 else "/repo"
cli.load_contracts(prop)
c = [c for c in C.BY_PROP[prop] if c.target.endswith(which)][0]
fv = verify.FnVerifier(c, repo)
obs = [o for o in fv.generate() if sub in o.name]
ob = obs[0]
print(ob.name)
for a in ob.assumptions:
    print("A:", a)
print("G:", ob.goal)
if len(sys.argv) > 5:
    open(sys.argv[5], "w").write(solve.to_smt2(ob.assumptions, ob.goal))
