"""dev helper: verify one contract in-process.  usage: dev/one.py C14 JsonHistoryGC.run [repo]"""
import sys, time, faulthandler, glob, os
sys.path.insert(0, os.path.dirname(os.path.dirname(os.path.abspath(__file__))))
faulthandler.dump_traceback_later(int(os.environ.get("DEV_TIMEOUT", "60")), exit=True)
import importlib
from pyvc import contract as C, verify, solve, cli
prop, which = sys.argv[1], sys.argv[2]
repo = sys.argv[3] if len(sys.argv) > 3 else "/repo"
cli.load_contracts(prop)
c = [c for c in C.BY_PROP[prop] if c.target.endswith(which)][0]
t0 = time.time()
fv = verify.FnVerifier(c, repo)
obs = fv.generate()
print(c.target, "paths", fv.stats, "obls", len(obs), fv.bounded_notes)
for ob in obs:
    solve.solve_one(ob, timeout_ms=5000)
    if ob.verdict != "discharged" or ob.time > 0.5 or os.environ.get("DEV_ALL"):
        print("  %-11s %6.3fs %s %s" % (ob.verdict, ob.time, ob.name, ob.detail))
        if ob.verdict == "refuted" and ob.model is not None:
            print("     model:", str(ob.model)[:800])
print("total %.1fs" % (time.time() - t0), "assumed:", len(fv.assumed))
