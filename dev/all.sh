#!/bin/bash
# usage: dev/all.sh [tier]  -- every claimed check on /repo, one line each; refreshes baseline + evidence
cd /verif
T=${1:-quick}
for p in $(python3 -c "import json; print(' '.join(c['property_id'] for c in json.load(open('MANIFEST.json'))['checks']))"); do
  out=$(XV_WRITE_BASELINE=1 ./xv check $p --tier $T 2>&1); rc=$?
  echo "$p rc=$rc $(echo "$out" | grep 'obligations discharged' | cut -c1-150)"
  echo "$out" | grep "VIOLATION\|CHECKER-ERROR\|UNDECIDED\|PROOF-LOST" | cut -c1-200 | head -3
done
