import sys
sys.path.insert(0, "/verif")
from pyvc import contract as C, verify, cli
prop, suffix, repo = sys.argv[1:4]
cli.load_contracts(prop)
c = [c for c in C.BY_PROP[prop] if c.key.endswith(suffix)][0]
fv = verify.FnVerifier(c, repo)
for ob in fv.generate():
    if len(sys.argv) < 5 or sys.argv[4] in ob.name: print(ob.name[-160:])
