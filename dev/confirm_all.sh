#!/bin/bash
# baseline failures on the unchanged tree first, then each seeded change (4 at a time)
mkdir -p /var/tmp/xv-scratch/seedlogs
S=/var/tmp/xv-scratch/seed-base
rm -rf $S; mkdir -p $S; (cd /repo && git archive HEAD | tar -x -C $S)
(cd $S && PYTHONPATH=$S timeout 3000 /venv/bin/python -m pytest -q -p no:cacheprovider -n 4 --timeout=600 tests --ignore=tests/xintegration 2>&1 | tail -60 | grep -E "^(FAILED|ERROR)|passed|failed" | sed 's/ - .*//' | sort > /var/tmp/xv-scratch/seedlogs/BASE.suite)
rm -rf $S
for job in "$@"; do echo $job; done | xargs -P 2 -n 1 sh -c 'p=${0%%/*}; k=${0##*/}; /verif/dev/confirm_seed.sh $p $k'
