#!/bin/bash
# usage: dev/thorough.sh  -- thorough tier of every claimed check (no baseline rewrite), timing per property
cd /verif
for p in $(python3 -c "import json; print(' '.join(c['property_id'] for c in json.load(open('MANIFEST.json'))['checks']))"); do
  t0=$(date +%s); out=$(./xv check $p --tier thorough 2>&1); rc=$?; t1=$(date +%s)
  echo "$p rc=$rc $((t1-t0))s $(echo "$out" | grep 'obligations discharged' | cut -c1-150)"
  echo "$out" | grep "VIOLATION\|CHECKER-ERROR\|UNDECIDED\|PROOF-LOST" | cut -c1-240 | head -4
done
