#!/bin/bash
# usage: dev/confirm_seed.sh <prop> <k>  -- confirms a seeded change from /tmp/seed-<prop>/out/<k>: patch applies, demo fails with it and
# passes without it, the existing suite (minus xintegration) gives the same failures as the unchanged tree.  Writes a log.
P=$1; K=$2
SRC=/tmp/seed-$P/out/$K
LOG=/var/tmp/xv-scratch/seedlogs/$P-$K.log
mkdir -p /var/tmp/xv-scratch/seedlogs
S=/var/tmp/xv-scratch/seed-$P-$K
rm -rf $S; mkdir -p $S
(cd /repo && git archive HEAD | tar -x -C $S)
{
echo "== demo on unchanged tree"
(cd $S && PYTHONPATH=$S timeout 600 /venv/bin/python $SRC/demo.py > $S/demo0.out 2>&1; echo "rc=$?"; tail -3 $S/demo0.out)
echo "== apply"
(cd $S && patch -p1 -s < $SRC/patch.diff && echo applied)
echo "== demo on changed tree"
(cd $S && PYTHONPATH=$S timeout 600 /venv/bin/python $SRC/demo.py > $S/demo1.out 2>&1; echo "rc=$?"; tail -5 $S/demo1.out)
echo "== suite on changed tree (without xintegration)"
(cd $S && PYTHONPATH=$S timeout 3000 /venv/bin/python -m pytest -q -p no:cacheprovider -n 4 --timeout=600 tests --ignore=tests/xintegration -x --maxfail=60 2>&1 | tail -45 | grep -E "^(FAILED|ERROR)|passed|failed" | sed 's/ - .*//' | sort > $S/suite.out; tail -1 $S/suite.out; grep -c "^FAILED\|^ERROR" $S/suite.out)
cp $S/suite.out /var/tmp/xv-scratch/seedlogs/$P-$K.suite
} > $LOG 2>&1
rm -rf $S
echo "$P/$K done" >> /var/tmp/xv-scratch/seedlogs/DONE
