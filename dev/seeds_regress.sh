#!/bin/bash
# usage: dev/seeds_regress.sh [jobs]  -- every seeded/<id>/patch.diff against the current checks (quick tier); prints "<id> rc=<n>"; all must be rc=1
J=${1:-3}
cd /verif
OUT=/var/tmp/xv-scratch/seedreg; rm -rf $OUT; mkdir -p $OUT
ls seeded | xargs -P $J -I{} sh -c 'p=$(echo {} | cut -d- -f1); dev/try_patch.sh $p /verif/seeded/{}/patch.diff > '$OUT'/{}.out 2>&1; echo "{} $(tail -1 '$OUT'/{}.out)"'
