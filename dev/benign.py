"""Benign edits no check may report as a VIOLATION (DESIGN appendix C): each entry rewrites a function under contract WITHOUT changing its behaviour; the
property's check runs on a scratch copy.  Expected: exit 0 (or 2 = proof lost and undecided, reported); exit 1 or 3 is a false alarm / checker bug.
usage: .venv/bin/python dev/benign.py [name-substring]"""
import os, shutil, subprocess, sys, tempfile

EDITS = [
    ("C14 reorder two independent initialisations + `+= 1` spelled out", "C14", "xonsh/history/json.py",
     [("    n = 0\n    ncmds = 0\n    for _, fcmds, _, _ in reversed(files):", "    ncmds = 0\n    n = 0\n    for _, fcmds, _, _ in reversed(files):"),
      ("        ncmds += fcmds\n        n += 1\n\n    cmds_removed = 0", "        ncmds = ncmds + fcmds\n        n = n + 1\n\n    cmds_removed = 0")]),
    ("C14 rename a local no clause mentions (fcmds -> per_file)", "C14", "xonsh/history/json.py",
     [("    for _, fcmds, _, _ in files_removed:\n        cmds_removed += fcmds", "    for _, per_file, _, _ in files_removed:\n        cmds_removed += per_file")]),
    ("C14 rename a local an INVARIANT mentions (n -> nkeep): the proof is lost, the stand-ins must pass", "C14", "xonsh/history/json.py",
     [("    n = 0\n    ncmds = 0\n    for _, fcmds, _, _ in reversed(files):\n        # `files` comes in with empty files included (now), don't need special handling to gc them here.\n\n        if ncmds + fcmds > hsize:\n            break\n        ncmds += fcmds\n        n += 1\n\n    cmds_removed = 0\n    files_removed = files[:-n] if n > 0 else files",
       "    nkeep = 0\n    ncmds = 0\n    for _, fcmds, _, _ in reversed(files):\n        # `files` comes in with empty files included (now), don't need special handling to gc them here.\n\n        if ncmds + fcmds > hsize:\n            break\n        ncmds += fcmds\n        nkeep += 1\n\n    cmds_removed = 0\n    files_removed = files[:-nkeep] if nkeep > 0 else files")]),
    ("C06 QueueReader.read: a helper variable for the truth test", "C06", "xonsh/procs/readers.py",
     [("            line = self.read_queue()\n            if line:\n                buf += line\n            else:\n                break\n        return buf\n\n    def readline(", "            line = self.read_queue()\n            got = bool(line)\n            if got:\n                buf += line\n            else:\n                break\n        return buf\n\n    def readline(")]),
    ("C20 add_job: comment, docstring text, an extra blank statement", "C20", "xonsh/procs/jobs.py",
     [('    """Add a new job to the jobs dictionary."""\n    num = get_next_job_number()', '    """Register a new job in the table (number, start time, default status)."""\n    # lowest free number first\n    num = get_next_job_number()\n    pass')]),
    ("C16 cd: another error message text", "C16", "xonsh/dirstack.py",
     [("pushd: could not change directory to", "pushd: cannot change directory to")]),
    ("C09 safe_fdclose: `elif` chain as nested ifs is kept, only a comment and a local alias added", "C09", "xonsh/procs/readers.py",
     [("    status = True\n    if handle is None:\n        pass", "    status = True  # becomes False when the close itself fails\n    if handle is None:\n        pass")]),
    ("C08 _update_paths_cache: name the condition before testing it", "C08", "xonsh/commands_cache.py",
     [("            if (\n                (not self.env.get(\"ENABLE_COMMANDS_CACHE\", True))\n                or (path not in self._paths_cache)\n                or (self._paths_cache[path].mtime != modified_time)\n            ):\n                updated = True",
       "            stale = (\n                (not self.env.get(\"ENABLE_COMMANDS_CACHE\", True))\n                or (path not in self._paths_cache)\n                or (self._paths_cache[path].mtime != modified_time)\n            )\n            if stale:\n                updated = True")]),
    ("C11 swap: comment + reorder of two independent initialisations", "C11", "xonsh/environ.py",
     [("        pushed = False\n        exception = None\n        try:", "        exception = None\n        pushed = False  # set once the overlay is on the stack\n        try:")]),
    ("C12 SqliteHistory.append: early returns merged into one condition-free statement order unchanged, comments changed", "C12", "xonsh/history/sqlite.py",
     [("            # Skipping dup cmd\n", "            # same text as the previous command: not recorded\n"), ("            # Skipping failed cmd\n", "            # failed command: not recorded\n")]),
    ("C05 _maybe_wrap_stmt_value: two guards joined with `or`", "C05", "xonsh/parsers/base.py",
     [("        if _is_subproc_check_boolop_call(val):\n            return\n        if not _is_raising_subproc_helper_call(val):\n            return\n",
       "        if _is_subproc_check_boolop_call(val) or not _is_raising_subproc_helper_call(val):\n            return\n")]),
    ("C15 add_decorator: temporary name for the list", "C15", "xonsh/procs/specs.py",
     [("        mod.decorate_spec(self)\n        self.decorators.append(mod)", "        mod.decorate_spec(self)\n        applied = self.decorators\n        applied.append(mod)")]),
]


def main():
    want = sys.argv[1] if len(sys.argv) > 1 else ""
    bad = 0
    for name, prop, path, repl in EDITS:
        if want not in name:
            continue
        d = tempfile.mkdtemp(prefix="xv-benign-", dir="/var/tmp")
        try:
            subprocess.run("cd /repo && git archive HEAD | tar -x -C %s" % d, shell=True, check=True)
            fn = os.path.join(d, path)
            s = open(fn).read()
            for a, b in repl:
                if a not in s:
                    print("STALE-EDIT %s: text not found" % name)
                    break
                s = s.replace(a, b, 1)
            else:
                open(fn, "w").write(s)
                p = subprocess.run(["./xv", "check", prop, "--repo", d], cwd="/verif", capture_output=True, text=True)
                tail = [l for l in p.stdout.splitlines() if "obligations discharged" in l or l.startswith(("VIOLATION", "UNDECIDED", "PROOF-LOST", "CHECKER"))]
                verdict = {0: "ok", 2: "undecided (proof lost, no alarm)"}.get(p.returncode, "FALSE ALARM / ERROR rc=%d" % p.returncode)
                if p.returncode not in (0, 2):
                    bad += 1
                print("%-34s %s\n    %s" % (verdict, name, " | ".join(t[:160] for t in tail[:3])))
        finally:
            shutil.rmtree(d, ignore_errors=True)
    return 1 if bad else 0


if __name__ == "__main__":
    sys.exit(main())
