import sys, os, time
sys.path.insert(0, "/verif")
from pyvc import contract as C, verify, solve, cli
prop, suffix = sys.argv[1], sys.argv[2]
cli.load_contracts(prop)
c = [c for c in C.BY_PROP[prop] if c.key.endswith(suffix)][0]
fv = verify.FnVerifier(c, sys.argv[3] if len(sys.argv) > 3 else "/repo")
t0=time.time()
obs = fv.generate()
print(c.key, "paths", fv.stats, "obls", len(obs))
for ob in obs:
    solve.solve_one(ob, timeout_ms=8000)
    if ob.verdict != "discharged" or ob.time > 1:
        print("  %-11s %6.3fs %s %s" % (ob.verdict, ob.time, ob.name[-150:], ob.detail[:100]))
        if ob.verdict == "refuted" and ob.model is not None and os.environ.get("MODEL"): print(str(ob.model)[:1500])
print("total", time.time()-t0)
