"""usage: .venv/bin/python dev/w1.py <prop> <contract-key-suffix>  -- pass-1 only (z3 2 s + cvc5 3 s per obligation): fast overview; dev/w.py runs the full schedule and can take hours when many obligations are open"""
import sys, time, os, signal, collections
sys.path.insert(0, "/verif")
from pyvc import contract as C, verify, solve, cli
cli.load_contracts(sys.argv[1])
c = [c for c in C.BY_PROP[sys.argv[1]] if c.key.endswith(sys.argv[2])][0]
fv = verify.FnVerifier(c, sys.argv[3] if len(sys.argv) > 3 else "/repo")
obs = fv.generate()
print(len(obs), fv.stats)
cnt = collections.Counter()
t0=time.time()
for ob in obs:
    solve.solve_one(ob, timeout_ms=2000, stop_after_early=True, early_cvc5_ms=3000)
    cnt[ob.verdict]+=1
    if ob.verdict != "discharged" and cnt[ob.verdict] <= 6: print(ob.verdict, ob.name[-130:])
print(cnt, time.time()-t0)
