#!/bin/sh
# Builds /verif/.venv offline: py3.12 (from /venv's interpreter) + z3-solver + cvc5 + jsonschema
# from the offline wheelhouse, plus a .pth that makes /venv's site-packages (the repo's own
# third-party dependencies) importable.  Idempotent; ~25 s cold.
set -e
cd "$(dirname "$0")"
export PIP_NO_INDEX=1
if [ ! -x .venv/bin/python ] || ! .venv/bin/python -c "import z3, jsonschema" 2>/dev/null; then
  rm -rf .venv
  /venv/bin/python -m venv .venv
  .venv/bin/python -m pip install -q --no-index --find-links /opt/veriftools/wheels z3-solver cvc5 jsonschema
  SP=$(.venv/bin/python -c "import sysconfig; print(sysconfig.get_paths()['purelib'])")
  echo "import site; site.addsitedir('/venv/lib/python3.12/site-packages')" > "$SP/zz_repo_deps.pth"
fi
.venv/bin/python -c "import z3, jsonschema; print('pyvc venv ok: z3', z3.get_version_string())"
