"""Replay a counter-example file against the real code (run with PYTHONPATH=<tree>:/verif)."""
import json
import sys
import traceback


def main(path):
    with open(path) as f:
        doc = json.load(f)
    from . import cli, native, modelval, contract as C

    prop = doc["property"]
    cli.load_contracts(prop)
    try:
        if doc.get("native_check") and str(doc["native_check"]).startswith("domain:"):
            # a failure of a contract's clauses on its native bounded domain: run that very case again
            tgt = doc["native_check"][len("domain:"):]
            c = [x for x in C.BY_PROP[prop] if x.target == tgt and x.verify][0]
            r = native.run_case(c, dict(modelval.from_json(doc["inputs"])))
            print("REPLAY " + json.dumps(r, default=str))
            return
        if doc.get("native_check"):
            chk = [n for n in C.NATIVE_CHECKS.get(prop, []) if n["name"] == doc["native_check"]][0]
            rep = getattr(chk["fn"], "replay", None)
            if rep is not None:
                r = rep(modelval.from_json(doc["inputs"]))
                print("REPLAY " + json.dumps(r, default=str))
                return
            # generic: run the check again on this tree and look for the same failing input among what it reports
            import os

            res = chk["fn"](doc.get("tier", "quick"), int(os.environ.get("VERIF_SEED", "0") or 0))
            same = [f for f in res.get("failures", []) if json.dumps(f.get("inputs"), sort_keys=True, default=str) == json.dumps(doc.get("inputs"), sort_keys=True, default=str)]
            if same:
                print("REPLAY " + json.dumps({"status": "reproduced", "inputs": doc.get("inputs"), "observed": same[0].get("observed")}, default=str))
            elif res.get("failures"):
                print("REPLAY " + json.dumps({"status": "other-failures", "detail": "the check fails on this tree, but its first %d reported inputs do not include this one" % len(res["failures"]),
                                              "first": res["failures"][0]}, default=str))
            else:
                print("REPLAY " + json.dumps({"status": "not-reproduced", "detail": "the check passes on this tree (%s evaluations)" % res.get("evaluations")}, default=str))
            return
        c = [x for x in C.BY_PROP[prop] if x.target == doc["target"]][0]
        if c.replay is None and ("." in c.target.split("::")[1] or c.externals or c.globals or c.is_generator_hint):
            print("REPLAY " + json.dumps({"status": "no-harness", "detail": "no native replay harness for this contract "
                                          "(method / ghost-world function): the solver's model is kept in the replay file"}))
            return
        inputs = modelval.from_json(doc["inputs"])
        inputs = {k: v for k, v in inputs.items()}
        r = native.run_case(c, inputs)
        # a replay confirms the *named* obligation when that clause (or any clause) fails natively
        print("REPLAY " + json.dumps(r, default=str))
    except Exception:
        print("REPLAY " + json.dumps({"status": "error", "detail": traceback.format_exc()[-3000:]}))


if __name__ == "__main__":
    main(sys.argv[1])
