"""Replay a counter-example file against the real code (run with PYTHONPATH=<tree>:/verif)."""
import json
import sys
import traceback


def main(path):
    with open(path) as f:
        doc = json.load(f)
    from . import cli, native, modelval, contract as C

    prop = doc["property"]
    cli.load_contracts(prop)
    try:
        if doc.get("native_check"):
            chk = [n for n in C.NATIVE_CHECKS.get(prop, []) if n["name"] == doc["native_check"]][0]
            rep = getattr(chk["fn"], "replay", None)
            if rep is None:
                print("REPLAY " + json.dumps({"status": "error", "detail": "native check has no replay"}))
                return
            r = rep(modelval.from_json(doc["inputs"]))
            print("REPLAY " + json.dumps(r, default=str))
            return
        c = [x for x in C.BY_PROP[prop] if x.target == doc["target"]][0]
        if c.replay is None and ("." in c.target.split("::")[1] or c.externals or c.globals or c.is_generator_hint):
            print("REPLAY " + json.dumps({"status": "no-harness", "detail": "no native replay harness for this contract "
                                          "(method / ghost-world function): the solver's model is kept in the replay file"}))
            return
        inputs = modelval.from_json(doc["inputs"])
        inputs = {k: v for k, v in inputs.items()}
        r = native.run_case(c, inputs)
        # a replay confirms the *named* obligation when that clause (or any clause) fails natively
        print("REPLAY " + json.dumps(r, default=str))
    except Exception:
        print("REPLAY " + json.dumps({"status": "error", "detail": traceback.format_exc()[-3000:]}))


if __name__ == "__main__":
    main(sys.argv[1])
