"""Run one registered native (enum / bounded) check (PYTHONPATH=<tree>:/verif)."""
import json
import sys
import traceback


def main(prop, name, tier, seed):
    from . import cli, contract as C

    cli.load_contracts(prop)
    chk = [n for n in C.NATIVE_CHECKS.get(prop, []) if n["name"] == name][0]
    try:
        r = chk["fn"](tier, int(seed))
        r.setdefault("kind", chk["kind"])
        r["failures_n"] = len(r.get("failures", []))
        print("RESULT " + json.dumps(r, default=str))
    except Exception:
        print("RESULT " + json.dumps({"error": traceback.format_exc()[-4000:]}))


if __name__ == "__main__":
    main(*sys.argv[1:5])
