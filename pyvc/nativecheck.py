"""Run one registered native (enum / bounded) check (PYTHONPATH=<tree>:/verif)."""
import json
import sys
import traceback


def domain_check(prop, target, tier, seed):
    """bounded stand-in / engine cross-check: the executable form of the contract evaluated on the
    real function over the contract's stated native domain"""
    from . import native, modelval, cli, contract as C

    c = [x for x in C.BY_PROP[prop] if x.target == target][0]
    known = [k for k in cli.load_known(prop) if k.get("status") == "known" and k.get("target") == target and k.get("class")]
    dom = c.native_domain(tier, seed)
    n = 0
    nontrivial = 0
    failures = []
    samples = []
    known_hits = {}
    for inputs in dom["cases"]:
        r = native.run_case(c, inputs)
        if r["status"] == "pre-false":
            continue
        n += 1
        nontrivial += 1
        if len(samples) < 3:
            samples.append(modelval.to_json(inputs))
        if r["status"] != "pass":
            failed = list(r.get("failed", []))
            for kf in known:
                lab = "ensures[%s]" % kf["label"]
                if lab in failed and native.eval_on_inputs(c, inputs, kf["class"]):
                    failed.remove(lab)  # a listed finding, not a new violation
                    known_hits[kf["id"]] = known_hits.get(kf["id"], 0) + 1
            if (failed or not r.get("failed")) and len(failures) < 5:
                failures.append({"target": target, "inputs": modelval.to_json(inputs), "clause": ",".join(failed) or r.get("detail"), "observed": r.get("observed")})
    return {"kind": "bounded", "evaluations": n, "distinct_nontrivial": nontrivial, "failures": failures, "exhaustive": False,
            "bound": dom.get("bound"), "domain": dom.get("domain"), "samples": samples, "known_hits": known_hits}


def main(prop, name, tier, seed):
    from . import cli, contract as C

    cli.load_contracts(prop)
    if name.startswith("domain:"):
        try:
            print("RESULT " + json.dumps(domain_check(prop, name[7:], tier, int(seed)), default=str))
        except Exception:
            print("RESULT " + json.dumps({"error": traceback.format_exc()[-4000:]}))
        return
    chk = [n for n in C.NATIVE_CHECKS.get(prop, []) if n["name"] == name][0]
    try:
        r = chk["fn"](tier, int(seed))
        r.setdefault("kind", chk["kind"])
        r["failures_n"] = len(r.get("failures", []))
        print("RESULT " + json.dumps(r, default=str))
    except Exception:
        print("RESULT " + json.dumps({"error": traceback.format_exc()[-4000:]}))


if __name__ == "__main__":
    main(*sys.argv[1:5])
