"""Finite instantiation of quantified obligations, used ONLY to search for counter-models when
the complete query is `unknown`.  The instantiated formula is weaker than the original, so a
model of it proves nothing by itself: it is turned into concrete inputs and replayed natively;
only a natively confirmed failure is reported."""
import itertools
import z3


def _contains_quant(e, cache):
    i = e.get_id()
    if i in cache:
        return cache[i]
    r = z3.is_quantifier(e) or (z3.is_app(e) and any(_contains_quant(c, cache) for c in e.children()))
    cache[i] = r
    return r


def inst(e, pos, vals, cache, budget):
    if not _contains_quant(e, cache):
        return e
    if z3.is_quantifier(e):
        universal = e.is_forall() == pos
        n = e.num_vars()
        if e.is_lambda():
            return z3.BoolVal(pos)
        if not universal:
            return e  # existential strength: left to the solver (skolemised)
        if any(e.var_sort(i).kind() != z3.Z3_INT_SORT for i in range(n)) or len(vals) ** n > budget[0]:
            return z3.BoolVal(pos)  # weaken
        parts = []
        for tup in itertools.product(vals, repeat=n):
            body = z3.substitute_vars(e.body(), *[z3.IntVal(v) for v in reversed(tup)])
            parts.append(inst(z3.simplify(body), pos, vals, cache, budget))
        budget[0] -= len(parts)
        return z3.And(parts) if e.is_forall() else z3.Or(parts)
    if z3.is_app(e):
        k = e.decl().kind()
        ch = e.children()
        if k == z3.Z3_OP_AND:
            return z3.And([inst(c, pos, vals, cache, budget) for c in ch])
        if k == z3.Z3_OP_OR:
            return z3.Or([inst(c, pos, vals, cache, budget) for c in ch])
        if k == z3.Z3_OP_NOT:
            return z3.Not(inst(ch[0], not pos, vals, cache, budget))
        if k == z3.Z3_OP_IMPLIES:
            return z3.Implies(inst(ch[0], not pos, vals, cache, budget), inst(ch[1], pos, vals, cache, budget))
        if k == z3.Z3_OP_ITE and not _contains_quant(ch[0], cache):
            return z3.If(ch[0], inst(ch[1], pos, vals, cache, budget), inst(ch[2], pos, vals, cache, budget))
    return z3.BoolVal(pos)  # weaken anything else that hides a quantifier


def seq_consts(formulas):
    out = {}
    seen = set()
    stack = list(formulas)
    while stack:
        x = stack.pop()
        i = x.get_id()
        if i in seen:
            continue
        seen.add(i)
        if z3.is_quantifier(x):
            stack.append(x.body())
        elif z3.is_app(x):
            if x.num_args() == 0 and x.decl().kind() == z3.Z3_OP_UNINTERPRETED and x.sort().kind() == z3.Z3_SEQ_SORT:
                out[x.decl().name()] = x
            stack.extend(x.children())
    return list(out.values())


def finite_instance(assumptions, goal, K=4):
    cache = {}
    budget = [4000]
    vals = list(range(-1, K + 2))
    out = []
    for a in assumptions:
        out.append(inst(a, True, vals, cache, budget))
    out.append(inst(z3.Not(goal), True, vals, cache, budget))
    for s in seq_consts(list(assumptions) + [goal]):
        out.append(z3.Length(s) <= K)
    return out


_HARD_KINDS = None


def abstract_hard(formulas):
    """Weaker copies of quantifier-free formulas for a CANDIDATE counter-model search: every application of a sequence / string operation
    z3's solver is incomplete on (replace, replace_all, str<->int conversions, indexof with offset ...) becomes an application of an
    uninterpreted function of the same arguments.  A model of the result is only a candidate (the abstraction forgets what the operations
    mean); it is used exactly like a finite-instantiation model."""
    global _HARD_KINDS
    if _HARD_KINDS is None:
        names = ("Z3_OP_SEQ_REPLACE_ALL", "Z3_OP_SEQ_REPLACE", "Z3_OP_SEQ_REPLACE_RE", "Z3_OP_SEQ_REPLACE_RE_ALL", "Z3_OP_STR_TO_INT", "Z3_OP_INT_TO_STR",
                 "Z3_OP_STRING_STOI", "Z3_OP_STRING_ITOS", "Z3_OP_SEQ_LAST_INDEX", "Z3_OP_STRING_TO_CODE", "Z3_OP_STRING_FROM_CODE")
        _HARD_KINDS = {getattr(z3, n) for n in names if hasattr(z3, n)}
    hard, seen = [], set()
    stack = list(formulas)
    while stack:
        x = stack.pop()
        if x.get_id() in seen or z3.is_quantifier(x) or not z3.is_app(x):
            continue
        seen.add(x.get_id())
        if x.decl().kind() in _HARD_KINDS:
            hard.append(x)
        stack.extend(x.children())
    if not hard:
        return None

    def size(t):
        n, st, sn = 0, [t], set()
        while st:
            y = st.pop()
            if y.get_id() in sn:
                continue
            sn.add(y.get_id())
            n += 1
            if z3.is_app(y):
                st.extend(y.children())
        return n

    hard.sort(key=size)
    pairs, fns = [], {}
    for t in hard:
        t2 = z3.substitute(t, *pairs) if pairs else t
        ch = t2.children()
        key = (t.decl().kind(), tuple(c.sort().sexpr() for c in ch), t.sort().sexpr())
        if key not in fns:
            fns[key] = z3.Function("abs_%s_%d" % (t.decl().name().replace(".", "_"), len(fns)), *([c.sort() for c in ch] + [t.sort()]))
        pairs.append((t, fns[key](*ch)))
    return [z3.substitute(f, *pairs) for f in formulas]
