"""Native (CPython) evaluation of contracts against the real function: used for replaying
solver counter-models, for the bounded back end and for the engine cross-check."""
import ast
import copy
import importlib
import sys


class _OldRewriter(ast.NodeTransformer):
    def visit_Call(self, node):
        self.generic_visit(node)
        if isinstance(node.func, ast.Name) and node.func.id == "old" and len(node.args) == 1:
            return ast.Call(func=ast.Name(id="__oldeval__", ctx=ast.Load()),
                            args=[ast.Constant(ast.unparse(node.args[0])), ast.Call(func=ast.Name(id="locals", ctx=ast.Load()), args=[], keywords=[])], keywords=[])
        if isinstance(node.func, ast.Name) and node.func.id == "implies" and len(node.args) == 2:
            # short-circuit (python evaluates call arguments eagerly; the clause language is lazy here)
            return ast.BoolOp(op=ast.Or(), values=[ast.UnaryOp(op=ast.Not(), operand=node.args[0]), node.args[1]])
        if isinstance(node.func, ast.Name) and node.func.id == "at" and len(node.args) == 2:
            return ast.Call(func=ast.Name(id="__ateval__", ctx=ast.Load()),
                            args=[node.args[0], ast.Constant(ast.unparse(node.args[1])), ast.Call(func=ast.Name(id="locals", ctx=ast.Load()), args=[], keywords=[])], keywords=[])
        return node


def compile_clause(src):
    tree = ast.parse(src.strip(), mode="eval")
    tree = ast.fix_missing_locations(_OldRewriter().visit(tree))
    return compile(tree, "<clause>", "eval")


def implies(a, b):
    return (not a) or bool(b)


UNIVERSE = list(range(-2, 14))


def forall(f, lo=None, hi=None):
    n = f.__code__.co_argcount
    if lo is None:
        import itertools as _it

        return all(f(*t) for t in _it.product(UNIVERSE, repeat=n))
    if n == 1:
        return all(f(i) for i in range(lo, hi))
    import itertools

    return all(f(*t) for t in itertools.product(range(lo, hi), repeat=n))


def exists(f, lo=None, hi=None):
    n = f.__code__.co_argcount
    if lo is None:
        import itertools as _it

        return any(f(*t) for t in _it.product(UNIVERSE, repeat=n))
    if n == 1:
        return any(f(i) for i in range(lo, hi))
    import itertools

    return any(f(*t) for t in itertools.product(range(lo, hi), repeat=n))


def base_env(contract, inputs, ne_inputs=None):
    env = {"implies": implies, "forall": forall, "exists": exists}
    ne = getattr(contract, "native_env", None)
    if callable(ne):
        ne = ne(ne_inputs if ne_inputs is not None else inputs)
    env["cnt"] = lambda lst, x: list(lst).count(x)
    env.update(ne or {})
    env.update(inputs)
    for name, g in contract.ghost.items():
        exec(g.src.strip(), env)
    for name, src in getattr(contract, "defs", {}).items():
        env[name] = eval(src, env)
    return env


def resolve_target(target):
    relpath, qual = target.split("::")
    modname = relpath[:-3].replace("/", ".")
    mod = importlib.import_module(modname)
    obj = mod
    for p in qual.split("."):
        obj = getattr(obj, p)
    return mod, obj


def default_call(contract, inputs):
    import inspect

    mod, fn = resolve_target(contract.target)
    try:
        names = set(inspect.signature(fn).parameters)
        inputs = {k: v for k, v in inputs.items() if k in names}  # ghost parameters are not passed
    except (TypeError, ValueError):
        pass
    return fn(**inputs)


def eval_on_inputs(contract, inputs, clause):
    """native value of a clause over the ENTRY state of a case (used for known-finding classes)"""
    prep = getattr(contract, "native_prepare", None)
    if prep is not None:
        inputs = prep(copy.deepcopy(inputs))
    env = base_env(contract, copy.deepcopy(inputs))
    env["__oldeval__"] = lambda s, loc=None: eval(compile_clause(s), dict(env, **(loc or {})))
    try:
        return bool(eval(compile_clause(clause), env))
    except Exception:
        return False
    finally:
        root = inputs.get("__root__") if isinstance(inputs, dict) else None
        if root:
            import shutil

            shutil.rmtree(root, ignore_errors=True)


def run_case(contract, inputs, only_label=None):
    """Run the real function on ``inputs`` (dict) and evaluate the contract natively.
    Returns dict(status='pass'|'fail'|'pre-false'|'error', failed=[labels], observed=...)."""
    prep = getattr(contract, "native_prepare", None)
    if prep is not None:
        inputs = prep(copy.deepcopy(inputs))
    pre_env = base_env(contract, copy.deepcopy(inputs))
    for lbl, rq in contract.requires.items():
        try:
            if not eval(compile_clause(rq), pre_env):
                return {"status": "pre-false", "failed": [lbl]}
        except Exception as e:  # noqa
            return {"status": "pre-false", "failed": [lbl], "detail": "requires raised %r" % (e,)}
    old_inputs = copy.deepcopy(inputs)
    call_inputs = copy.deepcopy(inputs)
    harness = contract.replay or default_call
    exc = None
    result = None
    extra = {}
    try:
        if contract.replay:
            out = harness(call_inputs)
            if isinstance(out, dict) and "__result__" in out:
                result = out.pop("__result__")
                exc = out.pop("__exc__", None)
                extra = out
            else:
                result = out
        else:
            result = harness(contract, call_inputs)
    except BaseException as e:  # noqa
        exc = e
    env = base_env(contract, call_inputs, ne_inputs=old_inputs)
    old_env = base_env(contract, old_inputs)
    def _oldeval(s, loc=None):
        e = dict(old_env)
        for k_, v_ in (loc or {}).items():
            if k_ not in e or k_ in ("x", "k", "j", "i", "q"):
                e[k_] = v_
        for name_, src_ in getattr(contract, "defs", {}).items():
            e[name_] = eval(src_, e)
        return eval(compile_clause(s), e)

    snaps = extra.pop("__snapshots__", {}) if isinstance(extra, dict) else {}

    def _ateval(label, s, loc=None):
        if label not in snaps:
            raise _Vacuous()
        e = dict(env)
        e.update(loc or {})
        e.update(snaps[label])
        for name_, src_ in getattr(contract, "defs", {}).items():
            e[name_] = eval(src_, e)
        return eval(compile_clause(s), e)

    env["__oldeval__"] = _oldeval
    old_env["__oldeval__"] = _oldeval
    env["__ateval__"] = _ateval
    logs = extra.pop("__logs__", {}) if isinstance(extra, dict) else {}
    env["log"] = lambda n: logs.get(n, [])
    env.update(extra)
    import collections as _c

    for d_ in [env, old_env] + list(snaps.values()):
        for k_, v_ in list(d_.items()):
            if isinstance(v_, _c.deque):
                d_[k_] = list(v_)  # clause language: deques are sequences (slicing, +, == with lists)
    for name_, src_ in getattr(contract, "defs", {}).items():
        env[name_] = eval(src_, env)
    failed = []
    observed = {"result": repr(result)[:2000], "exception": repr(exc) if exc is not None else None}
    if exc is None:
        env["result"] = result
        try:
            for k, src in contract.let.items():
                env[k] = eval(compile_clause(src), env)
        except Exception as e:  # noqa
            return {"status": "error", "detail": "let %s raised %r" % (k, e), "observed": observed}
        for cls in contract.raises_iff:
            try:
                if eval(compile_clause(contract.raises[cls]), old_env):
                    failed.append("must-raise[%s]" % cls)
            except Exception:
                pass
        for lbl, en in contract.ensures.items():
            if only_label and lbl != only_label:
                continue
            try:
                ok = bool(eval(compile_clause(en), env))
            except _Vacuous:
                ok = True
            except Exception as e:  # noqa
                ok = False
                observed.setdefault("clause_errors", {})[lbl] = repr(e)
            if not ok:
                failed.append("ensures[%s]" % lbl)
    else:
        allowed = None
        for cls, cond in contract.raises.items():
            if _exc_matches(exc, cls.rstrip("+")):
                allowed = cond
                break
        if allowed is None:
            failed.append("no-exception[%s]" % type(exc).__name__)
        else:
            if allowed not in (True, "True"):
                try:
                    if not eval(compile_clause(allowed), old_env):
                        failed.append("raises[%s]" % type(exc).__name__)
                except Exception as e:  # noqa
                    failed.append("raises[%s]" % type(exc).__name__)
            env["exc"] = exc
            for lbl, en in contract.ensures_exc.items():
                try:
                    ok = bool(eval(compile_clause(en), env))
                except Exception as e:  # noqa
                    ok = False
                if not ok:
                    failed.append("ensures-exc[%s]" % lbl)
    return {"status": "fail" if failed else "pass", "failed": failed, "observed": observed}


class _Vacuous(Exception):
    pass


def _exc_matches(exc, clsname):
    for k in type(exc).__mro__:
        if k.__name__ == clsname.split(".")[-1]:
            return True
    return False
