"""Trusted models of builtins and container/str methods (appendix B of DESIGN.md).

Every function here is part of the trusted base; ``conformance.py`` (``./xv selftest``) exercises the models at sample points against CPython
against CPython.  Models receive the running Evaluator ``R`` and evaluated arguments."""
import ast
import z3
from . import ty as T
from .core import *  # noqa
from .core import V, Exc, Event, DottedName, BoundMethod, Closure
from .interp import Iter, zsimp, NUMERIC, nth

BUILTINS = {}
METHODS = {}


def builtin(*names):
    def deco(f):
        for n in names:
            BUILTINS[n] = f
        return f

    return deco


def method(kinds, *names):
    if isinstance(kinds, str):
        kinds = (kinds,)

    def deco(f):
        for k in kinds:
            for n in names:
                METHODS[(k, n)] = f
        return f

    return deco


def kindp(*kinds):
    return lambda t: t.kind in kinds


def lab(R, node, what):
    return R.lab(node, what)


# ------------------------------------------------------------------------- isinstance
TYPE_NAMES = {
    "str": ("str",),
    "int": ("int", "bool"),
    "bool": ("bool",),
    "float": ("real",),
    "bytes": ("bytes",),
    "list": ("list", "seq:list"),
    "tuple": ("tuple", "seq:tuple"),
    "dict": ("dict", "vmap"),
    "set": ("set", "vset"),
    "frozenset": (),
    "NoneType": ("none",),
    "cabc.Sequence": ("str", "list", "tuple", "seq:list", "seq:tuple", "bytes"),
    "cabc.Iterable": ("str", "list", "tuple", "seq:list", "seq:tuple", "bytes", "dict", "set", "vset", "vmap"),
    "cabc.Mapping": ("dict", "vmap"),
    "cabc.MutableMapping": ("dict", "vmap"),
    "cabc.Set": ("set", "vset"),
    "collections.abc.Sequence": ("str", "list", "tuple", "seq:list", "seq:tuple", "bytes"),
    "collections.abc.Iterable": ("str", "list", "tuple", "seq:list", "seq:tuple", "bytes", "dict", "set"),
    "collections.abc.Mapping": ("dict", "vmap"),
    "object": ("*",),
}


def _type_tags(t):
    k = t.kind
    if k == "seq":
        return ("seq:" + t.py,)
    if k == "list":
        return ("list",) if t.py == "list" else ("deque",)
    return (k,)


def isinstance_static(R, t, names):
    """True / False / None(depends on class table) for a non-union type."""
    tags = _type_tags(t)
    for nm in names:
        if nm in TYPE_NAMES:
            allowed = TYPE_NAMES[nm]
            if "*" in allowed or any(tag in allowed for tag in tags):
                return True
        else:
            r = R.ctx.isinstance_custom(t, nm)
            if r:
                return True
    return False


def _flatten_bitor(n):
    if isinstance(n, ast.BinOp) and isinstance(n.op, ast.BitOr):
        return _flatten_bitor(n.left) + _flatten_bitor(n.right)
    return [n]


def isinstance_cond(R, v, tnode, frame):
    parts = _flatten_bitor(tnode)
    if len(parts) > 1:   # isinstance(x, A | B | C)
        tv = const(tuple(R.ev(p, frame) for p in parts))
    else:
        tv = R.ev(tnode, frame)
    names = []

    def coll(x):
        if x.is_const and isinstance(x.z, DottedName):
            names.append(x.z.name)
        elif x.is_const and isinstance(x.z, tuple):
            for y in x.z:
                coll(y)
        else:
            raise Unsupported("isinstance type argument")

    coll(tv)
    ufs = R.ctx.c.config.get("isinstance_uf", {})
    if v.t.kind == "opaque" and v.t.name in ufs:
        # membership of an arbitrary python value in a class (set) is an uninterpreted predicate of the value
        tag = "isa_" + "_".join(sorted(n.split(".")[-1] for n in names))
        return R.ctx.uf_pred(R, tag, [v])
    if v.t.kind == "union":
        return z3.Or([v.t.is_(v.z, m) for m in v.t.members if isinstance_static(R, m, names)] or [z3.BoolVal(False)])
    if v.is_const:
        r = R.ctx.isinstance_const(v.z, names)
        return z3.BoolVal(bool(r))
    return z3.BoolVal(isinstance_static(R, v.t, names))


# ------------------------------------------------------------------------- builtins
@builtin("len")
def m_len(R, args, kw, node):
    v = args[0]
    if v.t.kind == "union" and R.pure:
        sized = [m for m in v.t.members if m.kind in ("str", "seq", "tuple", "bytes")]
        if len(sized) > 1:
            res = R.seq_len(V(sized[-1], v.t.proj(v.z, sized[-1])))
            for m in reversed(sized[:-1]):
                res = z3.If(v.t.is_(v.z, m), R.seq_len(V(m, v.t.proj(v.z, m))), res)
            return mk_int(res)
    if v.t.kind == "union":
        v = R.project(v, lambda t: t.kind in ("str", "seq", "list", "tuple", "bytes", "dict", "set"), lab(R, node, "len"))
    if v.t.kind == "list" and R.cell(v).ty.elem.kind == "pending":
        return mk_int(0)
    if v.t.kind == "obj":
        return R.call_value(const(BoundMethod(v, "__len__")), [], {}, node, None)
    return mk_int(R.seq_len(v, R.old_heap))


@builtin("range")
def m_range(R, args, kw, node):
    ints = [R.to_int(R.project(a, kindp("int", "bool"), lab(R, node, "range"))) for a in args]
    if len(ints) == 1:
        lo, hi, st = z3.IntVal(0), ints[0], 1
    elif len(ints) == 2:
        lo, hi, st = ints[0], ints[1], 1
    else:
        lo, hi = ints[0], ints[1]
        s = zsimp(ints[2])
        if not z3.is_int_value(s) or s.as_long() == 0:
            raise Unsupported("range with symbolic step")
        st = s.as_long()
    if st == 1:
        n = z3.If(hi > lo, hi - lo, z3.IntVal(0))
        return const(Iter(zsimp(n), lambda i: mk_int(lo + i)))
    if st == -1:
        n = z3.If(lo > hi, lo - hi, z3.IntVal(0))
        return const(Iter(zsimp(n), lambda i: mk_int(lo - i)))
    if st > 0:
        n = z3.If(hi > lo, (hi - lo + st - 1) / st, z3.IntVal(0))
    else:
        n = z3.If(lo > hi, (lo - hi + (-st) - 1) / (-st), z3.IntVal(0))
    return const(Iter(zsimp(n), lambda i: mk_int(lo + i * st)))


@builtin("reversed")
def m_reversed(R, args, kw, node):
    it = R.iter_of(args[0], node)
    if it.concrete is not None:
        return const(Iter(it.n, None, concrete=list(reversed(it.concrete)), src_locs=it.src_locs))
    return const(Iter(it.n, lambda i: it.at(it.n - 1 - i), src_locs=it.src_locs))


@builtin("enumerate")
def m_enumerate(R, args, kw, node):
    it = R.iter_of(args[0], node)
    start = R.to_int(args[1]) if len(args) > 1 else (R.to_int(kw["start"]) if "start" in kw else z3.IntVal(0))
    if it.concrete is not None:
        return const(Iter(it.n, None, concrete=[const((mk_int(start + j), x)) for j, x in enumerate(it.concrete)], src_locs=it.src_locs))

    def at(i):
        e = it.at(i)
        if e.t.heap or e.is_const:
            return const((mk_int(start + i), e))
        return R.mk_tuple([mk_int(start + i), e])

    return const(Iter(it.n, at, src_locs=it.src_locs))


@builtin("zip")
def m_zip(R, args, kw, node):
    its = [R.iter_of(a, node) for a in args]
    if all(i.concrete is not None for i in its):
        n = min(len(i.concrete) for i in its)
        return const(Iter(z3.IntVal(n), None, concrete=[const(tuple(i.concrete[j] for i in its)) for j in range(n)]))
    n = its[0].n
    for i in its[1:]:
        n = z3.If(i.n < n, i.n, n)

    def at(k):
        items = []
        for i in its:
            if i.concrete is not None:
                items.append(R._pick(i.concrete, k))
            else:
                items.append(i.at(k))
        return const(tuple(items))

    return const(Iter(zsimp(n), at, src_locs=[l for i in its for l in i.src_locs]))


@builtin("map")
def m_map(R, args, kw, node):
    fn = args[0]
    it = R.iter_of(args[1], node)
    if len(args) != 2:
        raise Unsupported("map over several iterables")

    def at(k):
        return R.call_value(fn, [it.at(k)], {}, node, None)

    if it.concrete is not None:
        return const(Iter(it.n, None, concrete=[R.call_value(fn, [x], {}, node, None) for x in it.concrete]))
    seq = getattr(it, "seq", None)
    _ext = R.ctx.c.externals.get(fn.z.name) if fn.is_const and isinstance(fn.z, DottedName) else None
    if seq is not None and _ext is not None and _ext.pure and not _ext.raises and not _ext.event:
        # (only for PURE externals: their result is an uninterpreted function of the element, so the pointwise fact may be quantified;
        #  a callee under contract yields a fresh result constant per call, which must never be generalised over the index)
        # map(f, xs) over a sequence VALUE: the uninterpreted sequence map_f(xs) with its two defining facts (same term wherever the
        # same map is written - in code and in clauses - so no extensionality is needed to compare them)
        j = z3.Int(fresh_name("mj"))
        n0 = len(R.pc)
        sample = R.call_value(fn, [V(seq.t.elem, nth(seq.z, j))], {}, node, None)
        facts = list(R.pc[n0:])   # what the external's declared `ensures` say about THIS element: they belong under the quantifier
        del R.pc[n0:]
        if not sample.t.heap and not sample.is_const:
            st = T.Seq(sample.t)
            mv = R.ctx.uf_apply(R, "map_" + fn.z.name.replace(".", "_"), [seq], st)
            R.assume(z3.Length(mv.z) == z3.Length(seq.z))
            R.assume(z3.ForAll([j], z3.Implies(z3.And(0 <= j, j < z3.Length(seq.z)), z3.And([nth(mv.z, j) == sample.z] + facts))))
            return const(Iter(z3.Length(mv.z), lambda k, mv=mv: V(mv.t.elem, nth(mv.z, k)), seq=mv))
    return const(Iter(it.n, at, src_locs=it.src_locs))


@builtin("min", "max")
def m_minmax(R, args, kw, node):
    is_min = isinstance(node.func, ast.Name) and node.func.id == "min"
    if len(args) < 2:
        raise Unsupported("min/max over iterable")
    vals = [R.project(a, kindp(*NUMERIC), lab(R, node, "minmax")) for a in args]
    real = any(v.t.kind == "real" for v in vals)
    zs = [R.to_num(v, real) for v in vals]
    res = zs[0]
    for z in zs[1:]:
        res = z3.If(z < res, z, res) if is_min else z3.If(z > res, z, res)
    return V(T.Real if real else T.Int, res)


@builtin("abs")
def m_abs(R, args, kw, node):
    v = R.project(args[0], kindp(*NUMERIC), lab(R, node, "abs"))
    z = R.to_num(v, v.t.kind == "real")
    return V(T.Real if v.t.kind == "real" else T.Int, z3.If(z < 0, -z, z))


@builtin("bool")
def m_bool(R, args, kw, node):
    return mk_bool(R.truthy(args[0])) if args else mk_bool(False)


@builtin("callable")
def m_callable(R, args, kw, node):
    v = args[0]
    if v.is_const:
        return mk_bool(isinstance(v.z, (Closure, DottedName, BoundMethod)) or callable(v.z))
    if v.t.kind == "union":
        return mk_bool(z3.Or([v.t.is_(v.z, m) for m in v.t.members if R.ctx.is_callable_type(m)] or [z3.BoolVal(False)]))
    return mk_bool(R.ctx.is_callable_type(v.t))


def split_ite(R, v, label):
    """exec mode: a string that is an if-then-else of other strings is decided here, so that the
    branches (often constants) can be handled exactly"""
    if R.pure or v.t.kind != "str":
        return v
    for _ in range(6):
        z = zsimp(v.z)
        if z3.is_app(z) and z.decl().kind() == z3.Z3_OP_ITE:
            v = V(T.Str, z.arg(1) if R.decide(z.arg(0), label + "/case") else z.arg(2))
        else:
            return V(T.Str, z)
    return v


def _str_of_int_arg(R, z):
    """the integer i when z is (syntactically) str(i) as built by the model of str()"""
    tbl = R.ctx.__dict__.setdefault("str_of_int", {})
    for cand in (z, zsimp(z)):
        hit = tbl.get(cand.get_id())
        if hit is not None and hit[0].eq(cand):
            return hit[1]
    zs = zsimp(z)
    for term, i_ in tbl.values():
        if zsimp(term).eq(zs):
            return i_
    return None


@builtin("int")
def m_int(R, args, kw, node):
    if not args:
        return mk_int(0)
    v = args[0]
    if v.t.kind == "str":
        v = split_ite(R, v, lab(R, node, "int"))
        i_ = _str_of_int_arg(R, v.z)
        if i_ is not None:
            return mk_int(i_)  # int(str(i)) == i
        zs = zsimp(v.z)
        if z3.is_string_value(zs):
            from .modelval import z3str

            try:
                return mk_int(int(z3str(zs)))
            except ValueError:
                if R.pure:
                    raise EngineError("int() of a non-numeral constant in a clause")
                raise PyRaise(Exc("ValueError", tag=lab(R, node, "int")))
    if v.t.kind == "union":
        v = R.project(v, lambda t: t.kind in ("int", "bool", "str", "real"), lab(R, node, "int"))
    if v.t.kind in ("int", "bool"):
        return mk_int(R.to_int(v))
    if v.t.kind == "str":
        # ASCII decimal numerals with optional sign (appendix B); anything else: ValueError
        s = v.z
        neg = z3.PrefixOf(z3.StringVal("-"), s)
        pos = z3.PrefixOf(z3.StringVal("+"), s)
        digits = z3.If(z3.Or(neg, pos), z3.SubString(s, 1, z3.Length(s) - 1), s)
        d = z3.StrToInt(digits)
        ok = R.ctx.uf_pred(R, "is_py_int_literal", [v])
        canonical = z3.And(z3.Length(digits) > 0, d >= 0, z3.IntToStr(d) == digits)
        # canonical numerals are accepted and denote d; other accepted spellings (leading zeros,
        # whitespace, underscores, non-ASCII digits) denote *some* int (over-approximation)
        R.assume(z3.Implies(canonical, ok))
        R.assume(z3.Implies(ok, z3.Length(s) > 0))  # int("") is always a ValueError
        R.fail_if(z3.Not(ok), "ValueError", lab(R, node, "int"))
        other = R.ctx.uf_apply(R, "py_int_of", [v], T.Int)
        val = z3.If(canonical, z3.If(neg, -d, d), other.z)
        return mk_int(val)
    if v.t.kind == "real":
        return mk_int(z3.If(v.z >= 0, z3.ToInt(v.z), -z3.ToInt(-v.z)))
    raise PyRaise(Exc("TypeError", tag=lab(R, node, "int")))


@builtin("float")
def m_float(R, args, kw, node):
    v = args[0]
    if v.t.kind in ("int", "bool", "real"):
        return V(T.Real, R.to_num(v, True))
    raise Unsupported("float(%s)" % v.t)


@builtin("str", "repr")
def m_str(R, args, kw, node):
    if not args:
        return mk_str("")
    v = args[0]
    is_str_call = isinstance(node.func, ast.Name) and node.func.id == "str"
    if v.t.kind == "union" and is_str_call:
        # member-wise: str / int / bool have exact models, anything else an uninterpreted rendering
        res = R.ctx.uf_apply(R, "str_of", [R.data(v)], T.Str).z
        for m_ in v.t.members:
            if m_.kind in ("str", "int", "bool", "none"):
                sub = m_str(R, [V(m_, v.t.proj(v.z, m_)) if m_.kind != "none" else mk_none()], {}, node)
                res = z3.If(v.t.is_(v.z, m_), sub.z, res)
        return V(T.Str, res)
    if v.t.kind == "bool" and is_str_call:
        return V(T.Str, z3.If(v.z, z3.StringVal("True"), z3.StringVal("False")))
    if v.t.kind == "none" and is_str_call:
        return mk_str("None")
    if v.t.kind == "str" and is_str_call:
        return v
    if v.t.kind == "int":
        res = V(T.Str, z3.If(v.z >= 0, z3.IntToStr(v.z), z3.Concat(z3.StringVal("-"), z3.IntToStr(-v.z))))
        tbl = R.ctx.__dict__.setdefault("str_of_int", {})
        for cand in (res.z, zsimp(res.z)):
            tbl[cand.get_id()] = (cand, v.z)
        return res
    return R.ctx.uf_apply(R, "str_of", [R.data(v)] if not v.is_const else [mk_str(repr(v.z))], T.Str)


@builtin("bytes")
def m_bytes(R, args, kw, node):
    if not args:
        return R.lift(b"")
    if args[0].t.kind == "bytes":
        return args[0]
    raise Unsupported("bytes(%s)" % args[0].t)


@method("bytes", "strip", "rstrip", "lstrip")
def bytes_strip(R, recv, args, kw, node):
    name = node.func.attr
    res = R.ctx.uf_apply(R, "bytes." + name, [recv] + [R.data(a) for a in args], T.Bytes)
    R.assume(z3.Length(res.z) <= z3.Length(recv.z))
    return res


@builtin("list", "tuple")
def m_list(R, args, kw, node):
    as_tuple = isinstance(node.func, ast.Name) and node.func.id == "tuple"
    if not args:
        hint = R.ctx.type_hint(node)
        if hint is not None and hint.kind == "list":
            return R.new_list(hint.elem, [], counted=hint.counted)
        from .evalx import PENDING

        return R.alloc(T.List(PENDING), None)
    v = args[0]
    if v.t.kind == "union":
        v = R.project(v, lambda t: t.kind in ("str", "seq", "list", "tuple"), lab(R, node, "list"))
    if v.t.kind in ("list", "seq"):
        if v.t.kind == "list" and R.cell(v).ty.elem.kind == "pending":
            from .evalx import PENDING

            return R.alloc(T.List(PENDING), None)
        s = R.as_seq(v)
        if as_tuple:
            return V(T.Seq(s.t.elem, py="tuple"), s.z)
        if v.t.kind == "list" and R.cell(v).ty.counted:
            lt = T.List(s.t.elem, counted=True)
            r = R.alloc(lt, V(lt.content(), s.z))
            R.heap[r.z].ghost = {"cnt": cnt_of(R, v)}
            return r
        return R.list_from_seq(s)
    if v.t.kind == "tuple":
        items = [V(t, v.t.get(v.z, i)) for i, t in enumerate(v.t.items)]
        if as_tuple:
            return v
        elem = items[0].t if items else None
        for it in items[1:]:
            if it.t != elem:
                elem = T.Union(elem, it.t)
        return R.new_list(elem, items)
    if v.is_const and isinstance(v.z, Iter):
        it = v.z
        if it.concrete is not None:
            items = it.concrete
            return R.new_list(items[0].t, items) if items else R.alloc(T.List(__import__("pyvc.evalx", fromlist=["PENDING"]).PENDING), None)
        k = z3.Int(fresh_name("k"))
        e = it.at(k)
        st = T.Seq(e.t)
        res = z3.Const(fresh_name("lst"), st.sort())
        R.assume(z3.Length(res) == it.n)
        R.assume(z3.ForAll([k], z3.Implies(z3.And(k >= 0, k < it.n), res[k] == e.z)))
        return R.list_from_seq(V(st, res))
    raise Unsupported("list(%s)" % v.t)


def _int_add_decl():
    a, b = z3.Ints("a b")
    return (a + b).decl()


@builtin("collections.deque", "deque")
def m_deque(R, args, kw, node):
    hint = R.ctx.type_hint(node)
    counted = True if hint is None else hint.counted
    if not args:
        if hint is None:
            from .evalx import PENDING

            return R.alloc(T.List(PENDING, py="deque"), None)
        r = R.new_list(hint.elem, [], py="deque", counted=hint.counted)
        if hint.counted:
            R.heap[r.z].ghost = {"cnt": z3.K(hint.elem.sort(), z3.IntVal(0))}
        return r
    v = args[0]
    if v.is_const and isinstance(v.z, tuple) and v.z and v.z[0] == "genexp":
        _, gnode, gframe = v.z
        if len(gnode.generators) != 1:
            raise Unsupported("nested generator")
        g = gnode.generators[0]
        if not (isinstance(gnode.elt, ast.Name) and isinstance(g.target, ast.Name) and gnode.elt.id == g.target.id):
            raise Unsupported("deque(genexp) that is not a filter")
        src = R.ev(g.iter, gframe)
        if src.t.kind != "list":
            raise Unsupported("filter over %s" % src.t)
        sc = R.content(src)
        et = sc.t.elem
        x = z3.Const(fresh_name("x"), et.sort())
        from .interp import Frame

        f2 = Frame({}, parent=gframe)
        R.bind(g.target, V(et, x), f2)
        saved = R.pure
        R.pure = True
        try:
            cond = z3.And([R.truthy(R.ev(c, f2)) for c in g.ifs]) if g.ifs else z3.BoolVal(True)
        finally:
            R.pure = saved
        lt = T.List(et, counted=True, py="deque")
        res = z3.Const(fresh_name("filtered"), lt.content().sort())
        r = R.alloc(lt, V(lt.content(), res))
        cnt = z3.Const(fresh_name("filtered.cnt"), z3.ArraySort(et.sort(), z3.IntSort()))
        R.heap[r.z].ghost = {"cnt": cnt}
        R.ctx.assume_cnt_wf(R, V(lt.content(), res), cnt)
        if R.cell(src).ty.counted:
            scnt = cnt_of(R, src)
            R.assume(z3.ForAll([x], z3.Select(cnt, x) == z3.If(cond, z3.Select(scnt, x), z3.IntVal(0))))
        else:
            R.assume(z3.ForAll([x], (z3.Select(cnt, x) >= 1) == z3.And(cond, z3.Contains(sc.z, z3.Unit(x)))))
        R.assume(z3.Length(res) <= z3.Length(sc.z))
        # order is inherited from the source: for surviving elements the relative order is that of
        # the source (stated through an increasing index map)
        idx = z3.Function(fresh_name("fidx"), z3.IntSort(), z3.IntSort())
        i, j = z3.Int(fresh_name("i")), z3.Int(fresh_name("j"))
        n = z3.Length(res)
        R.assume(z3.ForAll([i], z3.Implies(z3.And(0 <= i, i < n), z3.And(0 <= idx(i), idx(i) < z3.Length(sc.z), res[i] == sc.z[idx(i)]))))
        R.assume(z3.ForAll([i, j], z3.Implies(z3.And(0 <= i, i < j, j < n), idx(i) < idx(j))))
        return r
    if v.t.kind == "list":
        c = R.content(v)
        lt = T.List(c.t.elem, counted=R.cell(v).ty.counted, py="deque")
        r = R.alloc(lt, V(lt.content(), c.z))
        if lt.counted:
            R.heap[r.z].ghost = {"cnt": cnt_of(R, v)}
        return r
    raise Unsupported("deque(%s)" % v.t)


@builtin("set", "frozenset")
def m_set(R, args, kw, node):
    if not args:
        hint = R.ctx.type_hint(node)
        if (hint is None or hint.kind != "set") and R.ctx.c.config.get("default_set_elem") is not None:
            hint = T.Set(R.ctx.c.config["default_set_elem"])  # contract-wide element type of anonymous `set()` values
        if hint is None or hint.kind != "set":
            raise Unsupported("set() without declared local type")
        st = T.VSet(hint.elem)
        empty = V(st, z3.K(hint.elem.sort(), z3.BoolVal(False)))
        if isinstance(node.func, ast.Name) and node.func.id == "frozenset":
            return empty
        return R.alloc(T.Set(hint.elem), empty)
    v = args[0]
    if v.t.kind in ("set",):
        return R.alloc(v.t, R.content(v))
    if v.t.kind in ("list", "seq"):
        s = R.as_seq(v)
        st = T.VSet(s.t.elem)
        x = z3.Const(fresh_name("x"), s.t.elem.sort())
        res = z3.Const(fresh_name("set"), st.sort())
        R.assume(z3.ForAll([x], z3.Select(res, x) == z3.Contains(s.z, z3.Unit(x))))
        return R.alloc(T.Set(s.t.elem), V(st, res))
    raise Unsupported("set(%s)" % v.t)


@builtin("dict")
def m_dict(R, args, kw, node):
    if not args and not kw:
        hint = R.ctx.type_hint(node)
        if hint is None or hint.kind != "dict":
            raise Unsupported("dict() without declared local type")
        return new_dict(R, hint)
    if len(args) == 1 and not kw and not args[0].is_const:
        a = args[0]
        if a.t.kind == "obj":
            hook = R.ctx.c.config.get("dict_of", {}).get(a.t.cls)
            if hook is None:
                raise Unsupported("dict(%s) without a dict_of model" % a.t.cls)
            return hook(R, a, node)
        if a.t.kind in ("dict", "vmap"):
            m = R.content(a, R.old_heap) if a.t.kind == "dict" else a
            dt = T.Dict(m.t.k, m.t.v, ordered=True)
            return dict_from_parts(R, dt, m.t.has(m.z), m.t.val(m.z), "dcopy")
    raise Unsupported("dict(...)")


def dict_from_parts(R, dt, has, vals, base):
    """a new dict with the given presence / value arrays; insertion order is a fresh well-formed ghost"""
    r = R.ctx.alloc_symbolic(R, dt, fresh_name(base))
    mt = dt.content()
    R.set_content(r, V(mt, mt.mk(has, vals)))
    g = R.heap[r.z].ghost
    if g and "keys" in g:
        # alloc_symbolic assumed well-formedness w.r.t. the symbolic content it created: restate it for these arrays
        R.ctx.assume_keys_wf(R, V(mt, mt.mk(has, vals)), g["keys"])
    return r


def merged_arrays(R, kt, vt, has, vals, ohas, ovals, base):
    """(has', vals') of a mapping updated with another one; pointwise axioms with explicit patterns"""
    has2 = z3.Const(fresh_name(base + ".has"), z3.ArraySort(kt.sort(), z3.BoolSort()))
    vals2 = z3.Const(fresh_name(base + ".val"), z3.ArraySort(kt.sort(), vt.sort()))
    k = z3.Const(fresh_name("uk"), kt.sort())
    R.assume(z3.ForAll([k], z3.Select(has2, k) == z3.Or(z3.Select(has, k), z3.Select(ohas, k)), patterns=[z3.Select(has2, k)]))
    R.assume(z3.ForAll([k], z3.Select(vals2, k) == z3.If(z3.Select(ohas, k), z3.Select(ovals, k), z3.Select(vals, k)), patterns=[z3.Select(vals2, k)]))
    return has2, vals2


def new_dict(R, dt):
    mt = dt.content()
    has = z3.K(dt.k.sort(), z3.BoolVal(False))
    val = z3.Const(fresh_name("dv"), z3.ArraySort(dt.k.sort(), dt.v.sort()))
    r = R.alloc(dt, V(mt, mt.mk(has, val)))
    R.heap[r.z].ghost = {"size": z3.IntVal(0)}
    if dt.ordered:
        kt = T.Seq(dt.k)
        R.heap[r.z].ghost["keys"] = V(kt, z3.Empty(kt.sort()))
    return r


@builtin("itertools.product")
def m_product(R, args, kw, node):
    """product(A, B) where B has exactly one element on this path: pairs (A[i], B[0]) in the order of A"""
    if len(args) != 2 or kw:
        raise Unsupported("itertools.product form")
    ia = R.iter_of(args[0], node)
    sb = R.as_seq(args[1]) if args[1].t.kind in ("list", "seq") else None
    if sb is None or ia.concrete is not None:
        raise Unsupported("itertools.product operands")
    if not R.feasible(z3.Length(sb.z) == 1) or R.feasible(z3.Length(sb.z) != 1):
        raise Unsupported("itertools.product with a second operand that is not a singleton on this path")
    from .interp import nth as _nth

    b0 = V(sb.t.elem, _nth(sb.z, z3.IntVal(0)))
    return const(Iter(ia.n, lambda i, ia=ia, b0=b0: const((ia.at(i), b0)), src_locs=list(getattr(ia, "src_locs", []) or []), seq=getattr(ia, "seq", None)))


@builtin("bytearray")
def m_bytearray(R, args, kw, node):
    """bytearray() used as a local accumulator (`buf += chunk`): modelled as an immutable bytes value that the local is rebound to"""
    if args or kw:
        raise Unsupported("bytearray(...) with arguments")
    return V(T.Bytes, z3.Empty(T.Bytes.sort()))


@builtin("print")
def m_print(R, args, kw, node):
    # diagnostics: assumption A7 (no contract-visible effect)
    return mk_none()


@builtin("id")
def m_id(R, args, kw, node):
    raise Unsupported("id()")


@builtin("sorted")
def m_sorted(R, args, kw, node):
    raise Unsupported("sorted()")


# ------------------------------------------------------------------------- list / deque
def _elem(R, lst, x):
    cell = R.cell(lst)
    if cell.ty.elem.kind == "pending":
        xd = R.data(x)
        cell.ty = T.List(xd.t, counted=cell.ty.counted, py=cell.ty.py)
        lst.t = cell.ty
        cell.content = V(cell.ty.content(), z3.Empty(cell.ty.content().sort()))
        return xd
    return R.coerce(R.data(x), cell.ty.elem)


def _fix_ref_type(R, lst):
    lst.t = R.cell(lst).ty


def cnt_of(R, lst):
    return R.cell_ghost(lst.z)["cnt"]


def set_cnt(R, lst, cnt):
    R.heap[lst.z].ghost = dict(R.cell_ghost(lst.z), cnt=cnt)


@method("list", "append")
def l_append(R, recv, args, kw, node):
    if args[0].t.kind == "lref":
        raise Unsupported("appending an object that already lives in a list slot (two owners)")
    x = _elem(R, recv, args[0])
    c = R.content(recv)
    R.set_content(recv, V(c.t, z3.Concat(c.z, z3.Unit(x.z))))
    if getattr(x.t, "objlike", False) and not R.pure:
        # the object now lives in the slot: the local that held it becomes a reference to the slot
        an = node.args[0] if node is not None and getattr(node, "args", None) else None
        if not isinstance(an, ast.Name) or R.cur_frame is None:
            raise Unsupported("append of an object expression (only a local name can be turned into the slot reference)")
        R.set_name(an.id, V(T.ListItemRef(x.t), (recv, zsimp(z3.Length(c.z)))), R.cur_frame)
    if R.cell(recv).ty.counted:
        cnt = cnt_of(R, recv)
        set_cnt(R, recv, z3.Store(cnt, x.z, z3.Select(cnt, x.z) + 1))
    return mk_none()


@method("list", "appendleft")
def l_appendleft(R, recv, args, kw, node):
    x = _elem(R, recv, args[0])
    c = R.content(recv)
    R.set_content(recv, V(c.t, z3.Concat(z3.Unit(x.z), c.z)))
    if R.cell(recv).ty.counted:
        cnt = cnt_of(R, recv)
        set_cnt(R, recv, z3.Store(cnt, x.z, z3.Select(cnt, x.z) + 1))
    return mk_none()


@method("list", "extend")
def l_extend(R, recv, args, kw, node):
    o = args[0]
    cell = R.cell(recv)
    if o.t.kind == "union":
        o = R.project(o, lambda t: t.kind in ("list", "seq", "tuple", "str"), lab(R, node, "extend"))
    if o.t.kind == "list" and R.cell(o).ty.elem.kind == "pending":
        return mk_none()
    if o.t.kind == "tuple":
        for i, t in enumerate(o.t.items):
            l_append(R, recv, [V(t, o.t.get(o.z, i))], {}, node)
        return mk_none()
    if cell.ty.counted:
        if o.t.kind == "list" and R.cell(o).ty.counted and o.t.elem == cell.ty.elem:
            c = R.content(recv)
            cnt = cnt_of(R, recv)
            R.set_content(recv, V(c.t, z3.Concat(c.z, R.content(o).z)))
            set_cnt(R, recv, z3.Map(_int_add_decl(), cnt, cnt_of(R, o)))
            return mk_none()
        raise Unsupported("extend on counted list")
    if o.t.kind == "str":
        raise Unsupported("list.extend(str)")
    s = R.as_seq(o)
    if cell.ty.elem.kind == "pending":
        cell.ty = T.List(s.t.elem, py=cell.ty.py)
        recv.t = cell.ty
        cell.content = V(cell.ty.content(), z3.Empty(cell.ty.content().sort()))
    c = R.content(recv)
    R.set_content(recv, V(c.t, z3.Concat(c.z, R.coerce(s, c.t).z)))
    return mk_none()


@method("list", "insert")
def l_insert(R, recv, args, kw, node):
    i = R.to_int(args[0])
    x = _elem(R, recv, args[1])
    c = R.content(recv)
    n = z3.Length(c.z)
    a, _ = R.clamp_slice(i, None, n)
    R.set_content(recv, V(c.t, z3.Concat(z3.SubSeq(c.z, 0, a), z3.Unit(x.z), z3.SubSeq(c.z, a, n - a))))
    if R.cell(recv).ty.counted:
        cnt = cnt_of(R, recv)
        set_cnt(R, recv, z3.Store(cnt, x.z, z3.Select(cnt, x.z) + 1))
    return mk_none()


@method("list", "pop", "popleft")
def l_pop(R, recv, args, kw, node):
    c = R.content(recv)
    n = z3.Length(c.z)
    name = node.func.attr if isinstance(node, ast.Call) and isinstance(node.func, ast.Attribute) else "pop"
    if name == "popleft":
        i = z3.IntVal(0)
        R.fail_if(n == 0, "IndexError", lab(R, node, "popleft"))
    elif args:
        i = R.to_int(args[0])
        R.fail_if(z3.Or(i < -n, i >= n), "IndexError", lab(R, node, "pop"))
        i = zsimp(R.norm_index(i, n))
    else:
        R.fail_if(n == 0, "IndexError", lab(R, node, "pop"))
        i = n - 1
    x = c.z[i]
    R.set_content(recv, V(c.t, z3.Concat(z3.SubSeq(c.z, 0, i), z3.SubSeq(c.z, i + 1, n - i - 1))))
    if R.cell(recv).ty.counted:
        cnt = cnt_of(R, recv)
        R.assume(z3.Select(cnt, x) >= 1)
        set_cnt(R, recv, z3.Store(cnt, x, z3.Select(cnt, x) - 1))
    return V(c.t.elem, x)


@method("list", "remove")
def l_remove(R, recv, args, kw, node):
    x = _elem(R, recv, args[0])
    c = R.content(recv)
    n = z3.Length(c.z)
    counted = R.cell(recv).ty.counted
    present = z3.Select(cnt_of(R, recv), x.z) >= 1 if counted else z3.Contains(c.z, z3.Unit(x.z))
    R.fail_if(z3.Not(present), "ValueError", lab(R, node, "remove"))
    k = z3.Int(fresh_name("rmidx"))
    R.assume(z3.And(k >= 0, k < n, c.z[k] == x.z))
    R.assume(z3.Not(z3.Contains(z3.SubSeq(c.z, 0, k), z3.Unit(x.z))))
    R.set_content(recv, V(c.t, z3.Concat(z3.SubSeq(c.z, 0, k), z3.SubSeq(c.z, k + 1, n - k - 1))))
    if counted:
        cnt = cnt_of(R, recv)
        set_cnt(R, recv, z3.Store(cnt, x.z, z3.Select(cnt, x.z) - 1))
    return mk_none()


@method("list", "clear")
def l_clear(R, recv, args, kw, node):
    cell = R.cell(recv)
    if cell.ty.elem.kind == "pending":
        return mk_none()
    c = R.content(recv)
    R.set_content(recv, V(c.t, z3.Empty(c.t.sort())))
    if cell.ty.counted:
        set_cnt(R, recv, z3.K(cell.ty.elem.sort(), z3.IntVal(0)))
    return mk_none()


def lex_le(R, t, a, b, strict=False):
    """python ordering of two values of data type t (numbers, strings, tuples thereof)"""
    k = t.kind
    if k in ("int", "real"):
        return a < b if strict else a <= b
    if k == "bool":
        return z3.And(z3.Not(a), b) if strict else z3.Implies(a, b)
    if k == "str":
        return a < b if strict else a <= b
    if k == "tuple":
        res = z3.BoolVal(not strict)
        for i in range(len(t.items) - 1, -1, -1):
            ti = t.items[i]
            ai, bi = t.get(a, i), t.get(b, i)
            res = z3.Or(lex_le(R, ti, ai, bi, strict=True), z3.And(ai == bi, res))
        return res
    raise Unsupported("ordering of %s" % t)


@method("list", "sort")
def l_sort(R, recv, args, kw, node):
    if kw or args:
        raise Unsupported("list.sort with key/reverse")
    cell = R.cell(recv)
    if cell.ty.elem.kind == "pending":
        return mk_none()
    c = R.content(recv)
    res = z3.Const(fresh_name("sorted"), c.t.sort())
    n = z3.Length(c.z)
    R.set_content(recv, V(c.t, res))
    R.assume(z3.Length(res) == n)
    i, j = z3.Int(fresh_name("i")), z3.Int(fresh_name("j"))
    R.assume(z3.ForAll([i, j], z3.Implies(z3.And(0 <= i, i <= j, j < n), lex_le(R, c.t.elem, res[i], res[j]))))
    et = c.t.elem
    if et.kind == "tuple" and et.items and et.items[0].kind in ("int", "real"):
        # implied by the lexicographic fact above; stated separately (cheap for the solver)
        R.assume(z3.ForAll([i, j], z3.Implies(z3.And(0 <= i, i <= j, j < n), et.get(res[i], 0) <= et.get(res[j], 0))))
    # permutation witnesses (every new element is an old one and vice versa); the functions are
    # not asserted to be bijections, so multiplicities are not modelled
    perm = z3.Function(fresh_name("perm"), z3.IntSort(), z3.IntSort())
    inv = z3.Function(fresh_name("inv"), z3.IntSort(), z3.IntSort())
    k = z3.Int(fresh_name("k"))
    R.assume(z3.ForAll([k], z3.Implies(z3.And(0 <= k, k < n), z3.And(0 <= perm(k), perm(k) < n, res[k] == c.z[perm(k)]))))
    R.assume(z3.ForAll([k], z3.Implies(z3.And(0 <= k, k < n), z3.And(0 <= inv(k), inv(k) < n, c.z[k] == res[inv(k)]))))
    return mk_none()


@method("list", "rotate")
def l_rotate(R, recv, args, kw, node):
    n = R.to_int(args[0]) if args else z3.IntVal(1)
    c = R.content(recv)
    ln = z3.Length(c.z)
    # deque.rotate(n): the last n (mod len) elements move to the front
    k = z3.If(ln == 0, z3.IntVal(0), (-n) % ln)  # z3 mod is non-negative for positive divisor
    k = R.resolve(k)
    R.set_content(recv, V(c.t, z3.Concat(z3.SubSeq(c.z, k, ln - k), z3.SubSeq(c.z, 0, k))))
    return mk_none()


@method(("drec", "itemref", "rec"), "get")
def rec_get(R, recv, args, kw, node):
    from . import records

    name = records._lit(R, args[0])
    fields, optional = records._fields(recv)
    dflt = args[1] if len(args) > 1 else mk_none()
    if name not in fields:
        return dflt
    if recv.t.kind == "drec" and fields[name].heap:
        c = R.heap[recv.z].content
        if name in optional and not R.pure:
            return c[name] if R.decide(c["has_" + name].z, lab(R, node, "get")) else dflt
        return c[name]
    rec = records.as_rec(R, recv, R.old_heap)
    val = V(rec.t.fields[name], rec.t.get(rec.z, name))
    if name not in optional:
        return val
    has = rec.t.get(rec.z, "has_" + name)
    if dflt.t == val.t:
        return V(val.t, z3.If(has, val.z, dflt.z))
    u = T.Union(dflt.t, val.t)
    return V(u, z3.If(has, R.coerce(val, u).z, R.coerce(dflt, u).z))


@method("list", "copy")
def l_copy(R, recv, args, kw, node):
    r = R.list_from_seq(R.content(recv), py=recv.t.py)
    return r


@method("list", "index")
def l_index(R, recv, args, kw, node):
    x = _elem(R, recv, args[0])
    c = R.content(recv)
    R.fail_if(z3.Not(z3.Contains(c.z, z3.Unit(x.z))), "ValueError", lab(R, node, "index"))
    return mk_int(z3.IndexOf(c.z, z3.Unit(x.z), 0))


@method("list", "count")
def l_count(R, recv, args, kw, node):
    if R.cell(recv).ty.counted:
        x = _elem(R, recv, args[0])
        return mk_int(z3.Select(cnt_of(R, recv), x.z))
    raise Unsupported("list.count on uncounted list")


def list_setitem(R, base, idx, val, label):
    c = R.content(base)
    n = z3.Length(c.z)
    i = R.to_int(idx)
    R.fail_if(z3.Or(i < -n, i >= n), "IndexError", label)
    i = zsimp(R.norm_index(i, n))
    x = _elem(R, base, val)
    if R.cell(base).ty.counted:
        old = c.z[i]
        cnt = cnt_of(R, base)
        cnt = z3.Store(cnt, old, z3.Select(cnt, old) - 1)
        set_cnt(R, base, z3.Store(cnt, x.z, z3.Select(cnt, x.z) + 1))
    R.set_content(base, V(c.t, z3.Concat(z3.SubSeq(c.z, 0, i), z3.Unit(x.z), z3.SubSeq(c.z, i + 1, n - i - 1))))


def list_setslice(R, base, lo, hi, val):
    if R.cell(base).ty.counted:
        raise Unsupported("slice assignment on counted list")
    c = R.content(base)
    n = z3.Length(c.z)
    a, ln = R.clamp_slice(lo, hi, n)
    s = R.coerce(R.as_seq(val), c.t)
    R.set_content(base, V(c.t, z3.Concat(z3.SubSeq(c.z, 0, a), s.z, z3.SubSeq(c.z, a + ln, n - a - ln))))


# ------------------------------------------------------------------------- dict
def _dict_parts(R, d):
    m = R.content(d)
    return m, m.t.has(m.z), m.t.val(m.z)


def dict_setitem(R, d, key, val):
    m, has, vals = _dict_parts(R, d)
    k = R.coerce(R.data(key), m.t.k)
    v = R.coerce(R.data(val), m.t.v)
    g = R.cell_ghost(d.z)
    if g is not None and "size" in g:
        g = dict(g)
        g["size"] = zsimp(z3.If(z3.Select(has, k.z), g["size"], g["size"] + 1))
        if "keys" in g:
            ks = g["keys"]
            g["keys"] = V(ks.t, z3.If(z3.Select(has, k.z), ks.z, z3.Concat(ks.z, z3.Unit(k.z))))
        R.heap[d.z].ghost = g
    R.set_content(d, V(m.t, m.t.mk(z3.Store(has, k.z, z3.BoolVal(True)), z3.Store(vals, k.z, v.z))))


def dict_delitem(R, d, key, label):
    m, has, vals = _dict_parts(R, d)
    k = R.coerce(R.data(key), m.t.k)
    R.fail_if(z3.Not(z3.Select(has, k.z)), "KeyError", label)
    g = R.cell_ghost(d.z)
    if g is not None and "size" in g:
        g = dict(g)
        g["size"] = g["size"] - 1
        if "keys" in g:
            ks = g["keys"]
            p_ = z3.Int(fresh_name("delpos"))
            n_ = z3.Length(ks.z)
            R.assume(z3.And(0 <= p_, p_ < n_, ks.z[p_] == k.z))  # the key is listed (well-formed order ghost)
            g["keys"] = V(ks.t, z3.Concat(z3.SubSeq(ks.z, 0, p_), z3.SubSeq(ks.z, p_ + 1, n_ - p_ - 1)))
        R.heap[d.z].ghost = g
    R.set_content(d, V(m.t, m.t.mk(z3.Store(has, k.z, z3.BoolVal(False)), vals)))


@method(("dict", "vmap"), "get")
def d_get(R, recv, args, kw, node):
    m = R.content(recv, R.old_heap) if recv.t.kind == "dict" else recv
    g, k = R.member_key(R.data(args[0]) if not args[0].is_const else args[0], m.t.k)
    if k is None:
        return args[1] if len(args) > 1 else mk_none()
    dflt = args[1] if len(args) > 1 else kw.get("default", mk_none())
    present = z3.And(g, z3.Select(m.t.has(m.z), k.z))
    val = V(m.t.v, z3.Select(m.t.val(m.z), k.z))
    if dflt.t == val.t:
        return V(val.t, z3.If(present, val.z, dflt.z))
    if dflt.is_const or dflt.t.heap:
        if R.pure:
            raise Unsupported("dict.get with heap default in spec")
        return val if R.decide(present, lab(R, node, "get")) else dflt
    u = T.Union(dflt.t, val.t)
    return V(u, z3.If(present, R.coerce(val, u).z, R.coerce(dflt, u).z))


@method("dict", "pop")
def d_pop(R, recv, args, kw, node):
    m, has, vals = _dict_parts(R, recv)
    k = R.coerce(R.data(args[0]), m.t.k)
    present = z3.Select(has, k.z)
    if len(args) < 2:
        R.fail_if(z3.Not(present), "KeyError", lab(R, node, "pop"))
        val = V(m.t.v, z3.Select(vals, k.z))
        dict_delitem(R, recv, args[0], lab(R, node, "pop"))
        return val
    if R.decide(present, lab(R, node, "dpop")):
        val = V(m.t.v, z3.Select(vals, k.z))
        dict_delitem(R, recv, args[0], lab(R, node, "pop"))
        return val
    if not args[1].is_const and args[1].t.kind == "opaque" and args[1].t.name == "args":
        # d.pop(key, *args) with an opaque argument pack: the pack is empty (KeyError) or holds one default (returned, unknown here)
        from .core import fresh
        R.fail_if(fresh(T.Bool, "pack_empty").z, "KeyError", lab(R, node, "pop"))
        return fresh(m.t.v, "pack_default")
    return args[1]


@method("dict", "copy")
def d_copy(R, recv, args, kw, node):
    """d.copy(): a NEW dict with the same keys and values (shallow)"""
    m = R.content(recv, R.old_heap)
    dt = T.Dict(m.t.k, m.t.v, ordered=True)
    return dict_from_parts(R, dt, m.t.has(m.z), m.t.val(m.z), "dcopy")


@method("dict", "clear")
def d_clear(R, recv, args, kw, node):
    m, has, vals = _dict_parts(R, recv)
    g = R.cell_ghost(recv.z)
    if g is not None and "size" in g:
        g = dict(g)
        g["size"] = z3.IntVal(0)
        if "keys" in g:
            g["keys"] = V(g["keys"].t, z3.Empty(g["keys"].t.sort()))
        R.heap[recv.z].ghost = g
    R.set_content(recv, V(m.t, m.t.mk(z3.K(m.t.k.sort(), z3.BoolVal(False)), vals)))
    return mk_none()


@method("dict", "update")
def d_update(R, recv, args, kw, node):
    if len(args) != 1 or kw:
        raise Unsupported("dict.update form")
    m, has, vals = _dict_parts(R, recv)
    o = args[0]
    if o.t.kind == "dict":
        om = R.content(o)
    elif o.t.kind == "vmap":
        om = o
    else:
        raise Unsupported("dict.update(%s)" % o.t.kind)
    if om.t.k != m.t.k or om.t.v != m.t.v:
        raise Unsupported("dict.update with a differently typed mapping")
    has2, vals2 = merged_arrays(R, m.t.k, m.t.v, has, vals, om.t.has(om.z), om.t.val(om.z), "upd")
    newc = V(m.t, m.t.mk(has2, vals2))
    g = R.cell_ghost(recv.z)
    if g is not None and "size" in g:
        g = dict(g)
        sz = z3.Int(fresh_name("upd.size"))
        R.assume(sz >= g["size"])
        g["size"] = sz
        if "keys" in g:
            ks = g["keys"]
            ks2 = V(ks.t, z3.Const(fresh_name("upd.keys"), ks.t.sort()))
            R.ctx.assume_keys_wf(R, newc, ks2)
            R.assume(z3.Length(ks2.z) == sz)
            R.assume(z3.PrefixOf(ks.z, ks2.z))  # existing keys keep their positions; new ones are appended
            g["keys"] = ks2
        R.heap[recv.z].ghost = g
    R.set_content(recv, newc)
    return mk_none()


@method(("dict", "vmap"), "keys")
def d_keys(R, recv, args, kw, node):
    return recv


@method("dict", "items", "values")
def d_items(R, recv, args, kw, node):
    """iteration in insertion order (needs the key-order ghost of an `ordered` dict)"""
    g = R.cell_ghost(recv.z) or {}
    if "order_independent" in g:
        R.ctx.note_violation_flag(R, "order_independent", node)
    if "keys" not in g:
        raise Unsupported("dict.items() without key-order ghost (declare the dict ordered=True)")
    ks = g["keys"]
    m = R.content(recv, R.old_heap)
    name = node.func.attr
    from .interp import nth as _nth

    def at(i):
        k = V(ks.t.elem, _nth(ks.z, i))
        v = V(m.t.v, z3.Select(m.t.val(m.z), k.z))
        return v if name == "values" else const((k, v))

    return const(Iter(z3.Length(ks.z), at, src_locs=[recv.z], seq=ks))


# ------------------------------------------------------------------------- set
@method("set", "add")
def s_add(R, recv, args, kw, node):
    c = R.content(recv)
    x = R.coerce(R.data(args[0]), c.t.elem)
    R.set_content(recv, V(c.t, z3.Store(c.z, x.z, z3.BoolVal(True))))
    return mk_none()


@method("set", "discard")
def s_discard(R, recv, args, kw, node):
    c = R.content(recv)
    x = R.coerce(R.data(args[0]), c.t.elem)
    R.set_content(recv, V(c.t, z3.Store(c.z, x.z, z3.BoolVal(False))))
    return mk_none()


@method("set", "remove")
def s_remove(R, recv, args, kw, node):
    c = R.content(recv)
    x = R.coerce(R.data(args[0]), c.t.elem)
    R.fail_if(z3.Not(z3.Select(c.z, x.z)), "KeyError", lab(R, node, "remove"))
    R.set_content(recv, V(c.t, z3.Store(c.z, x.z, z3.BoolVal(False))))
    return mk_none()


# ------------------------------------------------------------------------- str
@method("str", "startswith")
def str_startswith(R, recv, args, kw, node):
    p = args[0]
    if p.t.kind == "tuple":
        return mk_bool(z3.Or([z3.PrefixOf(p.t.get(p.z, i), recv.z) for i in range(len(p.t.items))]))
    p = R.project(p, kindp("str"), lab(R, node, "startswith"))
    return mk_bool(z3.PrefixOf(p.z, recv.z))


@method("str", "endswith")
def str_endswith(R, recv, args, kw, node):
    p = args[0]
    if p.t.kind == "tuple":
        return mk_bool(z3.Or([z3.SuffixOf(p.t.get(p.z, i), recv.z) for i in range(len(p.t.items))]))
    p = R.project(p, kindp("str"), lab(R, node, "endswith"))
    return mk_bool(z3.SuffixOf(p.z, recv.z))


@method("bytes", "endswith")
def bytes_endswith(R, recv, args, kw, node):
    return mk_bool(z3.SuffixOf(args[0].z, recv.z))


@method("bytes", "startswith")
def bytes_startswith(R, recv, args, kw, node):
    return mk_bool(z3.PrefixOf(args[0].z, recv.z))


@method("str", "find")
def str_find(R, recv, args, kw, node):
    sub = R.project(args[0], kindp("str"), lab(R, node, "find"))
    start = R.to_int(args[1]) if len(args) > 1 else z3.IntVal(0)
    n = z3.Length(recv.z)
    a, _ = R.clamp_slice(start, None, n)
    return mk_int(z3.IndexOf(recv.z, sub.z, a))


@method("str", "replace")
def str_replace(R, recv, args, kw, node):
    if len(args) != 2:
        raise Unsupported("str.replace with count")
    a = R.project(args[0], kindp("str"), "replace")
    b = R.project(args[1], kindp("str"), "replace")
    za = zsimp(a.z)
    if not z3.is_string_value(za) or za.as_string() == "":
        raise Unsupported("replace with symbolic/empty pattern")
    return V(T.Str, z3.z3.SeqRef(z3.Z3_mk_seq_replace_all(recv.z.ctx_ref(), recv.z.as_ast(), a.z.as_ast(), b.z.as_ast()), recv.z.ctx))


@method("str", "lower", "upper", "casefold", "strip", "lstrip", "rstrip", "title", "capitalize", "expandtabs")
def str_uf(R, recv, args, kw, node):
    name = node.func.attr
    recv = split_ite(R, recv, lab(R, node, name))
    zr = zsimp(recv.z)
    if z3.is_string_value(zr) and all(a.t.kind == "str" and z3.is_string_value(zsimp(a.z)) for a in args):
        # concrete receiver and arguments: constant-folded by CPython itself
        from .modelval import z3str

        return mk_str(getattr(z3str(zr), name)(*[z3str(zsimp(a.z)) for a in args]))
    res = R.ctx.uf_apply(R, "str." + name, [recv] + [R.data(a) for a in args], T.Str)
    if not args:
        # instances of the function on constants the contract cares about (concrete evaluation by CPython)
        for c_ in R.ctx.c.config.get("fold_strings", ()):
            R.assume(z3.Implies(recv.z == z3.StringVal(c_), res.z == z3.StringVal(getattr(c_, name)())))
        if name in ("lower", "upper", "casefold"):
            # decimal numerals (with an optional minus sign) contain no cased characters
            neg = z3.And(z3.PrefixOf(z3.StringVal("-"), recv.z), z3.StrToInt(z3.SubString(recv.z, 1, z3.Length(recv.z) - 1)) >= 0)
            R.assume(z3.Implies(z3.Or(z3.StrToInt(recv.z) >= 0, neg), res.z == recv.z))
    if name in ("strip", "lstrip", "rstrip"):
        R.assume(z3.Length(res.z) <= z3.Length(recv.z))
        if name == "rstrip":
            R.assume(z3.PrefixOf(res.z, recv.z))
        elif name == "lstrip":
            R.assume(z3.SuffixOf(res.z, recv.z))
        else:
            R.assume(z3.Contains(recv.z, res.z))
    elif name in ("lower", "upper", "casefold"):
        R.assume(z3.Length(res.z) == z3.Length(recv.z))
    return res


@method("str", "isdigit", "isdecimal", "isalnum", "isalpha", "isspace", "isidentifier", "isnumeric", "isupper", "islower")
def str_pred(R, recv, args, kw, node):
    name = node.func.attr
    r = R.ctx.uf_apply(R, "str." + name, [recv], T.Bool)
    R.assume(z3.Implies(r.z, z3.Length(recv.z) > 0))
    return r


@method("str", "format")
def str_format(R, recv, args, kw, node):
    return R.ctx.uf_apply(R, "str.format", [recv] + [R.data(a) for a in args if not a.is_const], T.Str)


@method("str", "encode")
def str_encode(R, recv, args, kw, node):
    return R.ctx.uf_apply(R, "str.encode", [recv], T.Bytes)


@method("str", "join")
def str_join(R, recv, args, kw, node):
    s = args[0]
    if s.is_const and isinstance(s.z, Iter) and s.z.concrete is not None:
        parts = s.z.concrete
        z = None
        for p in parts:
            z = p.z if z is None else z3.Concat(z, recv.z, p.z)
        return V(T.Str, z if z is not None else z3.StringVal(""))
    if s.is_const and isinstance(s.z, Iter) and getattr(s.z, "seq", None) is not None:
        sv = s.z.seq
    else:
        sv = R.as_seq(s)
    return R.ctx.uf_apply(R, "str.join", [recv, sv], T.Str)


@method("str", "partition")
def str_partition(R, recv, args, kw, node):
    sep = R.project(args[0], kindp("str"), lab(R, node, "partition"))
    i = z3.IndexOf(recv.z, sep.z, 0)
    found = z3.Contains(recv.z, sep.z)
    n = z3.Length(recv.z)
    pre = z3.If(found, z3.SubString(recv.z, 0, i), recv.z)
    mid = z3.If(found, sep.z, z3.StringVal(""))
    post = z3.If(found, z3.SubString(recv.z, i + z3.Length(sep.z), n - i - z3.Length(sep.z)), z3.StringVal(""))
    return R.mk_tuple([V(T.Str, pre), V(T.Str, mid), V(T.Str, post)])


@method("str", "split")
def str_split(R, recv, args, kw, node):
    a = [recv] + [R.data(x) for x in args]
    return R.list_from_seq(R.ctx.uf_apply(R, "str.split%d" % len(args), a, T.Seq(T.Str)))


@method("str", "splitlines")
def str_splitlines(R, recv, args, kw, node):
    a = [recv] + [R.data(x) for x in args] + [R.data(x) for x in kw.values()]
    return R.list_from_seq(R.ctx.uf_apply(R, "str.splitlines%d" % (len(a) - 1), a, T.Seq(T.Str)))


@method("str", "count")
def str_count(R, recv, args, kw, node):
    r = R.ctx.uf_apply(R, "str.count", [recv, R.data(args[0])], T.Int)
    R.assume(r.z >= 0)
    R.assume((r.z == 0) == z3.Not(z3.Contains(recv.z, args[0].z)))
    return r


# ------------------------------------------------------------------------- dispatch
def call_method(R, recv, name, args, kw, node):
    k = recv.t.kind
    if k == "union":
        cands = [m for m in recv.t.members if (m.kind, name) in METHODS or (m.kind == "seq" and ("list", name) in METHODS)]
        if not cands:
            nn = [m for m in recv.t.members if m.kind != "none"]
            if len(nn) > 1 and not R.pure:
                # several candidate members: keep those the path condition still allows (isinstance / is-None tests already taken)
                feas = [m for m in nn if R.feasible(recv.t.is_(recv.z, m))]
                if len(feas) == 1:
                    nn = feas
            if len(nn) == 1:
                cands = nn
            else:
                raise Unsupported("method %s on %s" % (name, recv.t))
        recv = R.project(recv, lambda t: t in cands, lab(R, node, "." + name), exc="AttributeError")
        k = recv.t.kind
    if k == "none":
        raise PyRaise(Exc("AttributeError", tag=lab(R, node, "." + name)))
    if k == "opaque":
        return R.ctx.call_opaque_method(R, recv, name, args, kw, node)
    if k == "sref":
        return sref_method(R, recv, name, args, kw, node)
    f = METHODS.get((k, name))
    if f is None:
        cm = R.ctx.custom_method(recv, name)
        if cm is not None:
            return cm(R, recv, args, kw, node)
        ek = "%s.%s" % (k, name)
        if ek in R.ctx.c.externals:
            # a method of a builtin value type the library does not model: its declared external (e.g. bytes.splitlines)
            return R.ctx.apply_ext(R, ek, R.ctx.c.externals[ek], args, kw, node, None, recv=recv)
        raise Unsupported("method %s.%s" % (k, name))
    if not isinstance(node, ast.Call) or not isinstance(node.func, ast.Attribute) or node.func.attr != name:
        # synthesise a node so that models reading node.func.attr keep working
        node = ast.Call(func=ast.Attribute(value=ast.Name(id="_", ctx=ast.Load()), attr=name, ctx=ast.Load()), args=[], keywords=[], lineno=getattr(node, "lineno", 0))
    return f(R, recv, args, kw, node)


def sref_method(R, recv, name, args, kw, node):
    """mutators of a set living by value in a list slot: the new value goes back into the slot"""
    cur = R.sref_value(recv)
    et = cur.t.elem
    if name in ("add", "discard", "remove"):
        x = R.coerce(R.data(args[0]), et)
        if name == "remove":
            R.fail_if(z3.Not(z3.Select(cur.z, x.z)), "KeyError", lab(R, node, "remove"))
        new = z3.Store(cur.z, x.z, z3.BoolVal(name == "add"))
    elif name == "update":
        o = args[0]
        if o.t.kind == "set":
            o = R.content(o)
        elif o.t.kind == "sref":
            o = R.sref_value(o)
        if o.t.kind == "vset":
            new = z3.Const(fresh_name("union"), cur.t.sort())
            k = z3.Const(fresh_name("uk"), et.sort())
            R.assume(z3.ForAll([k], z3.Select(new, k) == z3.Or(z3.Select(cur.z, k), z3.Select(o.z, k)), patterns=[z3.Select(new, k)]))
        elif o.t.kind in ("seq", "list"):
            sq = R.as_seq(o)
            new = z3.Const(fresh_name("union"), cur.t.sort())
            k = z3.Const(fresh_name("uk"), et.sort())
            j = z3.Int(fresh_name("uj"))
            wit = z3.Function(fresh_name("uwit"), et.sort(), z3.IntSort())
            # k in new  <=>  k in cur or k occurs in the sequence (skolem position for the => direction)
            R.assume(z3.ForAll([k], z3.Implies(z3.Select(new, k), z3.Or(z3.Select(cur.z, k), z3.And(0 <= wit(k), wit(k) < z3.Length(sq.z), sq.z[wit(k)] == k))),
                               patterns=[z3.Select(new, k)]))
            R.assume(z3.ForAll([k], z3.Implies(z3.Select(cur.z, k), z3.Select(new, k)), patterns=[z3.Select(cur.z, k)]))
            R.assume(z3.ForAll([j], z3.Implies(z3.And(0 <= j, j < z3.Length(sq.z)), z3.Select(new, sq.z[j])), patterns=[sq.z[j]]))
        else:
            raise Unsupported("set.update(%s)" % o.t)
    elif name == "__contains__":
        return mk_bool(z3.Select(cur.z, R.coerce(R.data(args[0]), et).z))
    else:
        raise Unsupported("method %s of a set in a list slot" % name)
    lst, idx = recv.z
    R.lref_store(recv, new)
    return mk_none()


# ------------------------------------------------------------------------- with
class CtxMgr:
    """python-level context manager model: enter(R) -> V ; exit(R, exc or None) -> bool(suppress)"""

    def enter(self, R):
        return mk_none()

    def exit(self, R, exc):
        return False


def exec_with(R, node, frame, i):
    item = node.items[i]
    cmv = R.ev(item.context_expr, frame)
    cm = R.ctx.as_ctxmgr(R, cmv, item.context_expr, frame)
    val = cm.enter(R)
    if item.optional_vars is not None:
        R.assign(item.optional_vars, val, frame)
    try:
        if i + 1 < len(node.items):
            exec_with(R, node, frame, i + 1)
        else:
            R.ex_block(node.body, frame)
    except PyRaise as pr:
        if cm.exit(R, pr.exc):
            return
        raise
    except (ReturnEx, BreakEx, ContinueEx):
        cm.exit(R, None)
        raise
    cm.exit(R, None)
