"""Contract language (sidecar data).  Importing a contract module never imports xonsh."""
from . import ty as T  # noqa: F401  (re-exported for sidecars)
from .ty import *  # noqa: F401,F403

REGISTRY = {}  # target -> Contract
BY_PROP = {}  # property id -> [Contract]
NATIVE_CHECKS = {}  # property id -> [dict(name, kind, fn, tiers)]


def native_check(prop, name, kind, fn, tiers=("quick", "thorough"), doc=""):
    """Register a native check.  kind: 'enum' (finite domain enumerated completely from the real
    tables - counts as proved, exhaustive) or 'bounded' (stand-in up to a stated bound - never
    counted as proved).  fn(tier, seed) -> dict(evaluations, distinct_nontrivial, failures=[...],
    exhaustive, bound, domain, obligations, samples)"""
    NATIVE_CHECKS.setdefault(prop, []).append(dict(name=name, kind=kind, fn=fn, tiers=tiers, doc=doc))


class Ext:
    """Declared effect of an external (unverified) callee.

    ret       : result type (None -> NoneT)
    pure      : result is an uninterpreted function of the arguments (and of ``reads`` ghost names)
    event     : name appended to the effect trace (with the evaluated arguments)
    raises    : exception classes it may raise (each one forks a path); [] = nothrow
    ensures   : clause strings over ``result`` and ``a0..an`` / keyword names, *assumed*
    havoc     : spec expressions (evaluated in caller frame) whose heap content is havoced
    """

    def __init__(self, ret=None, pure=False, event=None, raises=(), ensures=(), havoc=(), requires=(),
                 note="", model=None, fresh=True, bind=None, log=None, attr=False, log_type=None, uf=None, args=None, snapshot=None,
                 allowed_kwargs=None):
        self.ret = ret
        self.pure = pure
        self.event = event
        self.raises = list(raises)
        self.ensures = [ensures] if isinstance(ensures, str) else list(ensures)
        self.requires = [requires] if isinstance(requires, str) else list(requires)
        self.havoc = list(havoc)
        self.note = note
        self.model = model
        self.fresh = fresh
        self.allowed_kwargs = allowed_kwargs  # keyword arguments the declared behaviour covers (any other one is a callpre failure)
        self.snapshot = snapshot  # label of a heap snapshot taken right after the (first) call returns
        self.args = args  # declared argument types (union-typed actuals are projected onto them)
        self.uf = uf  # name of the uninterpreted function (to share one between spellings)
        self.is_attr = attr  # a data attribute / property read, not a call
        self.log_type = log_type
        self.bind = bind  # name under which the (last) result is visible to clauses
        self.log = log  # index of the argument recorded in the event log (default 0)


class GhostFn:
    """Recursive spec function given as python source ``def name(args): return <expr>``.
    Natively it is exec'ed; symbolically it is an uninterpreted function with its unfolding
    axiom (quantified over the parameters)."""

    def __init__(self, src, params, ret):
        self.src = src
        self.params = list(params)  # [(name, Ty)]
        self.ret = ret


class Lemma:
    """forall var in [lo, hi]: body   proved by induction on var (base + step VCs)."""

    def __init__(self, name, var, lo, hi, body, induction=True):
        self.name = name
        self.var = var
        self.lo = lo
        self.hi = hi
        self.body = body
        self.induction = induction


class Contract:
    def __init__(self, target, prop, params, **kw):
        self.target = target
        self.prop = prop
        self.params = dict(params)
        self.returns = kw.pop("returns", None)
        self.requires = _named(kw.pop("requires", []), "pre")
        self.ensures = _named(kw.pop("ensures", {}), "post")
        self.ensures_exc = _named(kw.pop("ensures_exc", {}), "xpost")
        self.raises = dict(kw.pop("raises", {}))  # class -> condition under which allowed
        self.raises_iff = list(kw.pop("raises_iff", []))  # classes for which cond => must raise
        self.modifies = list(kw.pop("modifies", []))
        self.loops = dict(kw.pop("loops", {}))
        self.ghost = dict(kw.pop("ghost", {}))
        self.lemmas = list(kw.pop("lemmas", []))
        self.externals = dict(kw.pop("externals", {}))
        self.abstract = list(kw.pop("abstract", []))
        self.let = dict(kw.pop("let", {}))
        self.globals = dict(kw.pop("globals", {}))
        self.locals = dict(kw.pop("locals", {}))
        self.calls = dict(kw.pop("calls", {}))
        self.replay = kw.pop("replay", None)
        self.native_domain = kw.pop("native_domain", None)
        self.from_property = kw.pop("from_property", "")
        self.config = dict(kw.pop("config", {}))
        self.assumptions = list(kw.pop("assumptions", []))
        self.optional_fields = dict(kw.pop("optional_fields", {}))
        self.ghost_state = dict(kw.pop("ghost_state", {}))
        self.body_spec = kw.pop("body_spec", None)
        self.inline = list(kw.pop("inline", []))
        self.unroll = kw.pop("unroll", 3)
        self.verify = kw.pop("verify", True)  # False: assumed contract (listed as such)
        self.kind = kw.pop("kind", "function")
        self.hooks = dict(kw.pop("hooks", {}))
        self.notes = kw.pop("notes", "")
        self.defs = dict(kw.pop("defs", {}))  # spec macros: name -> "lambda x: ..."
        self.snapshots = dict(kw.pop("snapshots", {}))  # label -> callee simple name (heap snapshot after its first call)
        self.variant = kw.pop("variant", None)  # termination measure for recursive calls
        self.ensures_locals = _named(kw.pop("ensures_locals", {}), "lpost")  # postconditions that may mention final locals
        self.ensures_exc_locals = _named(kw.pop("ensures_exc_locals", {}), "xlpost")  # the same for exceptional exits (locals as the raise left them)
        self.variant_id = kw.pop("variant_id", None)  # a second contract on the same function (e.g. an assumed view used by one caller)
        self.shards = kw.pop("shards", 1)  # split this function's obligations over several worker processes
        self.axioms = dict(kw.pop("axioms", {}))  # assumed facts (each listed in the evidence as trusted)
        self.emits = kw.pop("emits", None)  # frame for effect events: names this function may emit (None: unspecified)
        self.asserts = list(kw.pop("asserts", []))  # [dict(before=<source prefix>, clause=..., label=...)]
        self.ghost_inputs = dict(kw.pop("ghost_inputs", {}))
        self.native_env = kw.pop("native_env", None)
        self.is_generator_hint = False
        self.native_prepare = kw.pop("native_prepare", None)  # raw model inputs -> native world objects
        self.replay_extras = kw.pop("replay_extras", None)  # fn(ev, inputs) -> extra inputs (ghost function values)
        if kw:
            raise TypeError("unknown contract fields: %s" % sorted(kw))


def _named(x, prefix):
    if isinstance(x, dict):
        return dict(x)
    if isinstance(x, str):
        x = [x]
    return {"%s%d" % (prefix, i + 1): s for i, s in enumerate(x)}


def contract(target, prop, params, **kw):
    c = Contract(target, prop, params, **kw)
    c.key = target + ("#" + c.variant_id if c.variant_id else "")
    REGISTRY[(prop, c.key)] = c
    BY_PROP.setdefault(prop, []).append(c)
    return c
