"""pyvc core: symbolic values, state, exploration oracle, exceptions, obligations."""
import z3
from . import ty as T


class EngineError(Exception):
    """The verifier cannot handle the construct -> the function is *undecided*, never a violation."""


class Unsupported(EngineError):
    pass


class ClauseVacuous(Exception):
    """the clause refers to a snapshot point this path never reached: it says nothing here"""


class PathEnd(Exception):
    """The current path is finished (after a loop-body back edge, an infeasible assumption ...)."""


# control flow of the interpreted program, as python exceptions of the interpreter
class ReturnEx(Exception):
    def __init__(self, value):
        self.value = value


class BreakEx(Exception):
    pass


class ContinueEx(Exception):
    pass


class PyRaise(Exception):
    """The interpreted program raises ``exc`` (an ``Exc``)."""

    def __init__(self, exc):
        self.exc = exc


class Exc:
    """A (symbolic) python exception: class name, exactness, optional payload values."""

    def __init__(self, cls, args=(), exact=True, tag=None, excluded=()):
        self.cls = cls
        self.args = tuple(args)
        self.exact = exact
        self.tag = tag  # free text: where it came from
        self.excluded = tuple(excluded)

    def __repr__(self):
        return "%s%s" % (self.cls, "" if self.exact else "+")


EXC_BASES = {
    "BaseException": None,
    "Exception": "BaseException",
    "KeyboardInterrupt": "BaseException",
    "SystemExit": "BaseException",
    "GeneratorExit": "BaseException",
    "ArithmeticError": "Exception",
    "ZeroDivisionError": "ArithmeticError",
    "OverflowError": "ArithmeticError",
    "AssertionError": "Exception",
    "AttributeError": "Exception",
    "EOFError": "Exception",
    "ImportError": "Exception",
    "ModuleNotFoundError": "ImportError",
    "LookupError": "Exception",
    "IndexError": "LookupError",
    "KeyError": "LookupError",
    "NameError": "Exception",
    "UnboundLocalError": "NameError",
    "OSError": "Exception",
    "IOError": "Exception",
    "FileNotFoundError": "OSError",
    "FileExistsError": "OSError",
    "PermissionError": "OSError",
    "NotADirectoryError": "OSError",
    "IsADirectoryError": "OSError",
    "ProcessLookupError": "OSError",
    "ChildProcessError": "OSError",
    "InterruptedError": "OSError",
    "BrokenPipeError": "OSError",
    "RuntimeError": "Exception",
    "Empty": "Exception",   # queue.Empty
    "Full": "Exception",    # queue.Full
    "NotImplementedError": "RuntimeError",
    "RecursionError": "RuntimeError",
    "StopIteration": "Exception",
    "SyntaxError": "Exception",
    "IndentationError": "SyntaxError",
    "TypeError": "Exception",
    "ValueError": "Exception",
    "UnicodeError": "ValueError",
    "UnicodeDecodeError": "UnicodeError",
    "UnicodeEncodeError": "UnicodeError",
    "JSONDecodeError": "ValueError",
    "json.JSONDecodeError": "ValueError",
    # repo-defined
    "XonshError": "Exception",
    "SubprocessError": "Exception",
    "CalledProcessError": "SubprocessError",
    "subprocess.CalledProcessError": "SubprocessError",
    "XonshCalledProcessError": "XonshError",  # also CalledProcessError (multiple inheritance)
    "DirectoryStackError": "Exception",
    # sqlite3 (PEP 249 hierarchy)
    "sqlite3.Error": "Exception",
    "DatabaseError": "sqlite3.Error",
    "OperationalError": "DatabaseError",
    "IntegrityError": "DatabaseError",
    "ProgrammingError": "DatabaseError",
}
EXC_EXTRA_BASES = {"XonshCalledProcessError": ["CalledProcessError"]}
EXC_ALIASES = {
    "IOError": "OSError",
    "json.JSONDecodeError": "JSONDecodeError",
    "subprocess.CalledProcessError": "CalledProcessError",
    "builtins.Exception": "Exception",
    "sqlite3.OperationalError": "OperationalError", "sqlite3.DatabaseError": "DatabaseError",
    "sqlite3.IntegrityError": "IntegrityError", "sqlite3.ProgrammingError": "ProgrammingError",
}


def exc_canon(name):
    name = EXC_ALIASES.get(name, name)
    if name not in EXC_BASES:
        short = name.split(".")[-1]
        short = EXC_ALIASES.get(short, short)
        if short in EXC_BASES:
            return short
        raise Unsupported("unknown exception class %r" % name)
    return name


def exc_subclass(a, b):
    """a is b or a subclass of b (by the table)."""
    a, b = exc_canon(a), exc_canon(b)
    seen = [a]
    while seen:
        x = seen.pop()
        if x == b:
            return True
        p = EXC_BASES.get(x)
        if p:
            seen.append(p)
        seen.extend(EXC_EXTRA_BASES.get(x, []))
    return False


class V:
    """Symbolic value.  Data types: ``z`` is a z3 term.  Heap types: ``z`` is a location id.
    Const: ``z`` is a python object (function, DottedName, sentinel...)."""

    __slots__ = ("t", "z")

    def __init__(self, t, z):
        self.t = t
        self.z = z

    @property
    def is_ref(self):
        return self.t.heap

    @property
    def is_const(self):
        return self.t is T.Const

    def __repr__(self):
        return "V(%s,%s)" % (self.t, self.z)


class DottedName:
    """An unresolved global name such as ``os.path.isdir`` (resolved at call time)."""

    def __init__(self, name):
        self.name = name

    def __repr__(self):
        return "<%s>" % self.name


class BoundMethod:
    def __init__(self, recv, name):
        self.recv = recv
        self.name = name

    def __repr__(self):
        return "<bound %s of %r>" % (self.name, self.recv)


class Closure:
    """A nested FunctionDef / Lambda evaluated in its defining frame (inlined at calls)."""

    def __init__(self, node, frame):
        self.node = node
        self.frame = frame


class Sentinel:
    def __init__(self, name):
        self.name = name

    def __repr__(self):
        return "<sentinel %s>" % self.name


def const(obj):
    return V(T.Const, obj)


NONE = None  # filled below


def mk_none():
    return V(T.NoneT, T.NoneT.sort().none)


def mk_int(i):
    return V(T.Int, z3.IntVal(i) if isinstance(i, int) else i)


def mk_bool(b):
    return V(T.Bool, z3.BoolVal(b) if isinstance(b, bool) else b)


def mk_str(s):
    return V(T.Str, z3.StringVal(s) if isinstance(s, str) else s)


def mk_real(r):
    return V(T.Real, z3.RealVal(r) if isinstance(r, (int, float, str)) else r)


class Cell:
    """Heap cell: type + content.  content is a V (list/dict/set) or dict name->V (Obj)."""

    __slots__ = ("ty", "content", "born", "ghost")

    def __init__(self, ty, content, born, ghost=None):
        self.ty = ty
        self.content = content
        self.born = born  # allocation epoch (for loop frame checks)
        self.ghost = ghost  # dict: cnt (multiset count array), size, keys (insertion order)

    def copy(self):
        c = self.content
        return Cell(self.ty, dict(c) if isinstance(c, dict) else c, self.born, dict(self.ghost) if self.ghost else None)


class Event:
    def __init__(self, name, args=(), kw=None, result=None):
        self.name = name
        self.args = list(args)
        self.kw = dict(kw or {})
        self.result = result

    def __repr__(self):
        return "Ev(%s%r)" % (self.name, self.args)


class Obligation:
    def __init__(self, name, kind, label, path, assumptions, goal, clause="", line=None, meta=None):
        self.name = name
        self.kind = kind
        self.label = label
        self.path = path
        self.assumptions = assumptions
        self.goal = goal
        self.clause = clause
        self.line = line
        self.meta = meta or {}
        self.verdict = None
        self.solver = None
        self.time = 0.0
        self.model = None
        self.detail = ""


class Oracle:
    """Decision oracle for one run; the driver re-executes the function for each choice prefix."""

    def __init__(self, prefix):
        self.prefix = list(prefix)
        self.trace = []  # (chosen, options, label)

    def peek(self):
        """the decision already taken for the next choice point when replaying a prefix, else None"""
        i = len(self.trace)
        return self.prefix[i] if i < len(self.prefix) else None

    def choose(self, options, label):
        """options: list of hashable option ids (already feasibility-filtered)."""
        i = len(self.trace)
        if i < len(self.prefix):
            # replaying: the earlier run found this option feasible-or-undecided; feasibility
            # checks are time-limited and need not repeat identically, so the prefix wins
            c = self.prefix[i]
            self.trace.append((c, [c], label))
            return c
        c = options[0]
        self.trace.append((c, list(options), label))
        return c


def explore(run_one, max_paths=4000, budget_s=None):
    """Depth-first exploration: run_one(oracle) executes one path."""
    import time as _time

    stack = [[]]
    n = 0
    t0 = _time.time()
    while stack:
        prefix = stack.pop()
        orc = Oracle(prefix)
        run_one(orc)
        n += 1
        if n > max_paths:
            raise EngineError("path explosion (> %d paths)" % max_paths)
        if budget_s is not None and _time.time() - t0 > budget_s:
            raise EngineError("path generation budget of %ds exhausted after %d paths" % (budget_s, n))
        for i in range(len(prefix), len(orc.trace)):
            chosen, options, _ = orc.trace[i]
            taken = [t[0] for t in orc.trace[:i]]
            for alt in options:
                if alt != chosen:
                    stack.append(taken + [alt])
    return n


_fresh_counter = [0]


def reset_fresh():
    _fresh_counter[0] = 0


def fresh_name(base):
    _fresh_counter[0] += 1
    return "%s!%d" % (base, _fresh_counter[0])


def fresh(ty, base):
    """Fresh symbolic *data* value of type ty."""
    if ty.heap or ty is T.Const:
        raise EngineError("fresh() on non-data type %s" % ty)
    return V(ty, z3.Const(fresh_name(base), ty.sort()))


def named(ty, name):
    return V(ty, z3.Const(name, ty.sort()))
