"""dict-as-record values: DRec heap objects, Rec data values and ItemRef (a record living in a
dict slot)."""
import z3
from . import ty as T
from .core import *  # noqa
from .core import V, Exc


def _lit(R, key):
    z = z3.simplify(key.z) if key.t.kind == "str" else None
    if z is None or not z3.is_string_value(z):
        raise Unsupported("record access with a non-literal key")
    return z.as_string()


def as_rec(R, v, heap=None):
    """record value (Rec) of a DRec heap object / ItemRef / Rec"""
    k = v.t.kind
    if k == "rec":
        return v
    if k == "drec":
        rt = v.t.rec()
        c = (R.heap if heap is None else heap)[v.z].content
        parts = {}
        for f, ft in rt.fields.items():
            fv = c.get(f)
            if fv is None:
                raise EngineError("record field %s missing" % f)
            parts[f] = R.coerce(R.data(fv), ft).z
        return V(rt, rt.mk(**parts))
    if k == "itemref":
        d, key = v.z
        m = R.content(d, heap)
        return V(m.t.v, z3.Select(m.t.val(m.z), key))
    raise EngineError("as_rec(%s)" % v.t)


def _fields(v):
    if v.t.kind == "rec":
        return v.t.fields, [f[4:] for f in v.t.fields if f.startswith("has_")]
    dr = v.t if v.t.kind == "drec" else v.t.drec
    return dr.fields, list(dr.optional)


def getitem(R, base, key, lab):
    name = _lit(R, key)
    fields, optional = _fields(base)
    if name not in fields:
        if R.pure:
            raise EngineError("record has no key %r" % name)
        raise PyRaise(Exc("KeyError", tag=lab))
    if base.t.kind == "drec":
        c = R.heap[base.z].content if R.old_heap is None else R.old_heap[base.z].content
        if name in optional:
            R.fail_if(z3.Not(c["has_" + name].z), "KeyError", lab)
        return c[name]
    rec = as_rec(R, base, R.old_heap)
    if name in optional:
        R.fail_if(z3.Not(rec.t.get(rec.z, "has_" + name)), "KeyError", lab)
    return V(rec.t.fields[name], rec.t.get(rec.z, name))


def contains(R, base, key, heap):
    try:
        name = _lit(R, key)
    except Unsupported:
        raise
    fields, optional = _fields(base)
    if name in optional:
        if base.t.kind == "drec":
            return (R.heap if heap is None else heap)[base.z].content["has_" + name].z
        rec = as_rec(R, base, heap)
        return rec.t.get(rec.z, "has_" + name)
    return z3.BoolVal(name in fields and not name.startswith("has_"))


def setitem(R, base, key, val, lab):
    name = _lit(R, key)
    fields, optional = _fields(base)
    if name not in fields:
        # a key the model does not track (e.g. "started"): harmless bookkeeping, declared per type
        if name in R.ctx.c.config.get("untracked_keys", ()):
            return
        raise Unsupported("store of untracked record key %r" % name)
    if base.t.kind == "drec":
        c = R.heap[base.z].content
        R.write_check(base.z)
        c[name] = val if fields[name].heap else R.coerce(R.data(val), fields[name])
        if name in optional:
            c["has_" + name] = mk_bool(True)
        return
    d, k = base.z
    m = R.content(d)
    rt = m.t.v
    cur = z3.Select(m.t.val(m.z), k)
    new = rt.set(cur, name, R.coerce(R.data(val), rt.fields[name]).z)
    if name in optional:
        new = rt.set(new, "has_" + name, z3.BoolVal(True))
    R.set_content(d, V(m.t, m.t.mk(m.t.has(m.z), z3.Store(m.t.val(m.z), k, new))))
