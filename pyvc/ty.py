"""Types of symbolic values and their z3 sorts.

A *data* type has a z3 sort and its values are z3 terms.  A *heap* type (list, dict, set, deque,
object) is a concrete location in the executor whose content is a data value; variables hold
``Ref`` values to them.  This is the "concrete locations, symbolic contents" heap model: two
distinct parameters of heap type are assumed not to alias unless a contract says so (reported
in every evidence file as assumption A5').
"""
import z3

_sort_cache = {}


def _stable_hash(s):
    import hashlib

    return hashlib.md5(s.encode()).hexdigest()[:8]


class Ty:
    kind = "?"
    heap = False

    def key(self):
        raise NotImplementedError

    def __eq__(self, o):
        return isinstance(o, Ty) and self.key() == o.key()

    def __hash__(self):
        return hash(self.key())

    def __repr__(self):
        return self.key()

    def sort(self):
        k = self.key()
        if k not in _sort_cache:
            _sort_cache[k] = self._mk_sort()
        return _sort_cache[k]


class _Prim(Ty):
    def __init__(self, kind, mk):
        self.kind = kind
        self._mk = mk

    def key(self):
        return self.kind

    def _mk_sort(self):
        return self._mk()


Int = _Prim("int", z3.IntSort)
Bool = _Prim("bool", z3.BoolSort)
Real = _Prim("real", z3.RealSort)
Str = _Prim("str", z3.StringSort)
Bytes = _Prim("bytes", lambda: z3.SeqSort(z3.IntSort()))  # sequence of 0..255


class _NoneT(Ty):
    kind = "none"

    def key(self):
        return "none"

    def _mk_sort(self):
        d = z3.Datatype("NoneT")
        d.declare("none")
        return d.create()  # (single global constructor `none`)


NoneT = _NoneT()


class Opaque(Ty):
    """Uninterpreted sort (callables, process handles, AST nodes ...).  Equality only."""

    kind = "opaque"

    def __init__(self, name):
        self.name = name

    def key(self):
        return "opaque:" + self.name

    def _mk_sort(self):
        return z3.DeclareSort("O_" + self.name)


class Tuple(Ty):
    kind = "tuple"

    def __init__(self, *items):
        self.items = tuple(items)

    def key(self):
        return "tuple(" + ",".join(t.key() for t in self.items) + ")"

    def _nm(self):
        return "T" + _stable_hash(self.key())

    def _mk_sort(self):
        n = self._nm()
        d = z3.Datatype(n)
        d.declare(n + "_mk", *[("%s_f%d" % (n, i), t.sort()) for i, t in enumerate(self.items)])
        return d.create()

    def mk(self, *terms):
        return getattr(self.sort(), self._nm() + "_mk")(*terms)

    def get(self, term, i):
        return getattr(self.sort(), "%s_f%d" % (self._nm(), i))(term)


class Rec(Ty):
    """Immutable record value with named fields (used inside containers)."""

    kind = "rec"

    def __init__(self, name, /, **fields):
        self.name = name
        self.fields = dict(fields)

    def key(self):
        return "rec:%s(" % self.name + ",".join(
            "%s:%s" % (k, t.key()) for k, t in self.fields.items()
        ) + ")"

    def _mk_sort(self):
        d = z3.Datatype("R_" + self.name)
        d.declare("R_%s_mk" % self.name, *[("r_%s_%s" % (self.name, k), t.sort()) for k, t in self.fields.items()])
        return d.create()

    def mk(self, **terms):
        return getattr(self.sort(), "R_%s_mk" % self.name)(*[terms[k] for k in self.fields])

    def get(self, term, f):
        return getattr(self.sort(), "r_%s_%s" % (self.name, f))(term)

    def set(self, term, f, val):
        return getattr(self.sort(), "R_%s_mk" % self.name)(*[val if k == f else self.get(term, k) for k in self.fields])


class ObjRec(Rec):
    """A python OBJECT kept as a record value inside a list (`List(ObjRec(...))`): its identity is its list slot.
    Reads of a slot in exec mode yield a ListItemRef, attribute stores go to the slot; a freshly built object held in a
    local is a plain record value whose attribute stores rebind the local, and `lst.append(local)` turns the local into
    the slot reference (ownership assumption: an object belongs to exactly one list slot - appending one that is
    already slot-bound is unsupported)."""

    objlike = True


class ListItemRef(Ty):
    """reference to an ObjRec stored in a list slot: z = (list ref V, index z3 term)"""

    kind = "lref"

    def __init__(self, rec):
        self.rec = rec

    def key(self):
        return "lref:" + self.rec.name


class SetSlotRef(Ty):
    """reference to a set stored BY VALUE in a list slot (`List(VSet(t))`): z = (list ref V, index term); add / update / remove /
    discard write the new set value back into the slot (ownership: the set belongs to that slot)"""

    kind = "sref"

    def __init__(self, vset):
        self.vset = vset

    def key(self):
        return "sref:" + self.vset.key()


class Seq(Ty):
    """Immutable finite sequence value (tuple of unknown length, or the content of a list)."""

    kind = "seq"

    def __init__(self, elem, py="list"):
        self.elem = elem
        self.py = py

    def key(self):
        return "seq(%s)" % self.elem.key()

    def _mk_sort(self):
        return z3.SeqSort(self.elem.sort())


class Union(Ty):
    """Tagged union of data types.  Opt(t) == Union(NoneT, t)."""

    kind = "union"

    def __init__(self, *members):
        ms = []
        for m in members:
            if isinstance(m, Union):
                ms.extend(m.members)
            else:
                ms.append(m)
        seen = []
        for m in ms:
            if m not in seen:
                seen.append(m)
        self.members = tuple(seen)

    def key(self):
        return "union(" + "|".join(m.key() for m in self.members) + ")"

    def _nm(self):
        return "U" + _stable_hash(self.key())

    def _mk_sort(self):
        n = self._nm()
        d = z3.Datatype(n)
        for i, m in enumerate(self.members):
            if m.kind == "none":
                d.declare("%s_c%d" % (n, i))
            else:
                d.declare("%s_c%d" % (n, i), ("%s_v%d" % (n, i), m.sort()))
        return d.create()

    def index(self, m):
        for i, x in enumerate(self.members):
            if x == m:
                return i
        return None

    def inject(self, m, term):
        i = self.index(m)
        s = self.sort()
        c = getattr(s, "%s_c%d" % (self._nm(), i))
        return c if m.kind == "none" else c(term)

    def is_(self, term, m):
        i = self.index(m)
        if i is None:
            return z3.BoolVal(False)
        return getattr(self.sort(), "is_%s_c%d" % (self._nm(), i))(term)

    def proj(self, term, m):
        i = self.index(m)
        if m.kind == "none":
            return NoneT.sort().none
        return getattr(self.sort(), "%s_v%d" % (self._nm(), i))(term)


def Opt(t):
    return Union(NoneT, t)


class VSet(Ty):
    """Set value: characteristic array."""

    kind = "vset"

    def __init__(self, elem):
        self.elem = elem

    def key(self):
        return "vset(%s)" % self.elem.key()

    def _mk_sort(self):
        return z3.ArraySort(self.elem.sort(), z3.BoolSort())


class VMap(Ty):
    """Map value: (presence array, value array)."""

    kind = "vmap"

    def __init__(self, k, v):
        self.k = k
        self.v = v

    def key(self):
        return "vmap(%s,%s)" % (self.k.key(), self.v.key())

    def _mk_sort(self):
        n = self._nm()
        d = z3.Datatype(n)
        d.declare(
            n + "_mk",
            (n + "_has", z3.ArraySort(self.k.sort(), z3.BoolSort())),
            (n + "_val", z3.ArraySort(self.k.sort(), self.v.sort())),
        )
        return d.create()

    def _nm(self):
        return "M" + _stable_hash(self.key())

    def has(self, term):
        return getattr(self.sort(), self._nm() + "_has")(term)

    def val(self, term):
        return getattr(self.sort(), self._nm() + "_val")(term)

    def mk(self, has, val):
        return getattr(self.sort(), self._nm() + "_mk")(has, val)


# ---- heap types -------------------------------------------------------------------------


class List(Ty):
    kind = "list"
    heap = True

    def __init__(self, elem, counted=False, py="list"):
        self.elem = elem
        self.counted = counted
        self.py = py

    def key(self):
        return "%s(%s%s)" % (self.py, self.elem.key(), ",counted" if self.counted else "")

    def content(self):
        return Seq(self.elem, py=self.py)


def Deque(elem, counted=True):
    return List(elem, counted=counted, py="deque")


class Dict(Ty):
    kind = "dict"
    heap = True

    def __init__(self, k, v, ordered=False):
        self.k = k
        self.v = v
        self.ordered = ordered

    def key(self):
        return "dict(%s,%s)" % (self.k.key(), self.v.key())

    def content(self):
        return VMap(self.k, self.v)


class Set(Ty):
    kind = "set"
    heap = True

    def __init__(self, elem):
        self.elem = elem

    def key(self):
        return "set(%s)" % self.elem.key()

    def content(self):
        return VSet(self.elem)


class Obj(Ty):
    """Heap object with named fields; ``fields`` maps name -> Ty (data or heap type)."""

    kind = "obj"
    heap = True

    def __init__(self, cls, /, **fields):
        self.cls = cls
        self.fields = {}
        self.optional = set()  # attributes that may be missing (AttributeError on read)
        for k, t in fields.items():
            if isinstance(t, tuple) and t[0] == "optional":
                self.optional.add(k)
                t = t[1]
            self.fields[k] = t

    def key(self):
        return "obj:" + self.cls


class DRec(Ty):
    """Heap dict used as a record: fixed literal string keys (some optional).  Stored inside a
    Dict(k, DRec.rec()) it is boxed into the Rec value `rec()`; reads of such a slot in exec mode
    yield an ItemRef so that in-place updates go to the slot (ownership assumption: a record
    belongs to its table slot)."""

    kind = "drec"
    heap = True

    def __init__(self, name, /, optional=(), **fields):
        self.name = name
        self.fields = dict(fields)
        self.optional = tuple(optional)

    def key(self):
        return "drec:" + self.name

    def rec(self):
        f = {k: t for k, t in self.fields.items() if not t.heap}
        for o in self.optional:
            f["has_" + o] = Bool
        return Rec(self.name, **f)


class ItemRef(Ty):
    """reference to a record stored in a dict slot: z = (dict ref V, key z3 term)"""

    kind = "itemref"

    def __init__(self, drec):
        self.drec = drec

    def key(self):
        return "itemref:" + self.drec.name


class Nullable(Ty):
    """A reference that may be None: value is (flag: z3 Bool 'is None', ref V).  Resolved by a
    path fork the first time it is read."""

    kind = "nullable"

    def __init__(self, inner):
        self.inner = inner

    def key(self):
        return "nullable(%s)" % self.inner.key()


class Fn(Ty):
    """A python-level constant (function, class, module, sentinel) - not a z3 value."""

    kind = "const"

    def key(self):
        return "const"


Const = Fn()
