"""Conformance of the library models with CPython: every snippet below is executed (a) by CPython on concrete inputs and (b) by the
symbolic engine with its parameters constrained to those same inputs; the engine's result must be provably equal to CPython's
(an `ensures result == <CPython's value>` obligation), or raise the same exception class.  `./xv selftest` runs it; a model that
disagrees with CPython on one of these points makes the selftest exit 3.

This covers the models at sample points only - it is a regression net for the trusted base, not a proof of it."""
import os
import sys
import tempfile

from . import contract as C
from .ty import Int, Bool, Str, Bytes, Seq, List, Dict, Set, VSet, Tuple, Union, NoneT

# (name, params: {name: type}, body source, [input dicts])
S = Str
SNIPPETS = [
    ("len_str", dict(a=S), "return len(a)", [dict(a=""), dict(a="abc"), dict(a="é日")]),
    ("concat", dict(a=S, b=S), "return a + b", [dict(a="x", b=""), dict(a="ab", b="cd")]),
    ("startswith", dict(a=S, b=S), "return a.startswith(b)", [dict(a="abc", b="ab"), dict(a="abc", b="bc"), dict(a="", b="")]),
    ("endswith", dict(a=S, b=S), "return a.endswith(b)", [dict(a="abc", b="bc"), dict(a="abc", b="ab"), dict(a="x", b="")]),
    ("contains", dict(a=S, b=S), "return b in a", [dict(a="hello", b="ell"), dict(a="hello", b="z"), dict(a="", b="")]),
    ("find", dict(a=S, b=S), "return a.find(b)", [dict(a="hello", b="l"), dict(a="hello", b="z"), dict(a="abc", b="")]),
    ("slice_pos", dict(a=S, i=Int, j=Int), "return a[i:j]", [dict(a="hello", i=1, j=3), dict(a="hello", i=3, j=1), dict(a="hello", i=0, j=99), dict(a="hello", i=-2, j=5), dict(a="hello", i=1, j=-1)]),
    ("slice_to", dict(a=S, j=Int), "return a[:j]", [dict(a="hello", j=2), dict(a="hello", j=-2), dict(a="hello", j=0), dict(a="hello", j=-9)]),
    ("slice_from", dict(a=S, i=Int), "return a[i:]", [dict(a="hello", i=2), dict(a="hello", i=-2), dict(a="hello", i=9)]),
    ("index_str", dict(a=S, i=Int), "return a[i]", [dict(a="hello", i=0), dict(a="hello", i=-1), dict(a="hello", i=4), dict(a="hello", i=5), dict(a="hello", i=-6)]),
    ("partition", dict(a=S), "return a.partition('=')", [dict(a="k=v"), dict(a="k=v=w"), dict(a="kv"), dict(a="="), dict(a="")]),
    ("strip_chars", dict(a=S), "return a.rstrip('\\n')", [dict(a="x\n"), dict(a="x\n\n"), dict(a="x"), dict(a="\n")]),
    ("lower_upper", dict(a=S), "return (a.lower() == 'true', a.upper() == 'ON')", [dict(a="True"), dict(a="on"), dict(a="x")]),
    ("int_of_str", dict(a=S), "return int(a)", [dict(a="12"), dict(a="0"), dict(a="-7"), dict(a=""), dict(a="x"), dict(a="1.5")]),
    ("str_of_int", dict(i=Int), "return str(i)", [dict(i=0), dict(i=42), dict(i=-5)]),
    ("int_arith", dict(i=Int, j=Int), "return (i + j, i - j, i * 2, -i)", [dict(i=3, j=5), dict(i=-3, j=5)]),
    ("floordiv_mod", dict(i=Int, j=Int), "return (i // j, i % j)", [dict(i=7, j=2), dict(i=-7, j=2), dict(i=7, j=-2), dict(i=-7, j=-2), dict(i=0, j=3), dict(i=1, j=0)]),
    ("compare_chain", dict(i=Int, j=Int, k=Int), "return i < j <= k", [dict(i=1, j=2, k=2), dict(i=2, j=2, k=3), dict(i=1, j=3, k=2)]),
    ("bool_ops", dict(a=Bool, b=Bool), "return (a and b, a or b, not a)", [dict(a=True, b=False), dict(a=False, b=False)]),
    ("ifexp", dict(i=Int), "return 'neg' if i < 0 else ('zero' if i == 0 else 'pos')", [dict(i=-1), dict(i=0), dict(i=5)]),
    ("min_max", dict(i=Int, j=Int), "return (min(i, j), max(i, j), max(i - 1, 0))", [dict(i=3, j=5), dict(i=5, j=3), dict(i=0, j=0)]),
    ("list_len_index", dict(x=Seq(Int), i=Int), "return (len(x), x[i])", [dict(x=[1, 2, 3], i=0), dict(x=[1, 2, 3], i=-1), dict(x=[1, 2, 3], i=3), dict(x=[], i=0)]),
    ("list_slice", dict(x=Seq(Int), i=Int, j=Int), "return x[i:j]", [dict(x=[1, 2, 3, 4], i=1, j=3), dict(x=[1, 2, 3, 4], i=-3, j=-1), dict(x=[1, 2, 3, 4], i=2, j=99), dict(x=[1, 2, 3, 4], i=3, j=1)]),
    ("list_neg_slice", dict(x=Seq(Int), n=Int), "return x[:-n]", [dict(x=[1, 2, 3], n=1), dict(x=[1, 2, 3], n=0), dict(x=[1, 2, 3], n=5)]),
    ("list_concat", dict(x=Seq(Int), y=Seq(Int)), "return x + y", [dict(x=[1], y=[2, 3]), dict(x=[], y=[])]),
    ("list_in", dict(x=Seq(Int), i=Int), "return i in x", [dict(x=[1, 2], i=2), dict(x=[1, 2], i=3), dict(x=[], i=0)]),
    ("list_append_local", dict(x=Seq(Int), i=Int), "y = list(x)\n    y.append(i)\n    return y", [dict(x=[1], i=2), dict(x=[], i=0)]),
    ("list_pop", dict(x=Seq(Int)), "y = list(x)\n    z = y.pop()\n    return (z, y)", [dict(x=[1, 2, 3]), dict(x=[])]),
    ("list_pop0", dict(x=Seq(Int)), "y = list(x)\n    z = y.pop(0)\n    return (z, y)", [dict(x=[1, 2, 3]), dict(x=[])]),
    ("list_insert", dict(x=Seq(Int), i=Int), "y = list(x)\n    y.insert(0, i)\n    return y", [dict(x=[1, 2], i=9), dict(x=[], i=9)]),
    ("list_del_slice", dict(x=Seq(Int), n=Int), "y = list(x)\n    del y[n:]\n    return y", [dict(x=[1, 2, 3], n=1), dict(x=[1, 2, 3], n=5), dict(x=[1, 2, 3], n=0)]),
    ("list_setitem", dict(x=Seq(Int), i=Int), "y = list(x)\n    y[i] = 0\n    return y", [dict(x=[1, 2, 3], i=1), dict(x=[1, 2, 3], i=-1), dict(x=[1, 2, 3], i=3)]),
    ("list_extend", dict(x=Seq(Int), y=Seq(Int)), "z = list(x)\n    z.extend(y)\n    return z", [dict(x=[1], y=[2, 3]), dict(x=[], y=[])]),
    ("list_index_of", dict(x=Seq(Int), i=Int), "return list(x).index(i)", [dict(x=[5, 6, 5], i=5), dict(x=[5, 6], i=6), dict(x=[5, 6], i=7)]),
    ("for_sum", dict(x=Seq(Int)), "t = 0\n    for v in x:\n        t += v\n    return t", [dict(x=[1, 2, 3]), dict(x=[])]),
    ("for_break", dict(x=Seq(Int)), "i = 0\n    for v in x:\n        if v < 0:\n            break\n        i += 1\n    return i", [dict(x=[1, 2, -1, 4]), dict(x=[1, 2]), dict(x=[])]),
    ("enumerate_zip", dict(x=Seq(Int), y=Seq(Int)), "t = 0\n    for i, (a, b) in enumerate(zip(x, y)):\n        t += i * (a - b)\n    return t", [dict(x=[1, 2, 3], y=[3, 2, 1]), dict(x=[1], y=[])]),
    ("reversed_loop", dict(x=Seq(Int)), "y = []\n    for v in reversed(x):\n        y.append(v)\n    return y", [dict(x=[1, 2, 3]), dict(x=[])]),
    ("range_loop", dict(n=Int), "t = 0\n    for i in range(n):\n        t += i\n    return t", [dict(n=0), dict(n=3), dict(n=-2)]),
    ("while_loop", dict(n=Int), "i = 0\n    while i * i < n:\n        i += 1\n    return i", [dict(n=0), dict(n=3)]),
    ("dict_get", dict(k=S, __locals__={"d": Dict(Str, Int, ordered=True), "out": List(Str)}), "d = {'a': 1, 'b': 2}\n    return (d.get(k), d.get(k, 0), k in d)", [dict(k="a"), dict(k="z")]),
    ("dict_setdel", dict(k=S, __locals__={"d": Dict(Str, Int, ordered=True), "out": List(Str)}), "d = {'a': 1}\n    d[k] = 5\n    n = len(d)\n    del d['a']\n    return (n, len(d), k in d)", [dict(k="a"), dict(k="b")]),
    ("dict_pop", dict(k=S, __locals__={"d": Dict(Str, Int, ordered=True), "out": List(Str)}), "d = {'a': 1}\n    return (d.pop(k, None), len(d))", [dict(k="a"), dict(k="b")]),
    ("dict_copy", dict(k=S, __locals__={"d": Dict(Str, Int, ordered=True), "e": Dict(Str, Int, ordered=True)}), "d = {'a': 1}\n    e = d.copy()\n    e[k] = 5\n    return (d.get(k, 0), e.get(k, 0), len(d), len(e))", [dict(k="a"), dict(k="b")]),
    ("dict_keyerror", dict(k=S, __locals__={"d": Dict(Str, Int, ordered=True), "out": List(Str)}), "d = {'a': 1}\n    return d[k]", [dict(k="a"), dict(k="b")]),
    ("dict_iter_order", dict(k=S, __locals__={"d": Dict(Str, Int, ordered=True), "out": List(Str)}), "d = {'a': 1, 'b': 2}\n    d[k] = 3\n    out = []\n    for kk in d:\n        out.append(kk)\n    return out", [dict(k="c"), dict(k="a")]),
    ("set_ops", dict(i=Int, __locals__={"s": Set(Int)}), "s = {1, 2}\n    s.add(i)\n    n = len(s)\n    s.discard(1)\n    return (n, i in s, 1 in s)", [dict(i=3), dict(i=1)]),
    ("set_remove", dict(i=Int, __locals__={"s": Set(Int)}), "s = {1, 2}\n    s.remove(i)\n    return 2 in s", [dict(i=1), dict(i=2), dict(i=3)]),
    ("set_union", dict(i=Int, __locals__={"s": Set(Int)}), "s = {1} | {i}\n    return (len(s), i in s)", [dict(i=1), dict(i=2)]),
    ("tuple_unpack", dict(i=Int, j=Int), "a, b = (j, i)\n    return (a, b)", [dict(i=1, j=2)]),
    ("star_unpack", dict(x=Seq(Int)), "a, *b = x\n    return (a, b)", [dict(x=[1, 2, 3]), dict(x=[1]), dict(x=[])]),
    ("try_except", dict(a=S), "try:\n        return int(a)\n    except ValueError:\n        return -1", [dict(a="5"), dict(a="x")]),
    ("try_finally", dict(x=Seq(Int)), "y = []\n    try:\n        y.append(x[0])\n    except IndexError:\n        y.append(-1)\n    finally:\n        y.append(99)\n    return y", [dict(x=[7]), dict(x=[])]),
    ("is_none", dict(i=Int), "v = None if i == 0 else i\n    return (v is None, v is not None)", [dict(i=0), dict(i=1)]),
    ("bytes_ops", dict(a=Bytes, b=Bytes), "return (len(a), a + b, a.endswith(b))", [dict(a=b"ab", b=b"b"), dict(a=b"", b=b"")]),
    ("augassign_str", dict(a=S), "s = ''\n    for ch in a:\n        s += ch + '.'\n    return s", [dict(a="ab"), dict(a="")]),
    ("any_all", dict(x=Seq(Int)), "return (any(v > 1 for v in x), all(v > 0 for v in x))", [dict(x=[1, 2]), dict(x=[0]), dict(x=[])]),
    ("listcomp", dict(x=Seq(Int)), "return [v * 2 for v in x]", [dict(x=[1, 2, 3]), dict(x=[])]),
    ("str_join_split", dict(a=S), "return ':'.join(['a', a, 'b'])", [dict(a="x"), dict(a="")]),
    ("nested_fn", dict(i=Int), "def g(k):\n        return k + 1\n    return g(g(i))", [dict(i=1)]),
    ("walrus", dict(x=Seq(Int)), "if (n := len(x)) > 1:\n        return n\n    return -n", [dict(x=[1, 2]), dict(x=[1])]),
    ("deque_rotate", dict(x=Seq(Int), n=Int), "y = list(x)\n    d = deque(y)\n    d.rotate(n)\n    return list(d)",
     [dict(x=[1, 2, 3], n=1), dict(x=[1, 2, 3], n=-1), dict(x=[1, 2, 3], n=0), dict(x=[1, 2, 3], n=2), dict(x=[1, 2, 3], n=4), dict(x=[], n=1)]),
    ("deque_ends", dict(x=Seq(Int), i=Int), "y = list(x)\n    d = deque(y)\n    d.appendleft(i)\n    a = d.pop()\n    b = d.popleft()\n    return (a, b, list(d))", [dict(x=[1, 2, 3], i=9), dict(x=[5], i=9)]),
    ("deque_remove", dict(x=Seq(Int), i=Int), "y = list(x)\n    d = deque(y)\n    d.remove(i)\n    return list(d)", [dict(x=[1, 2, 1], i=1), dict(x=[1, 2], i=2), dict(x=[1, 2], i=3)]),
    ("dict_items_loop", dict(k=S, __locals__={"d": Dict(Str, Int, ordered=True)}), "d = {'a': 1, 'b': 2}\n    d[k] = 7\n    t = 0\n    for kk, vv in d.items():\n        t = t * 10 + vv\n    return t", [dict(k="a"), dict(k="c")]),
    ("dict_update_clear", dict(k=S, __locals__={"d": Dict(Str, Int, ordered=True), "e": Dict(Str, Int, ordered=True)}),
     "d = {'a': 1}\n    e = {'b': 2}\n    e[k] = 3\n    d.update(e)\n    n = len(d)\n    v = d.get('a')\n    d.clear()\n    return (n, v, len(d))", [dict(k="a"), dict(k="z")]),
    ("list_clear_copy", dict(x=Seq(Int)), "y = list(x)\n    z = y.copy()\n    y.clear()\n    return (len(y), z)", [dict(x=[1, 2]), dict(x=[])]),
    ("str_split_join_roundtrip", dict(a=S), "return ':'.join(a.split(':')) == a", [dict(a="a:b"), dict(a=""), dict(a="::")]),
    ("product_singleton", dict(x=Seq(Int)), "out = []\n    for a, b in itertools.product(x, [7]):\n        out.append(a + b)\n    return out", [dict(x=[1, 2]), dict(x=[])]),
    ("truthiness", dict(a=S, x=Seq(Int), i=Int), "return (bool(a), not x, bool(i))", [dict(a="", x=[], i=0), dict(a="x", x=[1], i=2)]),
]


def _lit(v):
    return repr(v)


# frame guard: (name, params, body, modifies, loops, must_hold) - `modifies` is a CHECKED frame: a body that writes outside it must fail a frame obligation
from .ty import Obj  # noqa: E402
_BOX = Obj("Box", n=Int, items=List(Int), tag=Str)
FRAME_CASES = [
    ("fr_append_outside", dict(x=List(Int)), "x.append(1)", [], {}, False),
    ("fr_append_inside", dict(x=List(Int)), "x.append(1)", ["x"], {}, True),
    ("fr_field_outside", dict(b=_BOX), "b.n = b.n + 1", [], {}, False),
    ("fr_field_inside", dict(b=_BOX), "b.n = b.n + 1", ["b.n"], {}, True),
    ("fr_other_field", dict(b=_BOX), "b.n = 0\n    b.tag = 'x'", ["b.n"], {}, False),
    ("fr_write_back_same", dict(b=_BOX), "t = b.n\n    b.n = 5\n    b.n = t", [], {}, True),
    ("fr_nested_outside", dict(b=_BOX), "b.items.append(2)", ["b.n"], {}, False),
    ("fr_nested_inside", dict(b=_BOX), "b.items.append(2)", ["b.items"], {}, True),
    ("fr_whole_object", dict(b=_BOX), "b.items.append(2)\n    b.n = 1", ["b"], {}, True),
    ("fr_on_raise", dict(b=_BOX), "b.n = 1\n    raise ValueError()", [], {}, False),
    ("fr_loop_precise", dict(b=_BOX, xs=Seq(Int)), "for v in xs:\n        b.items.append(v)", ["b.items"], {"for#1": dict(invariant={"t": "True"}, havoc_only=[], havoc_exprs=["b.items"])}, True),
]


def _typed_eq(name, v):
    if isinstance(v, list):
        return "len(%s) == %d" % (name, len(v)) + "".join(" and %s[%d] == %s" % (name, i, _lit(e)) for i, e in enumerate(v))
    return "%s == %s" % (name, _lit(v))


def run(verbose=False):
    from . import verify, solve

    d = tempfile.mkdtemp(prefix="xv-conf-", dir=os.environ.get("XV_SCRATCH"))
    os.makedirs(os.path.join(d, "conf"))
    src = []
    for name, params, body, _inputs in SNIPPETS:
        src.append("def %s(%s):\n    %s\n" % (name, ", ".join(p for p in params if p != "__locals__"), body))
    path = os.path.join(d, "conf", "snippets.py")
    open(path, "w").write("import itertools\nfrom collections import deque\n\n" + "\n\n".join(src))
    ns = {}
    exec(compile(open(path).read(), path, "exec"), ns)
    bad, n, imprecise, unsupported = [], 0, [], []
    from .core import Unsupported as Unsupported_
    try:
        for name, params, body, inputs in SNIPPETS:
            for inp in inputs:
                n += 1
                try:
                    want, exc = ns[name](**{k: (list(v) if isinstance(v, list) else v) for k, v in inp.items()}), None
                except Exception as e:  # noqa
                    want, exc = None, type(e).__name__
                req = {"in%d" % i: _typed_eq(k, v) for i, (k, v) in enumerate(inp.items())}
                kw = dict(params={k: v for k, v in params.items() if k != "__locals__"}, requires=req, unroll=6, locals=dict(params.get("__locals__", {})))
                if exc is None:
                    def conv(x):
                        if isinstance(x, tuple):
                            return "(" + ", ".join(conv(e) for e in x) + ("," if len(x) == 1 else "") + ")"
                        return _lit(x)
                    if isinstance(want, list):
                        kw["ensures"] = {"same-as-cpython": "len(result) == %d" % len(want) + "".join(" and result[%d] == %s" % (i, conv(e)) for i, e in enumerate(want))}
                    elif isinstance(want, tuple) and any(isinstance(e, list) for e in want):
                        parts = []
                        for i, e in enumerate(want):
                            if isinstance(e, list):
                                parts.append("len(result[%d]) == %d" % (i, len(e)) + "".join(" and result[%d][%d] == %s" % (i, j, conv(x)) for j, x in enumerate(e)))
                            else:
                                parts.append("result[%d] == %s" % (i, conv(e)))
                        kw["ensures"] = {"same-as-cpython": " and ".join(parts)}
                    else:
                        kw["ensures"] = {"same-as-cpython": "result == %s" % conv(want) if want is not None else "result is None"}
                else:
                    kw["raises"] = {exc: "True"}
                    kw["raises_iff"] = [exc]
                    kw["ensures"] = {"cpython-raises-here": "False"}
                c = C.Contract("conf/snippets.py::" + name, "SELFTEST", **kw)
                c.key = c.target
                try:
                    fv = verify.FnVerifier(c, d)
                    obs = fv.generate(budget_s=60)
                    if not obs:
                        if exc is None:
                            bad.append((name, inp, "no obligations generated"))
                        continue  # every path raises exactly the exception CPython raises
                    open_ = [ob for ob in obs if solve.solve_one(ob, timeout_ms=5000).verdict != "discharged"]
                    if not open_:
                        continue
                    if exc is not None:
                        # CPython raises; the engine also has a normally returning path.  Wrong only if the engine can NOT raise that exception at all
                        # (otherwise it is the documented may-return over-approximation, e.g. int() of unusual numerals)
                        c3 = C.Contract("conf/snippets.py::" + name, "SELFTEST", **dict(kw, raises={}, raises_iff=[], ensures={"t": "True"}))
                        c3.key = c3.target
                        obs3 = verify.FnVerifier(c3, d).generate(budget_s=60)
                        if any(ob.kind in ("raises", "no-exception") and exc in ob.name for ob in obs3):
                            imprecise.append((name, inp))
                        else:
                            bad.append((name, inp, "CPython raises %s, the model never does" % exc))
                        continue
                    if "ensures" not in kw or "same-as-cpython" not in kw["ensures"]:
                        bad.append((name, inp, "%s %s (CPython: %s)" % (open_[0].verdict, open_[0].name.split("/")[-1][:80], exc or repr(want))))
                        continue
                    # the engine cannot prove CPython's value: is it WRONG (claims another value) or only IMPRECISE (uninterpreted model)?
                    c2 = C.Contract("conf/snippets.py::" + name, "SELFTEST", **dict(kw, ensures={"differs-from-cpython": "not (%s)" % kw["ensures"]["same-as-cpython"]}))
                    c2.key = c2.target
                    obs2 = verify.FnVerifier(c2, d).generate(budget_s=60)
                    wrong = [ob for ob in obs2 if ob.kind == "ensures" and solve.solve_one(ob, timeout_ms=5000).verdict == "discharged"]
                    if wrong:
                        bad.append((name, inp, "the model PROVES a value different from CPython's %r" % (want,)))
                    else:
                        imprecise.append((name, inp))
                except Unsupported_ as e:
                    unsupported.append((name, str(e)[:80]))
                except Exception as e:  # noqa
                    bad.append((name, inp, "%s: %s" % (type(e).__name__, str(e)[:120])))
        # ---- frame guard
        fsrc = "\n\n".join("def %s(%s):\n    %s\n" % (nm, ", ".join(ps), body) for nm, ps, body, _m, _l, _h in FRAME_CASES)
        open(os.path.join(d, "conf", "frames.py"), "w").write(fsrc)
        for nm, ps, body, mods, loops, must_hold in FRAME_CASES:
            n += 1
            try:
                c = C.Contract("conf/frames.py::" + nm, "SELFTEST", params=ps, modifies=mods, loops=loops, raises={"ValueError": True}, ensures={"t": "True"})
                c.key = c.target
                obs = verify.FnVerifier(c, d).generate(budget_s=60)
                fr = [ob for ob in obs if ob.kind == "frame"]
                open_ = [ob for ob in fr if solve.solve_one(ob, timeout_ms=5000).verdict != "discharged"]
                if must_hold and open_:
                    bad.append((nm, mods, "frame obligation %s fails although the body stays inside `modifies`" % open_[0].name.split("/")[-1][:60]))
                if not must_hold and not any(ob.verdict == "refuted" for ob in fr):
                    bad.append((nm, mods, "the body writes outside `modifies` but no frame obligation is refuted"))
            except Exception as e:  # noqa
                bad.append((nm, mods, "%s: %s" % (type(e).__name__, str(e)[:120])))
    finally:
        import shutil

        shutil.rmtree(d, ignore_errors=True)
    print("selftest: %d snippet/input pairs over %d snippets: %d disagreements, %d imprecise (uninterpreted model: CPython's value neither proved nor contradicted), "
          "%d outside the subset" % (n, len(SNIPPETS), len(bad), len(imprecise), len(unsupported)))
    if imprecise:
        print("  imprecise: " + ", ".join(sorted({i[0] for i in imprecise})))
    if unsupported:
        print("  outside the subset: " + ", ".join(sorted({"%s (%s)" % u for u in unsupported})))
    for b in bad:
        print("  DISAGREE %s %r: %s" % b)
    return 0 if not bad else 3


if __name__ == "__main__":
    sys.exit(run())
