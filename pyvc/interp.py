"""pyvc interpreter: symbolic execution of python ``ast`` (one path per run, decisions from an
oracle) and pure evaluation of contract clauses with the same expression evaluator."""
import ast
import z3
from . import ty as T
from .core import *  # noqa
from .core import V, Exc, Cell, Event, Obligation, DottedName, BoundMethod, Closure, Sentinel

NUMERIC = ("int", "bool", "real")


def zsimp(e):
    try:
        return z3.simplify(e)
    except z3.Z3Exception:
        return e


def has_quant(e, _seen=None):
    """does the formula contain a quantifier (kept out of the feasibility solver: fewer
    assumptions there only means more paths are explored, which is sound)"""
    stack = [e]
    seen = set()
    while stack:
        x = stack.pop()
        i = x.get_id()
        if i in seen:
            continue
        seen.add(i)
        if z3.is_quantifier(x):
            return True
        if z3.is_app(x):
            stack.extend(x.children())
    return False


def _nonneg(t, d=0):
    """syntactic: the integer term is certainly >= 0"""
    if d > 6:
        return False
    if z3.is_int_value(t):
        return t.as_long() >= 0
    if z3.is_app(t):
        k = t.decl().kind()
        if k == z3.Z3_OP_SEQ_LENGTH:
            return True
        if k == z3.Z3_OP_ADD:
            return all(_nonneg(c, d + 1) for c in t.children())
        if k == z3.Z3_OP_ITE:
            return _nonneg(t.arg(1), d + 1) and _nonneg(t.arg(2), d + 1)
        if k == z3.Z3_OP_MUL and t.num_args() == 2:
            return all(_nonneg(c, d + 1) for c in t.children())
    return False


def cheap_truth(c):
    """True / False when the comparison is decided by sign information alone, else None"""
    if z3.is_true(c):
        return True
    if z3.is_false(c):
        return False
    if not z3.is_app(c):
        return None
    k = c.decl().kind()
    if k == z3.Z3_OP_NOT:
        r = cheap_truth(c.arg(0))
        return None if r is None else (not r)
    if k in (z3.Z3_OP_LE, z3.Z3_OP_LT, z3.Z3_OP_GE, z3.Z3_OP_GT) and c.num_args() == 2:
        a, b = c.arg(0), c.arg(1)
        if k in (z3.Z3_OP_GE, z3.Z3_OP_GT):
            a, b = b, a
            k = z3.Z3_OP_LE if k == z3.Z3_OP_GE else z3.Z3_OP_LT
        # now: a <= b  /  a < b
        if z3.is_int_value(b) and _nonneg(a):
            if b.as_long() < 0:
                return False          # nonneg <= negative
            if k == z3.Z3_OP_LT and b.as_long() == 0:
                return False          # nonneg < 0
        if z3.is_int_value(a) and _nonneg(b):
            if a.as_long() <= 0 and k == z3.Z3_OP_LE:
                return True           # nonpositive <= nonneg
            if a.as_long() < 0:
                return True           # negative < nonneg
    return None


def seq_eq_consequences(b):
    """element-wise consequences of `a == b[off:off+ln]` facts (theorems of the sequence theory,
    stated explicitly because E-matching uses them far better than the seq solver does)"""
    out = []
    stack = [b]
    n = 0
    while stack and n < 50:
        n += 1
        x = stack.pop()
        if not z3.is_app(x):
            continue
        k = x.decl().kind()
        if k == z3.Z3_OP_AND:
            stack.extend(x.children())
        elif k == z3.Z3_OP_EQ and x.arg(0).sort().kind() == z3.Z3_SEQ_SORT and not x.arg(0).sort().is_string():
            for a, e in ((x.arg(0), x.arg(1)), (x.arg(1), x.arg(0))):
                if z3.is_app(e) and e.decl().kind() == z3.Z3_OP_SEQ_EXTRACT:
                    q = z3.Int("sk!%d" % (x.get_id() % 100000))
                    out.append(z3.ForAll([q], z3.Implies(z3.And(q >= 0, q < z3.Length(a)), a[q] == e.arg(0)[e.arg(1) + q]),
                                         patterns=[a[q]]))
                    break
    return out


def nth(s, j):
    """element j of sequence term s (0 <= j < len assumed), peeling slices syntactically so that
    reads from `base[a:b]` become reads from `base`"""
    s = zsimp(s)
    for _ in range(8):
        if z3.is_app(s) and s.decl().kind() == z3.Z3_OP_SEQ_EXTRACT:
            j = s.arg(1) + j
            s = s.arg(0)
        else:
            break
    if z3.is_app(s) and s.decl().kind() == z3.Z3_OP_SEQ_CONCAT:
        ch = s.children()
        # trailing / leading unit elements:  (p ++ [x])[j] == x if j == len(p) else p[j]
        if len(ch) >= 2 and z3.is_app(ch[-1]) and ch[-1].decl().kind() == z3.Z3_OP_SEQ_UNIT:
            p = ch[0] if len(ch) == 2 else z3.Concat(*ch[:-1])
            return z3.If(j == z3.Length(p), ch[-1].arg(0), nth(p, j))
        if len(ch) >= 2 and z3.is_app(ch[0]) and ch[0].decl().kind() == z3.Z3_OP_SEQ_UNIT:
            r = ch[1] if len(ch) == 2 else z3.Concat(*ch[1:])
            return z3.If(j == 0, ch[0].arg(0), nth(r, j - 1))
    return s[zsimp(j)]


def is_true(e):
    return z3.is_true(zsimp(e))


def is_false(e):
    return z3.is_false(zsimp(e))


def _mentions(t, consts):
    """does the term mention one of the given constants (bound variables of an enclosing quantifier)?"""
    ids = {c.get_id() for c in consts}
    seen, stack = set(), [t]
    while stack:
        x = stack.pop()
        i = x.get_id()
        if i in seen:
            continue
        seen.add(i)
        if i in ids:
            return True
        if z3.is_app(x):
            stack.extend(x.children())
    return False


class Frame:
    def __init__(self, env=None, parent=None, fn=None):
        self.env = env if env is not None else {}
        self.parent = parent
        self.fn = fn
        self.globals = set()
        self.nonlocals = set()
        self.yielded = None

    def lookup(self, name):
        f = self
        while f is not None:
            if name in f.env:
                return f.env[name]
            f = f.parent
        return None

    def owner(self, name):
        f = self
        while f is not None:
            if name in f.env:
                return f
            f = f.parent
        return None


class Iter:
    """Finite iteration: length term ``n`` and element function ``at(k: z3 Int) -> V``."""

    def __init__(self, n, at, concrete=None, src_locs=(), seq=None):
        self.n = n
        self.at = at
        self.concrete = concrete  # python int length when known
        self.src_locs = tuple(src_locs)
        self.seq = seq  # the iterated sequence as a value (visible to invariants as _seq)


class Run:
    """One path of one function under contract."""

    def __init__(self, ctx, oracle):
        self.ctx = ctx
        self.oracle = oracle
        self.heap = {}
        self.pc = []
        self.solver = z3.Solver()
        self.solver.set("timeout", ctx.feas_timeout_ms)
        for a in ctx.axioms:
            if not has_quant(a):
                self.solver.add(a)
        self.trace = []
        self.labels = []
        self.epoch = 0
        self.nextloc = 0
        self.ghost = {}
        self.pure = False
        self.old_heap = None
        self.spec_env = None
        self.bounded = None  # set to a reason string if this path went through a bounded unrolling
        self.loop_frames = []  # stack of (born_epoch, allowed_locs) for loop frame checking
        self.inline_depth = 0
        self.cur_frame = None
        self.callstack = []

    # ------------------------------------------------------------------ path condition
    def assume(self, b):
        if not has_quant(b):
            b = zsimp(b)
        if z3.is_true(b):
            return
        bound = getattr(self, "bound_vars", None)
        if bound and self.pure and _mentions(b, bound):
            # a library model wants to record a side fact while a quantifier body is being built: the fact would be asserted about ONE
            # anonymous instance of the bound variable, and any fresh constant it defines would be shared by all instances
            raise EngineError("side fact about a quantified variable inside a quantifier body (model not usable under forall/exists): %s" % str(b)[:120])
        self.pc.append(b)
        if not has_quant(b):
            self.solver.add(b)
            for extra in seq_eq_consequences(b):
                self.pc.append(extra)
        if z3.is_false(b):
            raise PathEnd()

    def feasible(self, cond):
        c = zsimp(cond)
        if z3.is_true(c):
            return True
        if z3.is_false(c):
            return False
        # a FRESH solver per query: z3's incremental mode (check with assumptions on a long-lived
        # solver) was observed to answer `unsat` on satisfiable sequence/string constraints.
        # Results are cached across the re-executions of path prefixes (hash-consed AST ids).
        cache = self.ctx.__dict__.setdefault("feas_cache", {})
        key = (self._pc_key(), c.get_id())
        hit = cache.get(key)
        if hit is not None:
            return hit[0]
        try:
            s = z3.Solver()
            s.set("timeout", self.ctx.feas_timeout_ms)
            s.add(self.solver.assertions())
            s.add(c)
            from .solve import guarded_check
            r = guarded_check(s, self.ctx.feas_timeout_ms)
        except z3.Z3Exception:
            return True  # could not decide: keep the path (sound)
        self.ctx.stats["feas_checks"] += 1
        res = r != z3.unsat
        cache[key] = (res, c, list(self.solver.assertions()))  # keep the ASTs alive so ids stay unique
        return res

    def context_feasible(self):
        """is the current path condition (with any temporarily pushed spec antecedents) satisfiable?  unknown counts as feasible"""
        try:
            s = z3.Solver()
            s.set("timeout", self.ctx.feas_timeout_ms)
            s.add(self.solver.assertions())
            from .solve import guarded_check
            return guarded_check(s, self.ctx.feas_timeout_ms) != z3.unsat
        except z3.Z3Exception:
            return True

    def _pc_key(self):
        n = len(self.solver.assertions())
        k = getattr(self, "_pck", None)
        if k is None or k[0] != n:
            k = (n, hash(tuple(a.get_id() for a in self.solver.assertions())))
            self._pck = k
        return k

    def resolve(self, e, depth=0):
        """contextual simplification: drop if-then-else branches that the path condition excludes"""
        e = zsimp(e)
        if depth > 6 or not (z3.is_app(e) and e.decl().kind() == z3.Z3_OP_ITE):
            return e
        c, a, b = e.arg(0), e.arg(1), e.arg(2)
        cc = cheap_truth(c)
        if cc is True:
            return self.resolve(a, depth + 1)
        if cc is False:
            return self.resolve(b, depth + 1)
        if self.pure:
            # clauses are evaluated many times: only the syntactic (interval) simplification here
            return z3.If(c, self.resolve(a, depth + 1), self.resolve(b, depth + 1))
        if not self.feasible(z3.Not(c)):
            return self.resolve(a, depth + 1)
        if not self.feasible(c):
            return self.resolve(b, depth + 1)
        return z3.If(c, self.resolve(a, depth + 1), self.resolve(b, depth + 1))

    def decide(self, cond, label):
        """Fork on a z3 Bool; returns python bool and adds the assumption."""
        c = zsimp(cond)
        if z3.is_true(c):
            return True
        if z3.is_false(c):
            return False
        if self.oracle.peek() is not None:
            ch = self.oracle.choose([True, False], label)
        else:
            opts = []
            if self.feasible(c):
                opts.append(True)
            if self.feasible(z3.Not(c)):
                opts.append(False)
            if not opts:
                raise PathEnd()
            ch = self.oracle.choose(opts, label)
        self.labels.append("%s:%s" % (label, "T" if ch else "F"))
        self.assume(c if ch else z3.Not(c))
        return ch

    def choose(self, options, label):
        ch = self.oracle.choose(list(options), label)
        self.labels.append("%s:%s" % (label, ch))
        return ch

    def fail_if(self, cond, exc_cls, label, args=()):
        """Implicit python failure: fork into the raising path when ``cond`` is satisfiable."""
        if self.pure:
            return
        c = zsimp(cond)
        if z3.is_false(c):
            return
        if self.decide(c, "%s?%s" % (label, exc_cls)):
            raise PyRaise(Exc(exc_cls, args, tag=label))

    # ------------------------------------------------------------------ heap
    def alloc(self, ty, content):
        self.nextloc += 1
        self.epoch += 1
        loc = self.nextloc
        self.heap[loc] = Cell(ty, content, self.epoch)
        return V(ty, loc)

    def cell(self, v):
        return self.heap[v.z]

    def cell_ghost(self, loc):
        h = self.old_heap if self.old_heap is not None and loc in self.old_heap else self.heap
        return h[loc].ghost

    def snapshot(self):
        return {k: c.copy() for k, c in self.heap.items()}

    def write_check(self, loc):
        for born_epoch, allowed in self.loop_frames:
            if self.heap[loc].born <= born_epoch and loc not in allowed:
                raise EngineError(
                    "loop frame: body writes heap location %d (%s) that was not havoced; "
                    "list its variable under loops[...]['havoc']" % (loc, self.heap[loc].ty)
                )

    def set_content(self, ref, content):
        if self.pure:
            raise EngineError("heap write in pure (spec) mode")
        self.write_check(ref.z)
        self.heap[ref.z].content = content

    def content(self, ref, heap=None):
        h = self.heap if heap is None else heap
        return h[ref.z].content

    def new_list(self, elem, items=(), py="list", counted=False):
        lt = T.List(elem, counted=counted, py=py)
        s = z3.Empty(lt.content().sort())
        for it in items:
            s = z3.Concat(s, z3.Unit(self.coerce(it, elem).z))
        return self.alloc(lt, V(lt.content(), zsimp(s) if items else s))

    def list_from_seq(self, seqv, py="list"):
        lt = T.List(seqv.t.elem, py=py)
        return self.alloc(lt, V(lt.content(), seqv.z))

    # ------------------------------------------------------------------ coercions
    def coerce(self, v, ty):
        if v.t == ty:
            return v
        if ty.kind == "union":
            if v.t.kind == "union":
                # re-inject member-wise
                res = None
                missing = [m for m in v.t.members if ty.index(m) is None]
                if len(missing) == len(v.t.members):
                    raise EngineError("cannot coerce %s to %s" % (v.t, ty))
                if missing:
                    # members the target cannot hold: a TypeError path (usually infeasible here)
                    self.fail_if(z3.Or([v.t.is_(v.z, m) for m in missing]), "TypeError", "coerce")
                for m in reversed(v.t.members):
                    if ty.index(m) is None:
                        continue
                    inj = ty.inject(m, v.t.proj(v.z, m))
                    res = inj if res is None else z3.If(v.t.is_(v.z, m), inj, res)
                return V(ty, res)
            if ty.index(v.t) is not None:
                return V(ty, ty.inject(v.t, v.z))
            for m in ty.members:
                try:
                    if m.kind != "none" and v.t.kind != "none":
                        return V(ty, ty.inject(m, self.coerce(v, m).z))
                except EngineError:
                    continue
            raise EngineError("cannot coerce %s to %s" % (v.t, ty))
        if v.t.kind == "union" and v.t.index(ty) is not None:
            self.fail_if(z3.Not(v.t.is_(v.z, ty)), "TypeError", "coerce")
            return V(ty, v.t.proj(v.z, ty)) if ty.kind != "none" else mk_none()
        if ty.kind == "real" and v.t.kind in ("int", "bool"):
            return V(T.Real, z3.ToReal(self.to_int(v)))
        if ty.kind == "int" and v.t.kind == "bool":
            return V(T.Int, z3.If(v.z, 1, 0))
        if ty.kind == "seq" and v.t.kind == "seq" and v.t.elem == ty.elem:
            return V(ty, v.z)
        if ty.kind == "seq" and v.t.kind in ("seq", "list") and self.can_inject(self.as_seq(v).t.elem, ty.elem):
            return self.coerce_seq(self.as_seq(v), ty)
        if ty.kind == "seq" and v.t.kind == "list" and v.t.elem == ty.elem:
            return V(ty, self.content(v).z)
        if ty.kind == "tuple" and v.t.kind == "tuple" and len(ty.items) == len(v.t.items):
            parts = [self.coerce(V(t0, v.t.get(v.z, i)), t1).z for i, (t0, t1) in enumerate(zip(v.t.items, ty.items))]
            return V(ty, ty.mk(*parts))
        if ty.kind == "seq" and v.t.kind == "tuple":
            s = z3.Empty(ty.sort())
            for i, t0 in enumerate(v.t.items):
                s = z3.Concat(s, z3.Unit(self.coerce(V(t0, v.t.get(v.z, i)), ty.elem).z))
            return V(ty, s)
        if ty.heap and v.t.heap and ty.kind == v.t.kind:
            return v
        if ty.kind == "vset" and v.t.kind == "set":
            return self.content(v)
        if ty.kind == "vmap" and v.t.kind == "dict":
            return self.content(v)
        if ty.kind == "opaque" and ty.name in self.ctx.c.config.get("opaque_absorbs", ()) and not v.is_const and not v.t.heap:
            # an opaque type declared to stand for "any python value": other data values enter it through an uninterpreted injection
            return self.ctx.uf_apply(self, "as_%s_from_%s" % (ty.name, v.t.kind), [v], ty)
        raise EngineError("cannot coerce %s to %s" % (v.t, ty))

    def can_inject(self, a, b):
        if a == b:
            return True
        if b.kind == "union":
            if a.kind == "union":
                return all(b.index(m) is not None for m in a.members)
            return b.index(a) is not None
        return b.kind == "real" and a.kind in ("int", "bool")

    def coerce_seq(self, s, ty):
        """element-wise injection of a sequence into a wider element type"""
        z = zsimp(s.z)

        def conv(x):
            return self.coerce(V(s.t.elem, x), ty.elem).z

        def rec(t):
            if z3.is_app(t):
                k = t.decl().kind()
                if k == z3.Z3_OP_SEQ_EMPTY:
                    return z3.Empty(ty.sort())
                if k == z3.Z3_OP_SEQ_UNIT:
                    return z3.Unit(conv(t.arg(0)))
                if k == z3.Z3_OP_SEQ_CONCAT:
                    return z3.Concat(*[rec(c) for c in t.children()])
            bound = getattr(self, "bound_vars", None)
            if (bound and _mentions(t, bound)) or self.ctx.c.config.get("injseq_fn"):
                # inside a quantifier body the injected sequence depends on the bound variables: a fresh CONSTANT would be shared by all
                # instances (found 2026-09-26: it turned `forall k: .. + xs[k]` into a statement about one fixed sequence).  Use one
                # uninterpreted function per (from, to) type pair, defined for ALL sequences by two quantified facts.
                fkey = ("coerce_seq_fn", s.t.key(), ty.key())
                cache = self.ctx.uf_cache
                if fkey not in cache:
                    cache[fkey] = z3.Function("injseq_%d" % len(cache), s.t.sort(), ty.sort())
                f = cache[fkey]
                if fkey not in self.__dict__.setdefault("_injseq_axioms", set()):
                    self._injseq_axioms.add(fkey)
                    sv = z3.Const(fresh_name("sq"), s.t.sort())
                    kk = z3.Int(fresh_name("k"))
                    ax1 = z3.ForAll([sv], z3.Length(f(sv)) == z3.Length(sv), patterns=[f(sv)])
                    ax2 = z3.ForAll([sv, kk], z3.Implies(z3.And(0 <= kk, kk < z3.Length(sv)), f(sv)[kk] == conv(sv[kk])), patterns=[f(sv)[kk]])
                    self.pc.append(ax1)
                    self.pc.append(ax2)
                return f(t)
            key = ("coerce_seq", t.get_id(), ty.key())
            cache = self.ctx.uf_cache
            if key not in cache:
                res = z3.Const(fresh_name("inj"), ty.sort())
                kk = z3.Int(fresh_name("k"))
                self.pc.append(z3.Length(res) == z3.Length(t))
                self.solver.add(z3.Length(res) == z3.Length(t))
                self.pc.append(z3.ForAll([kk], z3.Implies(z3.And(0 <= kk, kk < z3.Length(t)), res[kk] == conv(t[kk])), patterns=[res[kk]]))
                cache[key] = res
            return cache[key]

        return V(ty, rec(z))

    def to_int(self, v):
        if v.t.kind == "int":
            return v.z
        if v.t.kind == "bool":
            return z3.If(v.z, z3.IntVal(1), z3.IntVal(0))
        raise EngineError("to_int on %s" % v.t)

    def to_num(self, v, real):
        if v.t.kind == "real":
            return v.z
        z = self.to_int(v)
        return z3.ToReal(z) if real else z

    def project(self, v, want, label, exc="TypeError"):
        """Narrow a union value to a member whose type satisfies ``want``."""
        if v.t.kind != "union" and want(v.t):
            return v
        if v.t.kind != "union":
            if self.pure:
                raise EngineError("spec type error: %s at %s" % (v.t, label))
            raise PyRaise(Exc(exc, tag=label))
        cands = [m for m in v.t.members if want(m)]
        if not cands:
            if self.pure:
                raise EngineError("spec type error: %s at %s" % (v.t, label))
            raise PyRaise(Exc(exc, tag=label))
        if self.pure:
            if len(cands) > 1:
                feas = [m for m in cands if self.feasible(v.t.is_(v.z, m))]
                if len(feas) == 1:
                    cands = feas
                else:
                    raise EngineError("ambiguous projection of %s in spec at %s" % (v.t, label))
            return V(cands[0], v.t.proj(v.z, cands[0]))
        ok = z3.Or([v.t.is_(v.z, m) for m in cands])
        self.fail_if(z3.Not(ok), exc, label)
        if len(cands) == 1:
            return V(cands[0], v.t.proj(v.z, cands[0]))
        feas = [i for i, m in enumerate(cands) if self.feasible(v.t.is_(v.z, m))]
        if not feas:
            raise PathEnd()
        i = self.choose(feas, label + "/tag") if len(feas) > 1 else feas[0]
        self.assume(v.t.is_(v.z, cands[i]))
        return V(cands[i], v.t.proj(v.z, cands[i]))

    # ------------------------------------------------------------------ truthiness / equality
    def truthy(self, v):
        k = v.t.kind
        if k == "bool":
            return v.z
        if k == "int":
            return v.z != 0
        if k == "real":
            return v.z != 0
        if k in ("str", "seq", "bytes"):
            return z3.Length(v.z) > 0
        if k == "none":
            return z3.BoolVal(False)
        if k == "tuple":
            return z3.BoolVal(len(v.t.items) > 0)
        if k == "union":
            return z3.Or([z3.And(v.t.is_(v.z, m), self.truthy(V(m, v.t.proj(v.z, m)))) for m in v.t.members])
        if k == "list":
            return z3.Length(self.content(v).z) > 0
        if k == "dict":
            c = self.heap[v.z]
            if "size" in (self.cell_ghost(v.z) or {}):
                return self.cell_ghost(v.z)["size"] > 0
            raise Unsupported("truthiness of dict")
        if k == "vmap":
            x = z3.Const(fresh_name("x"), v.t.k.sort())
            return z3.Exists([x], z3.Select(v.t.has(v.z), x))
        if k == "vset" or k == "set":
            sv = self.content(v) if k == "set" else v
            x = z3.Const(fresh_name("x"), sv.t.elem.sort())
            return z3.Exists([x], z3.Select(sv.z, x))
        if k == "obj":
            return z3.BoolVal(True)
        if k == "opaque":
            if v.t.name in self.ctx.c.config.get("opaque_truthiness", ()):
                # a python object whose truth value is its own business (enum members such as signal.SIG_DFL == 0, ints behind an opaque type ...):
                # `if x:` is NOT `if x is not None:` for it - an uninterpreted predicate decides
                return self.ctx.uf_apply(self, "truthy_" + v.t.name, [v], T.Bool).z
            return z3.BoolVal(True)
        if k == "rec":
            return z3.BoolVal(True)
        if k == "const":
            if isinstance(v.z, (bool, int, str, tuple, list)):
                return z3.BoolVal(bool(v.z))
            return z3.BoolVal(True)
        raise Unsupported("truthiness of %s" % v.t)

    def as_seq(self, v, heap=None):
        """View lists / seqs / tuples-as-seq as a Seq data value."""
        if v.t.kind in ("seq", "str", "bytes"):
            return v
        if v.t.kind == "list":
            return self.content(v, heap)
        raise EngineError("not a sequence: %s" % v.t)

    def _is_pending(self, v, heap=None):
        if v.t.kind != "list":
            return False
        h = self.heap if heap is None or v.z not in heap else heap
        return h[v.z].content is None

    def eq(self, a, b, heap=None):
        ka, kb = a.t.kind, b.t.kind
        # an untyped empty list ([] never appended to) equals exactly the empty sequences
        pa, pb = self._is_pending(a, heap), self._is_pending(b, heap)
        if pa or pb:
            o = b if pa else a
            if pa and pb:
                return z3.BoolVal(True)
            if o.t.kind in ("list", "seq"):
                return self.seq_len(o, heap) == 0
            return z3.BoolVal(False)
        if (ka, kb) in (("dict", "vmap"), ("set", "vset")):
            return self.content(a, heap).z == b.z
        if (kb, ka) in (("dict", "vmap"), ("set", "vset")):
            return a.z == self.content(b, heap).z
        if ka in ("drec", "itemref") or kb in ("drec", "itemref"):
            from . import records

            if kb == "none" or ka == "none":
                return z3.BoolVal(False)
            return records.as_rec(self, a, heap).z == records.as_rec(self, b, heap).z
        if ka == "const" or kb == "const":
            if ka == kb:
                x, y = a.z, b.z
                if isinstance(x, DottedName) and isinstance(y, DottedName):
                    return z3.BoolVal(x.name == y.name)
                try:
                    return z3.BoolVal(bool(x == y))
                except Exception:
                    return z3.BoolVal(x is y)
            return z3.BoolVal(False)
        if ka == "union":
            return z3.Or([z3.And(a.t.is_(a.z, m), self.eq(V(m, a.t.proj(a.z, m)), b, heap)) for m in a.t.members])
        if kb == "union":
            return self.eq(b, a, heap)
        if ka in NUMERIC and kb in NUMERIC:
            real = "real" in (ka, kb)
            if ka == "bool" and kb == "bool":
                return a.z == b.z
            return self.to_num(a, real) == self.to_num(b, real)
        if ka == "none" or kb == "none":
            return z3.BoolVal(ka == kb)
        if a.t.heap and b.t.heap:
            if a.z == b.z:
                return z3.BoolVal(True)
            if ka == "list" and kb == "list":
                if a.t.py != b.t.py and not self.pure:
                    return z3.BoolVal(False)
                return self.eq(self.content(a, heap), self.content(b, heap), heap)
            if ka in ("dict", "set") and ka == kb:
                return self.content(a, heap).z == self.content(b, heap).z
            return z3.BoolVal(False)
        if (ka == "list" and kb == "seq") or (ka == "seq" and kb == "list"):
            if not self.pure:
                la = a.t.py
                lb = b.t.py
                if la != lb:
                    return z3.BoolVal(False)
            return self.eq(self.as_seq(a, heap), self.as_seq(b, heap), heap)
        if ka == "tuple" and kb == "tuple":
            if len(a.t.items) != len(b.t.items):
                return z3.BoolVal(False)
            return z3.And(
                [
                    self.eq(V(ta, a.t.get(a.z, i)), V(tb, b.t.get(b.z, i)), heap)
                    for i, (ta, tb) in enumerate(zip(a.t.items, b.t.items))
                ]
                or [z3.BoolVal(True)]
            )
        if ka == "seq" and kb == "seq":
            if a.t.elem == b.t.elem:
                return a.z == b.z
            if not self.pure and a.t.py != b.t.py:
                return z3.BoolVal(False)
            if self.can_inject(a.t.elem, b.t.elem):
                return self.coerce(a, T.Seq(b.t.elem, py=a.t.py)).z == b.z
            if self.can_inject(b.t.elem, a.t.elem):
                return a.z == self.coerce(b, T.Seq(a.t.elem, py=b.t.py)).z
            raise Unsupported("== on sequences of different element types %s %s" % (a.t, b.t))
        if ka == "seq" and kb == "tuple":
            return self.eq(a, self.coerce(b, a.t), heap)
        if ka == "tuple" and kb == "seq":
            return self.eq(self.coerce(a, b.t), b, heap)
        if a.t == b.t:
            return a.z == b.z
        if (ka == "set" and kb == "vset") or (ka == "vset" and kb == "set"):
            x = self.content(a, heap) if ka == "set" else a
            y = self.content(b, heap) if kb == "set" else b
            return x.z == y.z
        return z3.BoolVal(False)

    def is_(self, a, b):
        ka, kb = a.t.kind, b.t.kind
        if kb == "none":
            if ka == "none":
                return z3.BoolVal(True)
            if ka == "union":
                return a.t.is_(a.z, T.NoneT)
            return z3.BoolVal(False)
        if ka == "none":
            return self.is_(b, a)
        if kb == "bool" and (z3.is_true(b.z) or z3.is_false(b.z)):
            if ka == "bool":
                return a.z == b.z
            if ka == "union":
                return z3.And(a.t.is_(a.z, T.Bool), a.t.proj(a.z, T.Bool) == b.z)
            return z3.BoolVal(False)
        if ka == "bool" and (z3.is_true(a.z) or z3.is_false(a.z)):
            return self.is_(b, a)
        if a.t.heap and b.t.heap:
            return z3.BoolVal(a.z == b.z)
        if a.t.heap != b.t.heap and ka != "union" and kb != "union":
            return z3.BoolVal(False)
        if ka == "const" and kb == "const":
            x, y = a.z, b.z
            if isinstance(x, DottedName) and isinstance(y, DottedName):
                return z3.BoolVal(x.name == y.name)
            return z3.BoolVal(x is y)
        if ka == "const" or kb == "const":
            return z3.BoolVal(False)
        if ka == "opaque" and a.t == b.t:
            return a.z == b.z
        if ka == "union" or kb == "union":
            # identity of opaque / none / bool members
            u, o = (a, b) if ka == "union" else (b, a)
            if o.t.kind != "union" and u.t.index(o.t) is None:
                return z3.BoolVal(False)
            if o.t.kind == "opaque":
                return z3.And(u.t.is_(u.z, o.t), u.t.proj(u.z, o.t) == o.z)
            if o.t.kind == "union" and o.t != u.t:
                alts = []
                for m in u.t.members:
                    if o.t.index(m) is None:
                        continue
                    if m.kind in ("none", "bool", "opaque"):
                        alts.append(z3.And(u.t.is_(u.z, m), o.t.is_(o.z, m), u.t.proj(u.z, m) == o.t.proj(o.z, m)))
                    else:
                        raise Unsupported("`is` on unions sharing a %s member" % m)
                return z3.Or(alts) if alts else z3.BoolVal(False)
            if o.t.kind == "union" and o.t == u.t:
                # both unions: identical iff same tag and (none|bool|opaque) payload equal
                alts = []
                for m in u.t.members:
                    if m.kind in ("none", "bool", "opaque"):
                        alts.append(z3.And(u.t.is_(u.z, m), o.t.is_(o.z, m), u.t.proj(u.z, m) == o.t.proj(o.z, m)))
                    else:
                        raise Unsupported("`is` on union with %s member" % m)
                return z3.Or(alts)
        raise Unsupported("`is` between %s and %s" % (a.t, b.t))

    # ------------------------------------------------------------------ sequences
    def seq_len(self, v, heap=None):
        k = v.t.kind
        if k in ("seq", "str", "bytes"):
            return z3.Length(v.z)
        if k == "list":
            if self._is_pending(v, heap):
                return z3.IntVal(0)
            return z3.Length(self.content(v, heap).z)
        if k == "tuple":
            return z3.IntVal(len(v.t.items))
        if k in ("dict", "set", "vset", "vmap"):
            g = self.cell_ghost(v.z) if k in ("dict", "set") else None
            if g and "size" in g:
                return g["size"]
            raise Unsupported("len() of %s without size ghost" % v.t)
        raise EngineError("len() of %s" % v.t)

    def norm_index(self, i, n):
        return z3.If(i < 0, i + n, i)

    def seq_index(self, v, iv, label, heap=None):
        """v[i] for str / seq / list / tuple-with-concrete-index."""
        if v.t.kind == "tuple":
            izs = zsimp(self.to_int(iv))
            if not z3.is_int_value(izs):
                raise Unsupported("symbolic index into fixed tuple")
            i = izs.as_long()
            n = len(v.t.items)
            if i < 0:
                i += n
            if not (0 <= i < n):
                if self.pure:
                    raise EngineError("tuple index out of range in spec")
                raise PyRaise(Exc("IndexError", tag=label))
            return V(v.t.items[i], v.t.get(v.z, i))
        s = self.as_seq(v, heap)
        n = z3.Length(s.z)
        i = self.to_int(iv)
        self.fail_if(z3.Or(i < -n, i >= n), "IndexError", label)
        if self.pure:
            # clause indices are mathematical (0-based, no wrap-around) unless literally negative
            isz = zsimp(i)
            j = isz + n if (z3.is_int_value(isz) and isz.as_long() < 0) else isz
        else:
            j = self.resolve(self.norm_index(i, n))
        if s.t.kind == "str":
            return V(T.Str, z3.SubString(s.z, j, 1))
        if s.t.kind == "bytes":
            return V(T.Int, nth(s.z, j))
        return V(s.t.elem, nth(s.z, j))

    def clamp_slice(self, lo, hi, n):
        """python slice normalisation (step 1): returns (start, length) z3 ints."""

        def norm(x, dflt):
            if x is None:
                return dflt
            return z3.If(x < 0, z3.If(x + n < 0, z3.IntVal(0), x + n), z3.If(x > n, n, x))

        a = norm(lo, z3.IntVal(0))
        b = norm(hi, n)
        a = self.resolve(a)
        b = self.resolve(b)
        ln = z3.If(b - a < 0, z3.IntVal(0), b - a)
        return a, self.resolve(ln)

    def seq_slice(self, v, lo, hi, heap=None):
        s = self.as_seq(v, heap)
        n = z3.Length(s.z)
        a, ln = self.clamp_slice(lo, hi, n)
        sub = z3.SubSeq(s.z, a, ln)
        # a theorem of the sequence theory (0 <= a, a + ln <= n by construction), stated
        # explicitly because z3's seq solver is slow to derive it
        if not self.pure:
            self.assume(z3.Length(sub) == ln)
        res = V(s.t, sub)
        if v.t.kind == "list" and not self.pure:
            return self.list_from_seq(res, py=v.t.py)
        return res

    def contains(self, c, x, heap=None):
        k = c.t.kind
        if k == "str":
            xs = self.project(x, lambda t: t.kind == "str", "in<str>")
            return z3.Contains(c.z, xs.z)
        if k in ("seq", "list"):
            if k == "list" and c.t.counted:
                cnt = self.cell_ghost(c.z)["cnt"]
                return z3.Select(cnt, self.coerce(x, c.t.elem).z) >= 1
            s = self.as_seq(c, heap)
            g, xe = self.member_key(x, s.t.elem)
            if xe is None:
                return z3.BoolVal(False)
            return z3.And(g, z3.Contains(s.z, z3.Unit(xe.z)))
        if k == "tuple":
            return z3.Or([self.eq(V(t, c.t.get(c.z, i)), x, heap) for i, t in enumerate(c.t.items)] or [z3.BoolVal(False)])
        if k in ("set", "vset"):
            s = self.content(c, heap) if k == "set" else c
            g, xe = self.member_key(x, s.t.elem)
            if xe is None:
                return z3.BoolVal(False)
            return z3.And(g, z3.Select(s.z, xe.z))
        if k in ("dict", "vmap"):
            m = self.content(c, heap) if k == "dict" else c
            g, xe = self.member_key(x, m.t.k)
            if xe is None:
                return z3.BoolVal(False)
            return z3.And(g, z3.Select(m.t.has(m.z), xe.z))
        if k in ("drec", "itemref", "rec"):
            from . import records

            return records.contains(self, c, x, heap)
        if k == "obj":
            return self.truthy(self.ctx.call_method(self, c, "__contains__", [x], {}, None, None))
        if k == "union":
            return z3.Or([z3.And(c.t.is_(c.z, m), self.contains(V(m, c.t.proj(c.z, m)), x, heap)) for m in c.t.members if m.kind != "none"])
        if k == "const" and isinstance(c.z, (tuple, list, set, frozenset)):
            return z3.Or([self.eq(self.lift(e), x, heap) for e in c.z] or [z3.BoolVal(False)])
        raise Unsupported("`in` on %s" % c.t)

    def member_key(self, x, elem):
        """(guard, key) for `x in container-of-elem` - membership never raises: a value of another
        type is simply not a member"""
        if x.t == elem:
            return z3.BoolVal(True), x
        if x.t.kind == "union" and x.t.index(elem) is not None and elem.kind != "union":
            return x.t.is_(x.z, elem), V(elem, x.t.proj(x.z, elem))
        if x.is_const or x.t.heap:
            return z3.BoolVal(False), None
        saved = self.pure
        self.pure = True
        try:
            return z3.BoolVal(True), self.coerce(x, elem)
        except EngineError:
            return z3.BoolVal(False), None
        finally:
            self.pure = saved

    def lift(self, obj):
        """python constant -> V"""
        if isinstance(obj, V):
            return obj
        if obj is None:
            return mk_none()
        if isinstance(obj, bool):
            return mk_bool(obj)
        if isinstance(obj, int):
            return mk_int(obj)
        if isinstance(obj, float):
            return mk_real(repr(obj))
        if isinstance(obj, str):
            return mk_str(obj)
        if isinstance(obj, bytes):
            s = z3.Empty(T.Bytes.sort())
            for b in obj:
                s = z3.Concat(s, z3.Unit(z3.IntVal(b)))
            return V(T.Bytes, zsimp(s) if obj else s)
        if isinstance(obj, tuple):
            return self.mk_tuple([self.lift(x) for x in obj])
        return const(obj)

    def mk_tuple(self, vals):
        vals = [self.data(v) for v in vals]
        tt = T.Tuple(*[v.t for v in vals])
        return V(tt, tt.mk(*[v.z for v in vals]))

    def lref_value(self, v, heap=None):
        """the record currently stored in the slot a ListItemRef points to"""
        lst, idx = v.z
        c = self.content(lst, heap)
        return V(v.t.rec, nth(c.z, idx))

    def sref_value(self, v, heap=None):
        lst, idx = v.z
        c = self.content(lst, heap)
        return V(v.t.vset, nth(c.z, idx))

    def lref_store(self, v, rec_term):
        lst, idx = v.z
        c = self.content(lst)
        n = z3.Length(c.z)
        # index form (E-matching friendly) instead of a concat of slices: a fresh sequence equal to the old one except at idx
        c2 = z3.Const(fresh_name("slotupd"), c.t.sort())
        j = z3.Int(fresh_name("j"))
        self.assume(z3.Length(c2) == n)
        self.assume(c2[idx] == rec_term)
        self.assume(z3.ForAll([j], z3.Implies(z3.And(0 <= j, j < n, j != idx), c2[j] == c.z[j]), patterns=[c2[j]]))
        self.set_content(lst, V(c.t, c2))

    def data(self, v):
        """value that can be stored inside a z3 term (refs to lists are stored by content)."""
        if v.t.kind == "list":
            return self.content(v)
        if v.t.kind in ("set", "dict"):
            return self.content(v)
        if v.t.kind in ("drec", "itemref"):
            from . import records

            return records.as_rec(self, v)
        if v.t.kind == "lref":
            return self.lref_value(v)
        if v.t.kind == "sref":
            return self.sref_value(v)
        if v.t.heap or v.t is T.Const:
            raise Unsupported("cannot store %s inside a data value" % v.t)
        return v
