"""Discharge obligations: z3 (python API) first, cvc5 / z3 CLI on `unknown`."""
import os
import subprocess
import tempfile
import time
import z3

CVC5 = "/usr/bin/cvc5"
Z3CLI = "/usr/bin/z3"


def to_smt2(assumptions, goal):
    s = z3.Solver()
    for a in assumptions:
        s.add(a)
    s.add(z3.Not(goal))
    return "(set-logic ALL)\n" + s.to_smt2().replace("seq.nth_u", "seq.nth").replace("seq.nth_i", "seq.nth")


def run_cli(cmd, text, timeout_s):
    fd, path = tempfile.mkstemp(suffix=".smt2", dir=os.environ.get("XV_SCRATCH", None))
    try:
        with os.fdopen(fd, "w") as f:
            f.write(text)
        t0 = time.time()
        try:
            p = subprocess.run(cmd + [path], capture_output=True, text=True, timeout=timeout_s + 2)
            out = (p.stdout or "").strip().split("\n")[0].strip()
        except subprocess.TimeoutExpired:
            out = "timeout"
        return out, time.time() - t0
    finally:
        try:
            os.unlink(path)
        except OSError:
            pass


def _has_quant(ob):
    """a CLI `sat` on a quantified query comes without a model we can validate: not trusted"""
    from .interp import has_quant

    return has_quant(ob.goal) or any(has_quant(a) for a in ob.assumptions)


def guarded_check(s, timeout_ms):
    """s.check() with z3 exceptions mapped to `unknown`.  (A watchdog thread that interrupted the context after twice the budget was tried and
    removed: with it the thorough run stalled - a pool worker died within a second of starting, interrupting the shared main context from a
    timer thread is not safe - and the hang it was meant to cure turned out to be a slow schedule, not z3 ignoring its timeout.)"""
    try:
        return s.check()
    except z3.Z3Exception:
        return z3.unknown


def _contains_quant(e):
    seen, stack = set(), [e]
    while stack:
        x = stack.pop()
        if x.get_id() in seen:
            continue
        seen.add(x.get_id())
        if z3.is_quantifier(x):
            return True
        if z3.is_app(x):
            stack.extend(x.children())
    return False


def model_refutes(ob, model):
    """Does the model really falsify the goal?  z3 may answer `sat` with a model that does not
    satisfy a quantified formula (incomplete seq / MBQI): evaluate the negated goal under the model,
    expanding integer-bounded quantifiers finitely.  Returns True / False / None (could not tell)."""
    from .instantiate import inst

    try:
        # a model that breaks one of the (quantified) ASSUMPTIONS on a small instance range is no counter-example either
        for asm in ([] if os.environ.get("XV_NO_ASM_CHECK") else ob.assumptions):
            if not z3.is_quantifier(asm) and not _contains_quant(asm):
                continue
            try:
                av = z3.simplify(model.eval(asm, model_completion=True))
                if z3.is_false(av):
                    return False
                if not z3.is_true(av):
                    ae = inst(av, True, list(range(-1, 9)), {}, [20000])
                    if z3.is_false(z3.simplify(model.eval(ae, model_completion=True))):
                        return False
            except z3.Z3Exception:
                continue
        v = z3.simplify(model.eval(z3.Not(ob.goal), model_completion=True))
        if z3.is_true(v):
            return True
        if z3.is_false(v):
            return False
        # exact on the instantiated range only; used solely to DISCARD models that fail
        e = inst(v, True, list(range(-1, 9)), {}, [20000])
        v2 = z3.simplify(model.eval(e, model_completion=True))
        if z3.is_false(v2):
            return False
        if z3.is_true(v2):
            return True
    except z3.Z3Exception:
        pass
    return None


def _z3_check(ob, timeout_ms):
    s = z3.Solver()
    s.set("timeout", timeout_ms)
    for a in ob.assumptions:
        s.add(a)
    s.add(z3.Not(ob.goal))
    r = guarded_check(s, timeout_ms)
    if r == z3.unsat:
        ob.verdict = "discharged"
    elif r == z3.sat:
        ob.verdict = "refuted"
        try:
            ob.model = s.model()
        except z3.Z3Exception:
            ob.model = None
        if ob.model is not None and _has_quant(ob) and model_refutes(ob, ob.model) is False:
            # spurious `sat`: the model does not falsify the goal -> nothing decided
            ob.verdict = "unknown"
            ob.model = None
            ob.last_reason = "z3 answered sat with a model that fails validation (quantifier incompleteness)"
            ob.detail = (ob.detail + " " + ob.last_reason).strip()
            return z3.unknown
    else:
        ob.verdict = "unknown"
        ob.last_reason = s.reason_unknown()
    return r


def cross_check(ob, timeout_ms):
    """thorough tier: re-decide with cvc5; returns a message on disagreement, else None"""
    text = to_smt2(ob.assumptions, ob.goal)
    out, dt = run_cli([CVC5, "--strings-exp", "--tlimit=%d" % min(timeout_ms, 20000)], text, min(timeout_ms, 20000) / 1000)
    ob.cross = out
    if (out == "unsat" and ob.verdict == "refuted" and getattr(ob, "via", None) is None) or (out == "sat" and ob.verdict == "discharged"):
        return "z3 says %s, cvc5 says %s" % (ob.verdict, out)
    return None


def _usyms(e, cache):
    """names of the uninterpreted symbols (constants and functions) of a formula"""
    k = e.get_id()
    if k in cache:
        return cache[k]
    out, seen, st = set(), set(), [e]
    while st:
        x = st.pop()
        if x.get_id() in seen:
            continue
        seen.add(x.get_id())
        if z3.is_quantifier(x):
            st.append(x.body())
        elif z3.is_app(x):
            d = x.decl()
            if d.kind() == z3.Z3_OP_UNINTERPRETED:
                out.add(d.name())
            st.extend(x.children())
    cache[k] = out
    return out


def _cone_check(ob, timeout_ms):
    """Cone of influence: the assumptions connected to the goal through shared uninterpreted symbols.  `unsat` of the cone is `unsat` of the
    whole (fewer assumptions); `sat` of the cone is `sat` of the whole when the rest - which shares no symbol with it - is satisfiable on its
    own (then the two models combine); otherwise the cone model is only a candidate.  Used after z3 gave up on the whole formula: the seq
    theory often gives up on facts that have nothing to do with the goal."""
    cache = {}
    fs = [(a, _usyms(a, cache)) for a in ob.assumptions]
    cone = set(_usyms(ob.goal, cache))
    changed = True
    while changed:
        changed = False
        for _a, sy in fs:
            if sy & cone and not sy <= cone:
                cone |= sy
                changed = True
    kept = [a for a, sy in fs if sy & cone or not sy]
    rest = [a for a, sy in fs if sy and not (sy & cone)]
    if not rest:
        return False
    s = z3.Solver()
    s.set("timeout", timeout_ms)
    for a in kept:
        s.add(a)
    s.add(z3.Not(ob.goal))
    r = guarded_check(s, timeout_ms)
    if r == z3.unsat:
        ob.verdict = "discharged"
        ob.solver = "z3-%s" % z3.get_version_string()
        return True
    if r != z3.sat:
        ob.last_reason = s.reason_unknown()
        return True
    try:
        m = s.model()
    except z3.Z3Exception:
        return True
    quant = any(_contains_quant(a) for a in kept) or _contains_quant(ob.goal)
    if quant:
        class _Sub:  # validate against the cone only
            pass
        sub = _Sub()
        sub.assumptions, sub.goal = kept, ob.goal
        if model_refutes(sub, m) is False:
            return True
    s2 = z3.Solver()
    s2.set("timeout", min(timeout_ms, 3000))
    for a in rest:
        s2.add(a)
    r2 = guarded_check(s2, min(timeout_ms, 3000))
    if r2 == z3.unsat:
        # the path condition outside the cone is contradictory on its own: an infeasible path, nothing to prove on it
        ob.verdict = "discharged"
        ob.solver = "z3-%s" % z3.get_version_string()
        return True
    ob.verdict = "refuted"
    ob.model = m
    if r2 == z3.sat:  # (a quantified cone model was validated above, exactly as a z3 `sat` on the whole formula is)
        ob.solver = "z3-%s" % z3.get_version_string()
    else:
        ob.via = "finite-instantiation"  # candidate only: the part of the path condition outside the cone was not shown satisfiable
        ob.solver = "z3-%s(cone of influence, candidate)" % z3.get_version_string()
    return True


def solve_one(ob, timeout_ms=10000, use_cvc5=True, cross=False, finite=True, skip_short=False, early_cvc5_ms=3000, stop_after_early=False, prefer_cvc5=False):
    """Sets ob.verdict in {'discharged','refuted','unknown'}.
    Schedule: z3 (short) -> finite-instantiation model search -> z3 (full budget) -> cvc5 -> z3 4.8 CLI."""
    t0 = time.time()
    ob.solver = "z3-%s" % z3.get_version_string()
    if prefer_cvc5 and not skip_short:
        # this obligation was last discharged by cvc5 (baseline hint): ask it first
        textp = to_smt2(ob.assumptions, ob.goal)
        outp, dtp = run_cli([CVC5, "--strings-exp", "--tlimit=%d" % max(early_cvc5_ms, 20000)], textp, max(early_cvc5_ms, 20000) / 1000)
        ob.time = getattr(ob, "time", 0.0) + dtp
        if outp == "unsat":
            ob.verdict = "discharged"
            ob.solver = "cvc5-1.0.3"
            return ob
        early_cvc5_ms = 0
        t0 = time.time()
    if skip_short:
        ob.verdict = "unknown"
        r = z3.unknown
    else:
        # first the cone of influence of the goal (smaller, decided more often); the whole formula only when the cone IS the whole formula
        ob.verdict = "unknown"
        r = z3.unknown
        if not _cone_check(ob, min(2000, timeout_ms)):
            r = _z3_check(ob, min(2000, timeout_ms))
        elif ob.verdict != "unknown":
            ob.time = getattr(ob, "time", 0.0) + time.time() - t0
            return ob
    ob.time = getattr(ob, "time", 0.0) + time.time() - t0
    if ob.verdict == "unknown" and use_cvc5 and not skip_short and early_cvc5_ms:
        # cvc5 proves many quantified goals at once that z3 leaves open: a short try before the counter-model search
        text0 = to_smt2(ob.assumptions, ob.goal)
        out0, dt0 = run_cli([CVC5, "--strings-exp", "--tlimit=%d" % early_cvc5_ms], text0, early_cvc5_ms / 1000)
        ob.time += dt0
        if out0 == "unsat":
            ob.verdict = "discharged"
            ob.solver = "cvc5-1.0.3"
            return ob
    if stop_after_early:
        return ob
    if ob.verdict == "unknown" and finite:
        # counter-model search on a finite instantiation (weaker formula: the model is only a
        # candidate, confirmed or discarded by native replay)
        from .instantiate import finite_instance

        t1 = time.time()
        try:
            s2 = z3.Solver()
            s2.set("timeout", min(timeout_ms, 5000))
            for f in finite_instance(ob.assumptions, ob.goal):
                s2.add(f)
            r2 = guarded_check(s2, min(timeout_ms, 5000))
            if r2 == z3.unknown:
                # still weaker: drop every quantified assumption (candidate only, like the above)
                from .interp import has_quant

                if not has_quant(ob.goal):
                    s2 = z3.Solver()
                    s2.set("timeout", min(timeout_ms, 5000))
                    for a in ob.assumptions:
                        if not has_quant(a):
                            s2.add(a)
                    s2.add(z3.Not(ob.goal))
                    r2 = guarded_check(s2, min(timeout_ms, 5000))
                    if r2 == z3.unknown:
                        # weaker again: string operations z3 is incomplete on become uninterpreted (candidate only)
                        from .instantiate import abstract_hard

                        weak = abstract_hard([a for a in ob.assumptions if not has_quant(a)] + [z3.Not(ob.goal)])
                        if weak is not None:
                            s2 = z3.Solver()
                            s2.set("timeout", min(timeout_ms, 5000))
                            for f in weak:
                                s2.add(f)
                            r2 = guarded_check(s2, min(timeout_ms, 5000))
            if r2 == z3.sat:
                ob.verdict = "refuted"
                ob.via = "finite-instantiation"
                ob.model = s2.model()
                ob.solver = "z3-%s(finite instantiation, candidate)" % z3.get_version_string()
        except z3.Z3Exception as e:
            ob.detail += " finite-inst: %s" % e
        ob.time += time.time() - t1
        if ob.verdict == "refuted":
            return ob
    if (ob.verdict == "unknown" and use_cvc5) or cross:
        text = to_smt2(ob.assumptions, ob.goal)
        out, dt = run_cli([CVC5, "--strings-exp", "--tlimit=%d" % timeout_ms], text, timeout_ms / 1000)
        ob.time += dt
        if cross and ob.verdict != "unknown":
            ob.cross = out
            if (out == "unsat" and ob.verdict == "refuted") or (out == "sat" and ob.verdict == "discharged"):
                ob.verdict = "solver-disagreement"
                ob.detail = "z3 says %s, cvc5 says %s" % (r, out)
            return ob
        if out == "unsat":
            ob.verdict = "discharged"
            ob.solver = "cvc5-1.0.3"
        elif out == "sat" and False:
            # a CLI `sat` comes without a model we can validate or replay (and the textual export may
            # differ in corner semantics, e.g. int<->string): only `unsat` is taken from the CLI solvers
            ob.verdict = "refuted"
        else:
            ob.detail += " cvc5: " + out
            if timeout_ms > 2000:
                t1 = time.time()
                r = _z3_check(ob, timeout_ms)
                ob.time += time.time() - t1
                if ob.verdict != "unknown":
                    ob.solver = "z3-%s" % z3.get_version_string()
                    return ob
                ob.detail = (ob.detail + " z3: " + getattr(ob, "last_reason", "")).strip()
            # last resort: the other z3
            out2, dt2 = run_cli([Z3CLI, "-T:%d" % max(1, timeout_ms // 1000), "-memory:4000"], text, timeout_ms / 1000)
            ob.time += dt2
            if out2 == "unsat":
                ob.verdict = "discharged"
                ob.solver = "z3-4.8.12"
            elif out2 == "sat" and False:
                ob.verdict = "refuted"
            else:
                ob.detail += " z3cli: " + out2
    return ob
