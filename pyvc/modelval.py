"""z3 model -> concrete python values for the inputs of a function under contract."""
import re
import z3
from . import ty as T


class Unrepresentable(Exception):
    pass


def term_tree(R, v, heap):
    k = v.t.kind
    if v.t is T.Const:
        return ("const", repr(v.z))
    if k == "nullable":
        return ("nullable", v.z[0], term_tree(R, v.z[1], heap))
    if k == "list":
        c = heap[v.z].content
        if c is None:
            return ("pylist", [])
        return ("list", v.t, c.z)
    if k in ("dict", "set"):
        c = heap[v.z].content
        return (k, v.t, c.z)
    if k == "drec":
        return ("obj", "drec:" + v.t.name, {fn: term_tree(R, fv, heap) for fn, fv in heap[v.z].content.items()})
    if k == "obj":
        fields = {}
        for fn, fv in heap[v.z].content.items():
            fields[fn] = term_tree(R, fv, heap)
        return ("obj", v.t.cls, fields)
    return ("d", v.t, v.z)


_esc = re.compile(r"\\u\{([0-9a-fA-F]+)\}|\\x([0-9a-fA-F]{2})")


def z3str(val):
    s = val.as_string()
    return _esc.sub(lambda m: chr(int(m.group(1) or m.group(2), 16)), s)


def seq_items(val):
    """flatten a sequence-sorted model value into element terms"""
    val = z3.simplify(val)
    out = []

    def rec(x):
        if z3.is_app(x):
            k = x.decl().kind()
            if k == z3.Z3_OP_SEQ_CONCAT:
                for ch in x.children():
                    rec(ch)
                return
            if k == z3.Z3_OP_SEQ_UNIT:
                out.append(x.arg(0))
                return
            if k == z3.Z3_OP_SEQ_EMPTY:
                return
        if z3.is_string_value(x):
            out.extend(z3str(x))
            return
        raise Unrepresentable("sequence value %s" % x)

    rec(val)
    return out


def conv(model, ty, term):
    val = model.eval(term, model_completion=True)
    k = ty.kind
    if k == "int":
        return val.as_long()
    if k == "bool":
        return z3.is_true(val)
    if k == "real":
        if z3.is_algebraic_value(val):
            val = val.approx(10)
        fr = val.as_fraction()
        return float(fr)
    if k == "str":
        return z3str(val)
    if k == "none":
        return None
    if k == "bytes":
        return bytes(int(model.eval(x, model_completion=True).as_long()) % 256 for x in seq_items(val))
    if k == "seq":
        items = [conv(model, ty.elem, x) for x in seq_items(val)]
        return tuple(items) if ty.py == "tuple" else items
    if k == "tuple":
        return tuple(conv(model, t, ty.get(val, i)) for i, t in enumerate(ty.items))
    if k == "rec":
        return {f: conv(model, t, ty.get(val, f)) for f, t in ty.fields.items()}
    if k == "union":
        for m in ty.members:
            if z3.is_true(model.eval(ty.is_(val, m), model_completion=True)):
                return conv(model, m, ty.proj(val, m)) if m.kind != "none" else None
        raise Unrepresentable("union tag")
    if k == "opaque":
        return {"__opaque__": "%s:%s" % (ty.name, val)}
    if k in ("vset", "vmap"):
        raise Unrepresentable("array-valued %s" % k)
    raise Unrepresentable(str(ty))


def array_keys(model, arr_val):
    """finite support of an array model value (Store chain over K)"""
    keys = []
    x = arr_val
    for _ in range(10000):
        if z3.is_app(x) and x.decl().kind() == z3.Z3_OP_STORE:
            keys.append(x.arg(1))
            x = x.arg(0)
        elif z3.is_app(x) and x.decl().kind() == z3.Z3_OP_CONST_ARRAY:
            return keys, x.arg(0)
        elif z3.is_app(x) and x.decl().kind() == z3.Z3_OP_AS_ARRAY:
            f = z3.get_as_array_func(x)
            fi = model[f]
            if fi is None:
                raise Unrepresentable("as-array without interpretation")
            for e in fi.as_list()[:-1]:
                keys.append(e[0])
            return keys, fi.else_value()
        else:
            raise Unrepresentable("array value %s" % x)
    raise Unrepresentable("array too deep")


def pyval(model, tree):
    tag = tree[0]
    if tag == "d":
        return conv(model, tree[1], tree[2])
    if tag == "pylist":
        return list(tree[1])
    if tag == "list":
        lt = tree[1]
        items = conv(model, lt.content(), tree[2])
        if lt.py == "deque":
            return {"__deque__": list(items)}
        return list(items)
    if tag == "set":
        st = tree[1]
        val = model.eval(tree[2], model_completion=True)
        keys, dflt = array_keys(model, val)
        if z3.is_true(dflt):
            raise Unrepresentable("co-finite set")
        out = []
        for kx in keys:
            if z3.is_true(model.eval(z3.Select(val, kx), model_completion=True)):
                kv = conv(model, st.elem, kx)
                if kv not in out:
                    out.append(kv)
        return {"__set__": out}
    if tag == "dict":
        dt = tree[1]
        mt = dt.content()
        has = model.eval(mt.has(tree[2]), model_completion=True)
        vals = mt.val(tree[2])
        keys, dflt = array_keys(model, has)
        if z3.is_true(dflt):
            raise Unrepresentable("co-finite dict")
        out = []
        seen = []
        for kx in keys:
            if z3.is_true(model.eval(z3.Select(has, kx), model_completion=True)):
                kv = conv(model, dt.k, kx)
                if kv in seen:
                    continue
                seen.append(kv)
                out.append([kv, conv(model, dt.v, z3.Select(vals, kx))])
        return {"__dict__": out}
    if tag == "obj":
        return {"__obj__": tree[1], "fields": {k: pyval(model, t) for k, t in tree[2].items()}}
    if tag == "const":
        return {"__const__": tree[1]}
    if tag == "nullable":
        if z3.is_true(model.eval(tree[1], model_completion=True)):
            return None
        return pyval(model, tree[2])
    raise Unrepresentable(tag)


def to_json(x):
    if isinstance(x, tuple):
        return {"__tuple__": [to_json(i) for i in x]}
    if isinstance(x, list):
        return [to_json(i) for i in x]
    if isinstance(x, dict):
        return {k: to_json(v) for k, v in x.items()}
    if isinstance(x, bytes):
        return {"__bytes__": list(x)}
    if isinstance(x, float) and (x != x or x in (float("inf"), float("-inf"))):
        return {"__float__": repr(x)}
    return x


def from_json(x):
    if isinstance(x, list):
        return [from_json(i) for i in x]
    if isinstance(x, dict):
        if "__tuple__" in x:
            return tuple(from_json(i) for i in x["__tuple__"])
        if "__bytes__" in x:
            return bytes(x["__bytes__"])
        if "__float__" in x:
            return float(x["__float__"])
        if "__set__" in x:
            return set(_hashable(from_json(i)) for i in x["__set__"])
        if "__deque__" in x:
            import collections

            return collections.deque(from_json(x["__deque__"]))
        if "__dict__" in x:
            return {_hashable(from_json(k)): from_json(v) for k, v in x["__dict__"]}
        return {k: from_json(v) for k, v in x.items()}
    return x


def _hashable(x):
    if isinstance(x, list):
        return tuple(_hashable(i) for i in x)
    return x
