"""Per-function verification context: binds a contract to the real source, drives the path
exploration, resolves calls (externals / contracts / models), collects named obligations."""
import ast
import hashlib
import os
import time
import z3
from . import ty as T
from . import models
from .core import *  # noqa
from .core import V, Exc, Cell, Event, Obligation, DottedName, BoundMethod, Closure, explore, reset_fresh
from .interp import Frame, Iter, zsimp
from .evalx import Evaluator, UNDEFINED, PENDING
from .contract import Ext, GhostFn, Lemma, REGISTRY

_src_cache = {}


def load_module_ast(repo, relpath):
    path = os.path.join(repo, relpath)
    st = os.stat(path)
    key = (path, st.st_mtime_ns, st.st_size)
    if key not in _src_cache:
        with open(path, encoding="utf-8") as f:
            src = f.read()
        _src_cache[key] = (src, ast.parse(src, filename=path))
    return _src_cache[key]


def find_def(tree, qualname):
    """Locate FunctionDef by dotted qualname (Class.method, outer.inner)."""
    want_setter = qualname.endswith("@setter")
    if want_setter:
        qualname = qualname[: -len("@setter")]
    parts = qualname.split(".")
    scope = tree.body
    node = None
    for pi, p in enumerate(parts):
        found = None
        stack = list(scope)
        if want_setter and pi == len(parts) - 1:
            # the `@<name>.setter` definition of a property (same name as its getter)
            for s in scope:
                if isinstance(s, ast.FunctionDef) and s.name == p and any(ast.unparse(d) == p + ".setter" for d in s.decorator_list):
                    return s
            return None
        # search this scope's statements (including inside if/try/with blocks) but not nested defs
        while stack:
            s = stack.pop(0)
            if isinstance(s, (ast.FunctionDef, ast.AsyncFunctionDef, ast.ClassDef)):
                if s.name == p:
                    found = s
                    break
                continue
            for fld in ("body", "orelse", "finalbody", "handlers"):
                stack.extend(getattr(s, fld, []) or [])
        if found is None:
            return None
        node = found
        scope = found.body
    return node


def short_target(target):
    f, q = target.split("::")
    f = f[:-3] if f.endswith(".py") else f
    f = f.replace("xonsh/", "").replace("/", ".")
    return "%s::%s" % (f, q)


class FnVerifier:
    def __init__(self, contract, repo, tier="quick", feas_timeout_ms=400):
        self.c = contract
        self.repo = repo
        self.tier = tier
        self.feas_timeout_ms = feas_timeout_ms
        self.axioms = []
        self.stats = {"feas_checks": 0, "paths": 0}
        self.obligations = {}
        self.errors = []
        self.bounded_notes = {}
        self.abstract_notes = []
        self.assumed = []
        self.unroll_bound = contract.unroll
        self.hint_stack = []
        self.optional_fields = contract.optional_fields
        self.uf_cache = {}
        self.clause_cache = {}
        relpath, qual = contract.target.split("::")
        self.relpath, self.qual = relpath, qual
        self.src, self.tree = load_module_ast(repo, relpath)
        self.fn = find_def(self.tree, qual)
        self.short = short_target(contract.target)
        if self.fn is None:
            raise EngineError("target %s not found in %s" % (qual, relpath))
        self.base_line = self.fn.lineno
        seg = ast.get_source_segment(self.src, self.fn) or ""
        self.sha = hashlib.sha256(seg.encode()).hexdigest()[:16]
        self.nlines = (self.fn.end_lineno or self.fn.lineno) - self.fn.lineno + 1
        # loop ordinals by AST position
        self.loop_keys = {}
        nf = nw = 0
        for n in self._walk_own(self.fn):
            if isinstance(n, ast.For):
                nf += 1
                self.loop_keys[id(n)] = "for#%d" % nf
            elif isinstance(n, ast.While):
                nw += 1
                self.loop_keys[id(n)] = "while#%d" % nw
        for k in contract.loops:
            if k not in self.loop_keys.values():
                raise EngineError("contract names loop %s but %s has loops %s" % (k, qual, sorted(self.loop_keys.values())))
        self.is_generator = any(isinstance(n, (ast.Yield, ast.YieldFrom)) for n in self._walk_own(self.fn, nested=False))

    def _walk_own(self, fn, nested=True):
        """ast.walk in source order; optionally skipping nested function bodies."""
        out = []

        def rec(n):
            for ch in ast.iter_child_nodes(n):
                if not nested and isinstance(ch, (ast.FunctionDef, ast.Lambda, ast.ClassDef)):
                    continue
                out.append(ch)
                rec(ch)

        rec(fn)
        return out

    # ------------------------------------------------------------------ hooks used by Evaluator
    def loop_key(self, node):
        k = self.loop_keys.get(id(node))
        if k is None:
            return "loop@L%d" % (node.lineno - self.base_line)
        return k

    def loop_spec(self, key):
        return self.c.loops.get(key)

    def note_bounded(self, key, k):
        self.bounded_notes[key] = k

    def first_line(self, node):
        """first source line of a statement (cached: get_source_segment re-splits the file each time)"""
        c = self.__dict__.setdefault("_line_cache", {})
        k = id(node)
        if k not in c:
            if "_src_lines" not in self.__dict__:
                self._src_lines = self.src.split("\n")
            ln = getattr(node, "lineno", None)
            c[k] = self._src_lines[ln - 1][getattr(node, "col_offset", 0):] if ln else ""
        return c[k]

    def abstract_for(self, node):
        for ab in self.c.abstract:
            if ab.get("match") and ab["match"](node, self):
                return ab
            if "line_contains" in ab:
                first = self.first_line(node)
                if ab["line_contains"] in first and isinstance(node, ab.get("types", ast.stmt)):
                    return ab
        return None

    def note_abstract(self, node, ab):
        note = "L%d: %s" % (node.lineno - self.base_line, ab.get("reason", ""))
        if note not in self.abstract_notes:
            self.abstract_notes.append(note)

    def parse_clause(self, src):
        if src not in self.clause_cache:
            self.clause_cache[src] = ast.parse(src.strip(), mode="eval").body
        return self.clause_cache[src]

    def local_type(self, frame, name):
        return self.c.locals.get(name)

    def push_hint(self, node, frame=None):
        h = None
        if isinstance(node, ast.Assign) and len(node.targets) == 1 and isinstance(node.targets[0], ast.Name):
            h = self.c.locals.get(node.targets[0].id)
            if h is None and frame is not None:
                cur = frame.lookup(node.targets[0].id)
                if cur is not None and cur is not UNDEFINED:
                    # re-assignment of a variable: an untyped empty container takes its current type
                    if cur.t.kind == "vset":
                        h = T.Set(cur.t.elem)
                    elif cur.t.kind in ("set", "dict") or (cur.t.kind == "list" and cur.t.elem is not PENDING):
                        h = cur.t
        elif isinstance(node, ast.Assign) and len(node.targets) == 1 and isinstance(node.targets[0], ast.Attribute):
            attr = node.targets[0].attr
            for t in list(self.c.globals.values()) + list(self.c.params.values()):
                if isinstance(t, T.Ty) and t.kind == "obj" and attr in t.fields:
                    h = t.fields[attr]
                    break
        self.hint_stack.append(h)

    def pop_hint(self):
        self.hint_stack.pop()

    def type_hint(self, node):
        h = self.hint_stack[-1] if self.hint_stack else None
        return h if (h is not None and h.heap) else None

    def uf(self, name, arg_tys, ret_ty):
        key = (name, tuple(t.key() for t in arg_tys), ret_ty.key())
        if key not in self.uf_cache:
            sorts = [t.sort() for t in arg_tys] + [ret_ty.sort()]
            nm = "uf_%s_%d" % (name.replace(".", "_").replace("%", "pct"), len(self.uf_cache))
            self.uf_cache[key] = z3.Function(nm, *sorts) if arg_tys else z3.Const(nm, ret_ty.sort())
        return self.uf_cache[key]

    def uf_apply(self, R, name, args, ret_ty):
        args = [R.data(a) for a in args]
        f = self.uf(name, [a.t for a in args], ret_ty)
        return V(ret_ty, f(*[a.z for a in args]) if args else f)

    def uf_pred(self, R, name, args):
        return self.uf_apply(R, name, args, T.Bool).z

    def isinstance_custom(self, t, name):
        tbl = self.c.config.get("isinstance", {})
        short = name.split(".")[-1]
        names = tbl.get(name) or tbl.get(short)
        if names is None:
            if t.kind == "obj":
                return t.cls == short or short in self.c.config.get("bases", {}).get(t.cls, ())
            if t.kind == "opaque":
                return t.name == short or short in self.c.config.get("bases", {}).get(t.name, ())
            if t.kind == "rec":
                return t.name == short or short in self.c.config.get("bases", {}).get(t.name, ())
            return False
        tag = t.cls if t.kind == "obj" else (t.name if t.kind in ("opaque", "rec") else t.kind)
        return tag in names

    def isinstance_const(self, obj, names):
        if isinstance(obj, Exc):
            return any(exc_subclass(obj.cls, exc_canon(n)) for n in names if n.split(".")[-1] in EXC_BASES or n in EXC_BASES)
        if isinstance(obj, (Closure, DottedName, BoundMethod)):
            return any(n in ("object",) for n in names)
        return False

    def property_def(self, cls, attr, which):
        """FunctionDef of a property getter / setter of `cls` declared in config['properties'] (inlined: real source)"""
        props = self.c.config.get("properties", {})
        if attr not in props.get(cls, ()):
            return None
        key = (cls, attr, which)
        cache = self.__dict__.setdefault("_propdefs", {})
        if key not in cache:
            found = None
            for n in ast.walk(self.tree):
                if isinstance(n, ast.ClassDef) and n.name == cls:
                    for f in n.body:
                        if isinstance(f, ast.FunctionDef) and f.name == attr:
                            decs = [ast.unparse(d) for d in f.decorator_list]
                            if which == "getter" and "property" in decs:
                                found = f
                            if which == "setter" and ("%s.setter" % attr) in decs:
                                found = f
            if found is None:
                raise EngineError("property %s.%s (%s) not found" % (cls, attr, which))
            cache[key] = found
        return cache[key]

    def check_not_memoised(self, R, name, node):
        """contracts with config['no_memo']: a module-level function used on this path must not be wrapped in a result cache
        (functools.lru_cache / cache / cached_property): what it read from the world would be remembered across calls"""
        if not self.c.config.get("no_memo"):
            return
        fd = find_def(self.tree, name)
        if fd is None or not isinstance(fd, (ast.FunctionDef, ast.AsyncFunctionDef)):
            return
        for d in fd.decorator_list:
            src = ast.unparse(d)
            if any(k in src for k in ("lru_cache", "functools.cache", "cached_property", "memoize", "lazyobject")) or src in ("cache",):
                self.add_obligation(R, "flag", "%s-is-memoised" % name, z3.BoolVal(False),
                                    clause="%s (decorated %s) is used on a path that must consult the world afresh on every call" % (name, src),
                                    line=getattr(node, "lineno", None))

    def is_callable_type(self, t):
        return (t.kind == "opaque" and t.name in self.c.config.get("callable_types", ("fn", "callable"))) or t is T.Const

    def has_method(self, cls, name):
        return ("%s.%s" % (cls, name)) in self.c.externals or ("self.%s" % name) in self.c.externals

    def custom_method(self, recv, name):
        return None

    def on_field_write(self, R, base, attr, val):
        hook = self.c.hooks.get("field_write")
        if hook:
            hook(R, base, attr, val)

    def havoc_extra(self, R, spec):
        h = self.c.hooks.get("loop")
        if h:
            h(R)

    def havoc_cell_ghost(self, R, loc, g, base):
        g2 = dict(g)
        cell = R.heap[loc]
        if "cnt" in g:
            cnt = z3.Const(fresh_name(base + ".cnt"), z3.ArraySort(cell.ty.elem.sort(), z3.IntSort()))
            g2["cnt"] = cnt
            self.assume_cnt_wf(R, cell.content, cnt)
        if "size" in g:
            sz = z3.Int(fresh_name(base + ".size"))
            R.assume(sz >= 0)
            g2["size"] = sz
        if "keys" in g:
            ks = g["keys"]
            g2["keys"] = fresh(ks.t, base + ".keys")
            self.assume_keys_wf(R, cell.content, g2["keys"])
            if "size" in g2:
                R.assume(z3.Length(g2["keys"].z) == g2["size"])
        R.heap[loc].ghost = g2

    def assume_keys_wf(self, R, m, ks):
        """insertion-order ghost of a dict, index form: every listed key is present, every present
        key is listed (skolem position), no key is listed twice"""
        has = m.t.has(m.z)
        n = z3.Length(ks.z)
        x = z3.Const(fresh_name("x"), m.t.k.sort())
        pos = z3.Function(fresh_name("kpos"), m.t.k.sort(), z3.IntSort())
        i, j = z3.Int(fresh_name("i")), z3.Int(fresh_name("j"))
        R.assume(z3.ForAll([i], z3.Implies(z3.And(0 <= i, i < n), z3.Select(has, ks.z[i])), patterns=[ks.z[i]]))
        R.assume(z3.ForAll([x], z3.Implies(z3.Select(has, x), z3.And(0 <= pos(x), pos(x) < n, ks.z[pos(x)] == x)), patterns=[z3.Select(has, x)]))
        R.assume(z3.ForAll([i, j], z3.Implies(z3.And(0 <= i, i < j, j < n), ks.z[i] != ks.z[j])))

    def assume_cnt_wf(self, R, content, cnt):
        """link between a sequence and its ghost multiset count, in E-matching friendly index form:
        counts are >= 0; every element has count >= 1; every value with count >= 1 occurs at some
        index (skolem function)."""
        et = content.t.elem
        x = z3.Const(fresh_name("x"), et.sort())
        k = z3.Int(fresh_name("k"))
        n = z3.Length(content.z)
        wit = z3.Function(fresh_name("wit"), et.sort(), z3.IntSort())
        R.assume(z3.ForAll([x], z3.Select(cnt, x) >= 0, patterns=[z3.Select(cnt, x)]))
        R.assume(z3.ForAll([k], z3.Implies(z3.And(0 <= k, k < n), z3.Select(cnt, content.z[k]) >= 1), patterns=[content.z[k]]))
        R.assume(z3.ForAll([x], z3.Implies(z3.Select(cnt, x) >= 1, z3.And(0 <= wit(x), wit(x) < n, content.z[wit(x)] == x)),
                           patterns=[z3.Select(cnt, x)]))

    def note_violation_flag(self, R, flag, node):
        self.add_obligation(R, "flag", flag, z3.BoolVal(False), clause=flag, line=node.lineno)
        raise PathEnd()

    def as_ctxmgr(self, R, cmv, node, frame):
        if cmv.is_const and isinstance(cmv.z, models.CtxMgr):
            return cmv.z
        h = self.c.hooks.get("ctxmgr")
        if h:
            cm = h(R, cmv, node, frame)
            if cm is not None:
                return cm
        if cmv.t.kind == "opaque" and cmv.t.name in ("file", "lock"):
            ctxv = self

            class _CM(models.CtxMgr):
                def enter(self, R2):
                    return cmv

                def exit(self, R2, exc):
                    if cmv.t.name == "file":
                        ctxv.emit(R2, "close", [cmv], node)
                    return False

            return _CM()
        raise Unsupported("with-statement over %r" % (cmv,))

    def emit_log(self, R, evname, val):
        if val.t.kind == "lref":
            val = R.lref_value(val)  # an object in a list slot is logged by its current value
        st = T.Seq(val.t)
        cur = R.ghost.get(("log", evname))
        if cur is None:
            cur = V(st, z3.Empty(st.sort()))
        R.ghost[("log", evname)] = V(st, z3.Concat(cur.z, z3.Unit(val.z)))

    def emit(self, R, evname, args, node):
        """append an event to the effect trace (and its log)"""
        R.trace.append(Event(evname, args, {}))
        if args and not args[0].is_const and not args[0].t.heap:
            lt = args[0].t
            st = T.Seq(lt)
            cur = R.ghost.get(("log", evname))
            if cur is None:
                cur = V(st, z3.Empty(st.sort()))
            if cur.t == st:
                R.ghost[("log", evname)] = V(st, z3.Concat(cur.z, z3.Unit(args[0].z)))
        h = self.c.hooks.get("event")
        if h:
            h(R, R.trace[-1], node)

    def on_yield(self, R, frame, val, ynode):
        h = self.c.hooks.get("yield")
        if h:
            return h(R, frame, val, ynode)
        frame.yielded.append(val)
        return mk_none()

    # ------------------------------------------------------------------ globals
    def lookup_global(self, R, name):
        if name in R.globals_:
            return R.globals_[name]
        return None

    def set_global(self, R, name, val):
        R.globals_[name] = val

    def entry_heap_for(self, R):
        return R.entry_heap

    def spec_base_env(self, R):
        e = dict(R.base_env)
        for gk, gv in R.globals_.items():
            if gk not in self.c.params:
                e[gk] = gv
        return e

    # ------------------------------------------------------------------ symbolic allocation
    def alloc_symbolic(self, R, ty, name):
        k = ty.kind
        if k == "list":
            c = V(ty.content(), z3.Const(name, ty.content().sort()))
            r = R.alloc(ty, c)
            if ty.counted:
                cnt = z3.Const(name + ".cnt", z3.ArraySort(ty.elem.sort(), z3.IntSort()))
                R.heap[r.z].ghost = {"cnt": cnt}
                self.assume_cnt_wf(R, c, cnt)
            return r
        if k == "dict":
            c = V(ty.content(), z3.Const(name, ty.content().sort()))
            r = R.alloc(ty, c)
            sz = z3.Int(name + ".size")
            R.assume(sz >= 0)
            g = {"size": sz}
            if ty.ordered:
                kt = T.Seq(ty.k)
                ks = V(kt, z3.Const(name + ".keys", kt.sort()))
                g["keys"] = ks
                self.assume_keys_wf(R, c, ks)
                R.assume(z3.Length(ks.z) == sz)
            R.heap[r.z].ghost = g
            return r
        if k == "set":
            c = V(ty.content(), z3.Const(name, ty.content().sort()))
            r = R.alloc(ty, c)
            sz = z3.Int(name + ".size")
            R.assume(sz >= 0)
            R.heap[r.z].ghost = {"size": sz}
            return r
        if k == "drec":
            fields = {}
            r = R.alloc(ty, fields)
            for fn_, ft in ty.fields.items():
                if ft.heap:
                    fields[fn_] = self.alloc_symbolic(R, ft, "%s[%s]" % (name, fn_))
                else:
                    fields[fn_] = V(ft, z3.Const("%s[%s]" % (name, fn_), ft.sort()))
            for o_ in ty.optional:
                fields["has_" + o_] = V(T.Bool, z3.Bool("%s[has_%s]" % (name, o_)))
            return r
        if k == "obj":
            fields = {}
            r = R.alloc(ty, fields)
            for fn_, ft in ty.fields.items():
                if ft is T.Const:
                    continue
                if fn_ in ty.optional:
                    fields["__missing_" + fn_] = V(T.Bool, z3.Bool("%s.%s?missing" % (name, fn_)))
                if ft.kind == "nullable":
                    fields[fn_] = V(ft, (z3.Bool("%s.%s?none" % (name, fn_)), self.alloc_symbolic(R, ft.inner, "%s.%s" % (name, fn_))))
                elif ft.heap:
                    fields[fn_] = self.alloc_symbolic(R, ft, "%s.%s" % (name, fn_))
                else:
                    fields[fn_] = V(ft, z3.Const("%s.%s" % (name, fn_), ft.sort()))
            return r
        raise EngineError("alloc_symbolic(%s)" % ty)

    def symbolic_value(self, R, ty, name):
        if isinstance(ty, T.Ty) and ty.kind == "nullable":
            return V(ty, (z3.Bool(name + "?none"), self.alloc_symbolic(R, ty.inner, name)))
        if isinstance(ty, T.Ty):
            if ty.heap:
                return self.alloc_symbolic(R, ty, name)
            return V(ty, z3.Const(name, ty.sort()))
        return R.lift(ty)  # python constant

    # ------------------------------------------------------------------ obligations
    def path_id(self, R):
        s = "/".join(R.labels)
        if len(s) > 70:
            s = hashlib.sha1(s.encode()).hexdigest()[:8] + ".." + s[-56:]
        return s or "-"

    def add_obligation(self, R, kind, label, goal, clause="", line=None, meta=None):
        name = "%s/%s/%s[%s]@%s" % (self.c.prop, self.short, kind, label, self.path_id(R))
        if name in self.obligations:
            return
        ob = Obligation(name, kind, label, "/".join(R.labels), list(R.pc), goal, clause=clause,
                        line=(line - self.base_line) if line else None, meta=meta or {})
        ob.bounded = R.bounded
        ob.inputs = R.inputs
        ob.R = R
        self.obligations[name] = ob

    # ------------------------------------------------------------------ calls
    def find_contract(self, name, recv_cls=None):
        # explicit mapping first
        cands = [name]
        if recv_cls:
            cands = ["%s.%s" % (recv_cls, name), "self." + name]
        for cn in cands:
            if cn in self.c.calls:
                tgt = self.c.calls[cn]
                if tgt is None:
                    return None
                c = REGISTRY.get((self.c.prop, tgt))
                if c is None:
                    for (p, t), cc in REGISTRY.items():
                        if t == tgt or cc.key == tgt:
                            c = cc
                            break
                if c is None:
                    raise EngineError("contract for %s not registered" % tgt)
                return c
        # same file, same simple name / Class.method
        for (p, t), cc in REGISTRY.items():
            if p != self.c.prop or cc.variant_id:
                continue
            f, q = t.split("::")
            if f != self.relpath:
                continue
            if recv_cls:
                if q == "%s.%s" % (recv_cls, name):
                    return cc
            elif q == name:
                return cc
        return None

    def ext_key(self, name, args):
        """externals may be specialised on a literal first argument:  Env.get("XONSH_DEBUG")"""
        if args and isinstance(args[0], V) and args[0].t.kind == "str":
            z = zsimp(args[0].z)
            if z3.is_string_value(z):
                k2 = '%s("%s")' % (name, z.as_string())
                if k2 in self.c.externals:
                    return k2
        return name if name in self.c.externals else None

    def call_opaque_method(self, R, recv, mname, args, kwargs, node):
        key = self.ext_key("%s.%s" % (recv.t.name, mname), args)
        if key is None:
            raise Unsupported("call to undeclared method %s.%s (line %s)" % (recv.t.name, mname, getattr(node, "lineno", "?")))
        return self.apply_ext(R, key, self.c.externals[key], args, kwargs, node, None, recv=recv)

    def opaque_attr(self, R, base, attr, node):
        key = "%s.%s" % (base.t.name, attr)
        ext = self.c.externals.get(key)
        if ext is not None and getattr(ext, "is_attr", False):
            return self.apply_ext(R, key, ext, [], {}, node, None, recv=base)
        return None

    def drec_for(self, rec_ty):
        """the DRec type whose boxed form is rec_ty (from contract config 'records')"""
        for dr in self.c.config.get("records", ()):
            if dr.rec() == rec_ty:
                return dr
        return None

    def log_type(self, evname):
        if evname.startswith("call:"):
            return T.Int  # the implicit per-callee call log of modular calls
        for ext in self.c.externals.values():
            if ext.event == evname and getattr(ext, "log_type", None) is not None:
                return ext.log_type
            if ext.event == evname and ext.log == "const":
                return T.Int
        return T.Str

    def statement_asserts(self, R, node, frame):
        if R.pure:
            return
        seg = None
        for a in self.c.asserts:
            if seg is None:
                seg = self.first_line(node).strip()
            if seg.startswith(a["before"]):
                if "emit" in a:
                    ev, src = a["emit"][0], a["emit"][1]
                    val = R.data(R.spec_eval_in_frame(src, frame, {}))
                    if len(a["emit"]) > 2 and val.t != a["emit"][2]:
                        saved = R.pure
                        R.pure = True
                        try:
                            val = R.coerce(val, a["emit"][2])
                        finally:
                            R.pure = saved
                    self.emit_log(R, ev, val)
                    continue
                try:
                    g = R.truthy(R.spec_eval_in_frame(a["clause"], frame, {}))
                except ClauseVacuous:
                    continue
                self.add_obligation(R, "assert", a["label"], g, clause=a["clause"], line=node.lineno)

    def events_in(self, stmts):
        """event names that the statements may emit (syntactic); None = unknown callee -> all"""
        names = set()
        unknown = False
        for s_ in stmts:
            for n in ast.walk(s_):
                if isinstance(n, ast.Call):
                    try:
                        dn = ast.unparse(n.func)
                    except Exception:
                        dn = ""
                    last = dn.split(".")[-1]
                    hit = False
                    for k, ext in self.c.externals.items():
                        kb = k.split("(")[0]
                        if kb == dn or kb.split(".")[-1] == last:
                            hit = True
                            if ext.event:
                                names.add(ext.event)
                    if not hit:
                        direct = dn == last or dn == "self." + last  # `f(..)` / `self.f(..)`: the callee is identified by its name
                        cc_ = self.find_contract(last)
                        if cc_ is not None and not direct:
                            unknown = True  # `x.y.f(..)`: a same-named contract may or may not be the callee - stay conservative
                            continue
                        if cc_ is None and dn == "self." + last:
                            try:
                                cc_ = self.find_contract(last, recv_cls=self.c.target.split("::")[1].split(".")[0])
                            except EngineError:
                                cc_ = None
                        if cc_ is not None and cc_.emits is not None:
                            names.update(cc_.emits)  # a callee under contract with a declared event frame
                            names.add("call:" + short_target(cc_.target).split("::")[1].split(".")[-1])  # the implicit call log of modular calls
                        elif cc_ is not None or dn.startswith("self."):
                            unknown = True
        return None if unknown else names

    def havoc_logs(self, R, stmts, key):
        evs = self.events_in(stmts)
        for gk in list(R.ghost.keys()):
            if isinstance(gk, tuple) and gk[0] == "log" and (evs is None or gk[1] in evs):
                R.ghost[gk] = fresh(R.ghost[gk].t, "log_" + gk[1].replace(".", "_"))
        if evs is None:
            # a callee whose events are unknown: every declared event may have been emitted (logs not yet started included)
            evs = {ext.event for ext in self.c.externals.values() if ext.event}
        if evs:
            for e in evs:
                if ("log", e) not in R.ghost:
                    st = T.Seq(self.log_type(e))
                    R.ghost[("log", e)] = fresh(st, "log_" + e.replace(".", "_"))

    def call_named(self, R, name, args, kwargs, node, frame):
        ek = self.ext_key(name, args)
        if ek is not None:
            return self.apply_ext(R, ek, self.c.externals[ek], args, kwargs, node, frame)
        if R.pure:
            g = R.base_env.get(name)
            if g is not None and g.is_const and callable(g.z):
                return g.z(R, args, kwargs, node)
        cc = self.find_contract(name)
        if cc is not None and not R.pure:
            return self.modular_call(R, cc, None, args, kwargs, node, frame)
        if name in models.BUILTINS:
            return models.BUILTINS[name](R, args, kwargs, node)
        if name in self.c.inline:
            fd = find_def(self.tree, name)
            if fd is None:
                raise EngineError("inline target %s not found" % name)
            return R.inline_call(Closure(fd, Frame({}, None)), args, kwargs, node)
        short = name.split(".")[-1]
        if short in EXC_BASES and not R.pure:
            return const(Exc(exc_canon(short), args))
        raise Unsupported("call to undeclared name %r (line %s)" % (name, getattr(node, "lineno", "?")))

    def call_method(self, R, recv, mname, args, kwargs, node, frame):
        cls = recv.t.cls if recv.t.kind == "obj" else (recv.t.rec.name if recv.t.kind == "lref" else recv.t.name)
        for key in ("%s.%s" % (cls, mname), "self." + mname):
            ek = self.ext_key(key, args)
            if ek is not None:
                return self.apply_ext(R, ek, self.c.externals[ek], args, kwargs, node, frame, recv=recv)
        cc = self.find_contract(mname, recv_cls=cls)
        if cc is not None:
            return self.modular_call(R, cc, recv, args, kwargs, node, frame)
        raise Unsupported("call to undeclared method %s.%s (line %s)" % (cls, mname, getattr(node, "lineno", "?")))

    def call_opaque(self, R, fn, args, kwargs, node, frame):
        key = "<call:%s>" % (fn.t.name if fn.t.kind == "opaque" else "union")
        if key in self.c.externals:
            return self.apply_ext(R, key, self.c.externals[key], [fn] + list(args), kwargs, node, frame)
        raise Unsupported("call of opaque value %s without %s external" % (fn.t, key))

    def apply_ext(self, R, name, ext, args, kwargs, node, frame, recv=None):
        if ext.model is not None:
            return ext.model(R, args, kwargs, node, frame, recv)
        if name not in [a[0] for a in self.assumed]:
            self.assumed.append((name, ext.note or ("external: ret=%s pure=%s raises=%s" % (ext.ret, ext.pure, ext.raises))))
        env = dict(R.base_env)
        for i, a in enumerate(args):
            env["a%d" % i] = a
        env.update(kwargs)
        env["nargs"] = mk_int(len(args))
        if recv is not None:
            env["recv"] = recv
        if ext.allowed_kwargs is not None and not R.pure:
            extra = sorted(k for k in kwargs if k not in ext.allowed_kwargs)
            if extra:
                self.add_obligation(R, "callpre", "%s.keyword-%s-changes-the-declared-behaviour" % (name, extra[0]), z3.BoolVal(False),
                                    clause="%s is only specified for the keyword arguments %s; called with %s" % (name, list(ext.allowed_kwargs), extra),
                                    line=getattr(node, "lineno", None))
        for rq in ext.requires:
            g = self.spec_in_env(R, rq, env, old_heap=None)
            self.add_obligation(R, "callpre", "%s.%s" % (name, rq[:24]), R.truthy(g), clause=rq, line=getattr(node, "lineno", None))
        if R.pure and (ext.event or ext.raises or ext.havoc):
            raise EngineError("effectful external %s in spec" % name)
        if ext.event:
            R.trace.append(Event(ext.event, args, kwargs))
            li = ext.log if ext.log is not None else 0
            if li == "result":
                pass
            elif li == "recv":
                if recv is not None:
                    self.emit_log(R, ext.event, recv)
            elif li == "const":
                self.emit_log(R, ext.event, mk_int(1))
            elif isinstance(li, tuple) and li[0] == "const":
                self.emit_log(R, ext.event, mk_int(li[1]))  # several externals share one ordered log, told apart by the constant
            elif li < len(args) and not args[li].is_const and not args[li].t.heap and self.log_type(ext.event) is not None and (
                    args[li].t == self.log_type(ext.event) or (args[li].t.kind == "union" and args[li].t.index(self.log_type(ext.event)) is not None)
                    or (self.log_type(ext.event).kind == "union" and self.log_type(ext.event).index(args[li].t) is not None)):
                # (an argument that is a union holding the log's type is narrowed by the path condition; it used to be dropped silently)
                lt = self.log_type(ext.event)
                st = T.Seq(lt)
                cur = R.ghost.get(("log", ext.event))
                if cur is None:
                    cur = V(st, z3.Empty(st.sort()))
                R.ghost[("log", ext.event)] = V(st, z3.Concat(cur.z, z3.Unit(R.coerce(args[li], lt).z)))
            elif isinstance(li, int) and li < len(args) and not args[li].is_const and not args[li].t.heap and self.log_type(ext.event) is not None \
                    and ext.log_type is not None:
                raise EngineError("event %s: argument %d has type %s, the declared log type is %s (the event would not be logged)" % (ext.event, li, args[li].t, self.log_type(ext.event)))
            h = self.c.hooks.get("event")
            if h:
                h(R, R.trace[-1], node)
        if ext.raises and not R.pure:
            opts = ["ok"] + list(ext.raises)
            ch = R.choose(opts, R.lab(node, name + "!"))
            if ch != "ok":
                hr = self.c.hooks.get("event_result")
                if hr and ext.event:
                    hr(R, R.trace[-1], ch, node)
                exact = not ch.endswith("+")
                raise PyRaise(Exc(exc_canon(ch.rstrip("+")), exact=exact, tag="external " + name))
        old = R.snapshot() if ext.havoc else None
        for hx in ext.havoc:
            v = self.spec_in_env(R, hx, env, old_heap=None, frame=frame)
            if not v.t.heap:
                raise EngineError("havoc target %s of external %s is not a heap object" % (hx, name))
            for loc in sorted(R.reachable(v)):
                R.havoc_loc(loc, "hx")
        rt = ext.ret or T.NoneT
        if rt.kind == "none":
            res = mk_none()
        elif ext.pure:
            if rt.heap:
                raise EngineError("pure external with heap result")
            skip = ("obj", "drec", "nullable", "itemref")  # objects do not enter the ghost function

            def _empty_display(a):  # `[]` / `{}` literal defaults (element type never determined) carry no information
                return a.t.kind == "list" and getattr(R.cell(a).ty.elem, "kind", "") == "pending"

            uargs = [a for a in args if not a.is_const and a.t.kind not in skip and not _empty_display(a)] + \
                    [v for v in kwargs.values() if not v.is_const and v.t.kind not in skip and not _empty_display(v)]
            if recv is not None and not recv.is_const and not recv.t.heap:
                uargs = [recv] + uargs
            if ext.args:
                fixed = []
                for a, t in zip(uargs, ext.args):
                    if a.t != t and a.t.kind == "union" and a.t.index(t) is not None:
                        a = V(t, a.t.proj(a.z, t))
                    fixed.append(a)
                uargs = fixed + uargs[len(fixed):]
            res = self.uf_apply(R, ext.uf or name, uargs, rt)
        elif rt.heap:
            res = self.alloc_symbolic(R, rt, fresh_name(name.split(".")[-1]))
        else:
            res = fresh(rt, name.split(".")[-1])
        env["result"] = res
        for en in ext.ensures:
            R.assume(R.truthy(self.spec_in_env(R, en, env, old_heap=old)))
        if ext.bind:
            R.base_env[ext.bind] = res
        if ext.event:
            R.trace[-1].result = res
            hr = self.c.hooks.get("event_result")
            if hr and not R.pure:
                hr(R, R.trace[-1], "ok", node)
        if getattr(ext, "snapshot", None) and ext.snapshot not in R.named_heaps:
            R.named_heaps[ext.snapshot] = R.snapshot()
        if ext.event and ext.log == "result" and not res.t.heap and not res.is_const:
            self.emit_log(R, ext.event, res)
        return res

    def spec_in_env(self, R, src, env, old_heap=None, frame=None, entry_heap=None):
        node = self.parse_clause(src)
        saved = (R.pure, R.spec_env, R.old_heap, R.entry_heap)
        R.pure, R.spec_env, R.old_heap = True, env, None
        if entry_heap is not None or old_heap is not None:
            R.entry_heap = old_heap if old_heap is not None else entry_heap
        try:
            return R.ev(node, frame)
        finally:
            R.pure, R.spec_env, R.old_heap, R.entry_heap = saved

    def callee_signature(self, cc):
        src, tree = load_module_ast(self.repo, cc.target.split("::")[0])
        fd = find_def(tree, cc.target.split("::")[1])
        if fd is None:
            raise EngineError("callee %s not found" % cc.target)
        return fd

    def modular_call(self, R, cc, recv, args, kwargs, node, frame):
        """Call through the callee's contract (never its body)."""
        fd = self.callee_signature(cc)
        f2 = Frame({}, None)
        a2 = list(args)
        if recv is not None:
            a2 = [recv] + a2
        R.bind_params(fd.args, a2, dict(kwargs), f2, Frame({}, None))
        for pn, pt in cc.params.items():
            av = f2.env.get(pn)
            if av is not None and isinstance(pt, T.Ty) and not pt.heap and pt.kind not in ("nullable", "const") \
                    and not av.is_const and av.t != pt and av.t.kind != "nullable" and av.t.kind not in ("obj", "drec"):
                try:
                    # a union-typed actual narrowed to the declared member; a list passed where the
                    # callee's contract speaks about a sequence value
                    f2.env[pn] = R.coerce(R.data(av) if av.t.heap else av, pt)
                except (EngineError, Unsupported):
                    pass
        env = dict(R.base_env)
        # data globals / ghost variables re-bound since entry (an earlier callee's `modifies`, a `global` assignment, a model): the callee's
        # requires, and `old(...)` in its ensures, speak about their value AT THIS CALL (found with with_pushd: two calls in a row)
        cur_globals = {gk: gv for gk, gv in R.globals_.items() if gk not in self.c.params}
        env.update(cur_globals)
        for dname, dsrc in cc.defs.items():
            env[dname] = const(Closure(self.parse_clause(dsrc), None))
        env.update(f2.env)
        env["__old_env__"] = dict(cur_globals, **f2.env)
        cname = short_target(cc.target).split("::")[1]
        # ghost functions of the callee are not instantiated at call sites
        for lbl, rq in cc.requires.items():
            g = self.spec_in_env(R, rq, env)
            self.add_obligation(R, "callpre", "%s.%s" % (cname, lbl), R.truthy(g), clause=rq, line=getattr(node, "lineno", None))
            R.assume(R.truthy(g))
        # termination of recursion: the callee's measure (in its own parameters) is below ours
        if cc is self.c:
            if cc.variant and str(cc.variant).startswith("assumed:"):
                note = ("termination of %s" % cname, "NOT VERIFIED - " + str(cc.variant)[8:].strip())
                if note not in self.assumed:
                    self.assumed.append(note)
            elif not cc.variant:
                self.add_obligation(R, "decreases", cname, z3.BoolVal(False), clause="recursive call without a variant", line=getattr(node, "lineno", None))
            else:
                v1 = R.to_int(self.spec_in_env(R, cc.variant, env))
                self.add_obligation(R, "decreases", cname, z3.And(R.entry_variant >= 0, v1 < R.entry_variant, v1 >= 0), clause="variant: " + cc.variant, line=getattr(node, "lineno", None))
        old = R.snapshot()
        self.emit_log(R, "call:" + cname.split(".")[-1], mk_int(1))
        # raises
        if cc.raises:
            opts = ["ok"]
            conds = {}
            for cls, cond in cc.raises.items():
                cz = R.truthy(self.spec_in_env(R, cond, env)) if cond not in (True, "True") else z3.BoolVal(True)
                conds[cls] = cz
                if R.feasible(cz):
                    opts.append(cls)
            ch = R.choose(opts, R.lab(node, cname + "!")) if len(opts) > 1 else "ok"
            if ch != "ok":
                R.assume(conds[ch])
                self.havoc_modifies(R, cc, env, frame)
                for lbl, en in cc.ensures_exc.items():
                    R.assume(R.truthy(self.spec_in_env(R, en, env, old_heap=old)))
                exact = not ch.endswith("+")
                raise PyRaise(Exc(exc_canon(ch.rstrip("+")), exact=exact, tag="callee " + cname))
            for cls in cc.raises_iff:
                R.assume(z3.Not(conds[cls]))
        self.havoc_modifies(R, cc, env, frame)
        rt = cc.returns or T.NoneT
        if rt.kind == "none":
            res = mk_none()
        elif isinstance(rt, T.Ty) and rt.heap:
            res = self.alloc_symbolic(R, rt, fresh_name(cname + ".ret"))
        else:
            res = fresh(rt, cname + ".ret")
        env["result"] = res
        self.bind_lets(R, cc, env, old)
        saved_named = R.named_heaps
        R.named_heaps = {}  # the callee's own snapshot labels mean nothing here: such clauses are skipped
        # event logs: the callee's clauses speak about the events of *that call* (a fresh delta
        # sequence), which is then appended to the caller's log
        deltas = {}
        for ext in cc.externals.values():
            if ext.event and ext.event not in deltas and (cc.emits is None or ext.event in cc.emits):
                lt = ext.log_type or (T.Int if ext.log == "const" else (ext.args[0] if (ext.log == "recv" and ext.args) else None))
                cur = R.ghost.get(("log", ext.event))
                if lt is None:
                    lt = cur.t.elem if cur is not None else self.log_type(ext.event)
                st = T.Seq(lt)
                deltas[ext.event] = (cur, fresh(st, "dlog_" + ext.event.replace(".", "_")))
                R.ghost[("log", ext.event)] = deltas[ext.event][1]
        # events the callee emits through ghost `asserts` (emit=(event, expression, type)) are events of that call as well; they used to be
        # left out, so a caller's clause over such a log spoke about an always-empty log (found with the seeded change C15-4)
        for a_ in cc.asserts:
            em = a_.get("emit") if isinstance(a_, dict) else None
            if em and em[0] not in deltas and (cc.emits is None or em[0] in cc.emits):
                st = T.Seq(em[2])
                cur = R.ghost.get(("log", em[0]))
                deltas[em[0]] = (cur, fresh(st, "dlog_" + em[0].replace(".", "_")))
                R.ghost[("log", em[0])] = deltas[em[0]][1]
        try:
            for lbl, en in cc.ensures.items():
                try:
                    R.assume(R.truthy(self.spec_in_env(R, en, env, old_heap=old)))
                except ClauseVacuous:
                    continue
        finally:
            R.named_heaps = saved_named
            for e_, (cur, d) in deltas.items():
                R.ghost[("log", e_)] = d if cur is None or cur.t != d.t else V(d.t, z3.Concat(cur.z, d.z))
        for label, callee in self.c.snapshots.items():
            if callee == cname.split(".")[-1] and label not in R.named_heaps:
                R.named_heaps[label] = R.snapshot()
        return res

    def havoc_modifies(self, R, cc, env, frame):
        for mx in cc.modifies:
            node = self.parse_clause(mx)
            if isinstance(node, ast.Name) and node.id in R.globals_ and not R.globals_[node.id].t.heap \
                    and not R.globals_[node.id].is_const and node.id not in env.get("__old_env__", {}).get("__params__", ()):
                R.globals_[node.id] = fresh(R.globals_[node.id].t, node.id)  # a re-bound data global / ghost variable
                env[node.id] = R.globals_[node.id]
                continue
            if isinstance(node, ast.Subscript) and isinstance(node.slice, ast.Constant) and isinstance(node.slice.value, str):
                base = self.spec_in_env(R, ast.unparse(node.value), env)
                if base.t.kind == "drec":
                    key = node.slice.value
                    cell = R.cell(base)
                    R.write_check(base.z)
                    cur = cell.content[key]
                    cell.content[key] = fresh(cur.t, key) if not cur.t.heap else cur
                    if "has_" + key in cell.content:
                        cell.content["has_" + key] = fresh(T.Bool, "has_" + key)
                    continue
            if isinstance(node, ast.Attribute):
                base = self.spec_in_env(R, ast.unparse(node.value), env)
                if base.t.kind == "obj":
                    cur = R.cell(base).content.get(node.attr)
                    dft = base.t.fields.get(node.attr)
                    if dft is not None and dft is not T.Const and dft.kind == "nullable":
                        R.write_check(base.z)
                        R.cell(base).content[node.attr] = self.symbolic_value(R, dft, fresh_name("m." + node.attr))
                        continue
                    if cur is not None and not cur.t.heap and not cur.is_const:
                        R.write_check(base.z)
                        R.cell(base).content[node.attr] = fresh(cur.t, node.attr)
                        continue
            v = self.spec_in_env(R, mx, env)
            if v.t.kind == "none":
                continue
            if not v.t.heap:
                raise EngineError("modifies target %s is not a heap object" % mx)
            for loc in sorted(R.reachable(v)):
                R.havoc_loc(loc, "m")

    def bind_lets(self, R, cc, env, old):
        for k, src in cc.let.items():
            env[k] = self.spec_in_env(R, src, env, old_heap=old)

    # ------------------------------------------------------------------ one path
    def run_one(self, oracle):
        reset_fresh()
        R = Evaluator(self, oracle)
        R.globals_ = {}
        R.base_env = {}
        R.inputs = []
        self.stats["paths"] += 1
        c = self.c
        try:
            frame = Frame({}, None, fn=self.fn)
            # globals
            for gname, gty in c.globals.items():
                v = self.symbolic_value(R, gty, gname)
                R.globals_[gname] = v
                if isinstance(gty, T.Ty):
                    R.inputs.append((gname, v))
            # parameters
            for p, pty in c.params.items():
                v = self.symbolic_value(R, pty, p)
                frame.env[p] = v
                R.inputs.append((p, v))
            # declared aliasing between parameters / fields (A5': none unless the contract says so)
            for aname, asrc in c.config.get("aliases", {}).items():
                R.entry_heap = R.heap
                R.base_env = dict(R.globals_)
                R.base_env.update(frame.env)
                frame.env[aname] = self.spec_in_env(R, asrc, R.base_env)
            R.entry_heap = R.snapshot()
            from .modelval import term_tree
            R.inputs = [(n_, term_tree(R, v_, R.entry_heap)) for n_, v_ in R.inputs]
            R.entry_ghost = dict(R.ghost)
            entry_env = dict(frame.env)
            R.base_env = dict(R.globals_)
            R.base_env.update(entry_env)
            R.base_env["__old_env__"] = dict(R.globals_, **entry_env)
            for dname, dsrc in c.defs.items():
                R.base_env[dname] = const(Closure(self.parse_clause(dsrc), None))
            R.named_heaps = {}
            self.install_ghost_fns(R)
            for lbl, rq in c.requires.items():
                R.assume(R.truthy(self.spec_in_env(R, rq, R.base_env)))
            for lbl, ax in c.axioms.items():
                R.assume(R.truthy(self.spec_in_env(R, ax, R.base_env)))
                note = ("axiom " + lbl, ax)
                if note not in self.assumed:
                    self.assumed.append(note)
            for ox in c.config.get("order_independent", ()):
                ov = self.spec_in_env(R, ox, R.base_env)
                cell = R.heap[ov.z]
                cell.ghost = dict(cell.ghost or {}, order_independent=True)
            R.entry_variant = R.to_int(self.spec_in_env(R, c.variant, R.base_env)) if c.variant and not str(c.variant).startswith("assumed:") else None
            R.n_requires = len(R.pc)
            for gname, gsrc in c.ghost_inputs.items():
                gv = self.spec_in_env(R, gsrc, R.base_env)
                R.inputs.append((gname, term_tree(R, gv, R.entry_heap)))
            if self.is_generator:
                frame.yielded = []
            h = c.hooks.get("entry")
            if h:
                h(R, frame)
            outcome = None
            try:
                R.ex_block(self.fn.body, frame)
                outcome = ("return", mk_none())
            except ReturnEx as r:
                rv = r.value
                if rv.t.kind == "list" and R.cell(rv).ty.elem is PENDING and c.returns is not None and c.returns.kind == "list":
                    rv = R.new_list(c.returns.elem, [])
                outcome = ("return", rv)
            except PyRaise as pr:
                outcome = ("raise", pr.exc)
            except (BreakEx, ContinueEx):
                raise EngineError("break/continue escaped function")
            self.finish(R, frame, outcome)
        except PathEnd:
            pass

    def install_ghost_fns(self, R):
        c = self.c
        for name, g in c.ghost.items():
            fdef = ast.parse(g.src.strip()).body[0]
            fz = z3.Function("g_" + name, *[t.sort() for _, t in g.params], g.ret.sort())

            def apply(R2, args, kw, node, fz=fz, g=g):
                zs = [R2.coerce(a, t).z for a, (_, t) in zip(args, g.params)]
                return V(g.ret, fz(*zs))

            R.base_env[name] = const(apply)
        for name, g in c.ghost.items():
            fdef = ast.parse(g.src.strip()).body[0]
            ret = fdef.body[-1]
            if not isinstance(ret, ast.Return):
                raise EngineError("ghost function must be a single return")
            vars_ = [z3.Const("%s_%s" % (name, pn), t.sort()) for pn, t in g.params]
            env = dict(R.base_env)
            for (pn, t), vz in zip(g.params, vars_):
                env[pn] = V(t, vz)
            saved = (R.pure, R.spec_env)
            R.pure, R.spec_env = True, env
            try:
                body = R.ev(ret.value, None)
            finally:
                R.pure, R.spec_env = saved
            fz = z3.Function("g_" + name, *[t.sort() for _, t in g.params], g.ret.sort())
            ax = z3.ForAll(vars_, fz(*vars_) == R.coerce(body, g.ret).z, patterns=[fz(*vars_)])
            R.assume(ax)
        # lemmas: prove once (on the first run), assume always
        for lem in c.lemmas:
            v = z3.Int("lem_%s_%s" % (lem.name, lem.var))
            env = dict(R.base_env)
            env[lem.var] = mk_int(v)
            lo = R.to_int(self.spec_in_env(R, lem.lo, env))
            hi = R.to_int(self.spec_in_env(R, lem.hi, env))
            body = R.truthy(self.spec_in_env(R, lem.body, env))
            env1 = dict(env)
            env1[lem.var] = mk_int(v + 1)
            body1 = R.truthy(self.spec_in_env(R, lem.body, env1))
            env0 = dict(env)
            env0[lem.var] = mk_int(lo)
            body0 = R.truthy(self.spec_in_env(R, lem.body, env0))
            # requires are not yet assumed here; lemma VCs get them explicitly
            reqs = [R.truthy(self.spec_in_env(R, rq, R.base_env)) for rq in c.requires.values()]
            nm = "lemma:" + lem.name
            key = "%s/%s/lemma[%s.base]@-" % (c.prop, self.short, lem.name)
            if key not in self.obligations:
                ob = Obligation(key, "lemma", lem.name + ".base", "-", list(R.pc) + reqs + [lo <= hi], body0, clause=lem.body)
                ob.bounded = None
                ob.inputs = []
                self.obligations[key] = ob
                key2 = "%s/%s/lemma[%s.step]@-" % (c.prop, self.short, lem.name)
                ob2 = Obligation(key2, "lemma", lem.name + ".step", "-", list(R.pc) + reqs + [lo <= v, v < hi, body], body1, clause=lem.body)
                ob2.bounded = None
                ob2.inputs = []
                self.obligations[key2] = ob2
            R.assume(z3.ForAll([v], z3.Implies(z3.And(lo <= v, v <= hi), body)))

    def finish(self, R, frame, outcome):
        c = self.c
        kind, payload = outcome
        env = dict(R.base_env)
        for gk, gv in R.globals_.items():
            if gk not in c.params:
                env[gk] = gv  # globals re-bound by the function (e.g. `global DIRSTACK`; ghost CWD)
        env["trace"] = const(("trace", R.trace))
        if self.is_generator:
            env["yielded"] = const(tuple(frame.yielded))
        h = c.hooks.get("finish")
        if h:
            h(R, frame, outcome, env)
        if kind == "return":
            R.labels.append("ret")
            env["result"] = payload
            self.bind_lets(R, c, env, R.entry_heap)
            for cls in c.raises_iff:
                cond = c.raises[cls]
                cz = R.truthy(self.spec_in_env(R, cond, env, entry_heap=R.entry_heap))
                self.add_obligation(R, "must-raise", cls, z3.Not(self._old(R, cond, env)), clause="returns normally although: " + cond)
            for lbl, en in c.ensures.items():
                try:
                    g = R.truthy(self.spec_in_env(R, en, env))
                except ClauseVacuous:
                    continue
                # listed known findings: the obligation is proved for every input OUTSIDE the listed class,
                # so a different violation of the same clause is still reported
                for kf in getattr(c, "known", []) or []:
                    if kf.get("label") == lbl and kf.get("class"):
                        g = z3.Or(self._old(R, kf["class"], env), g)
                self.add_obligation(R, "ensures", lbl, g, clause=en)
            for lbl, en in c.ensures_locals.items():
                try:
                    names = {n.id for n in ast.walk(self.parse_clause(en)) if isinstance(n, ast.Name)}
                    if any(frame.lookup(n) is UNDEFINED or (n in c.locals and frame.lookup(n) is None) for n in names):
                        continue
                    g = R.truthy(R.spec_eval_in_frame(en, frame, {"result": payload}))
                except ClauseVacuous:
                    continue
                except Unsupported:
                    continue
                self.add_obligation(R, "ensures", lbl, g, clause=en)
            self.frame_events(R)
            self.frame_heap(R, env)
        else:
            exc = payload
            R.labels.append("raise:" + exc.cls)
            allowed = None
            for cls, cond in c.raises.items():
                base = cls.rstrip("+")
                if exc_subclass(exc.cls, exc_canon(base)) and (exc.exact or cls.endswith("+") or True):
                    allowed = cond
                    break
            if allowed is None:
                self.add_obligation(R, "no-exception", exc.cls, z3.BoolVal(False),
                                    clause="%s%s escapes (%s) but the contract allows no such exception" % (exc.cls, "" if exc.exact else " (or a subclass)", exc.tag))
            else:
                if allowed not in (True, "True"):
                    self.add_obligation(R, "raises", exc.cls, self._old(R, allowed, env), clause="%s only when: %s" % (exc.cls, allowed))
                env["exc"] = const(exc)
                for lbl, en in c.ensures_exc.items():
                    try:
                        g = R.truthy(self.spec_in_env(R, en, env))
                    except ClauseVacuous:
                        continue
                    self.add_obligation(R, "ensures-exc", lbl, g, clause=en)
                for lbl, en in c.ensures_exc_locals.items():
                    try:
                        names = {n.id for n in ast.walk(self.parse_clause(en)) if isinstance(n, ast.Name)}
                        if any(frame.lookup(n) is UNDEFINED or (n in c.locals and frame.lookup(n) is None) for n in names):
                            continue
                        g = R.truthy(R.spec_eval_in_frame(en, frame, {"exc": const(exc)}))
                    except (ClauseVacuous, Unsupported):
                        continue
                    self.add_obligation(R, "ensures-exc", lbl, g, clause=en)
            self.frame_heap(R, env)

    # ------------------------------------------------------------------ heap frame (`modifies`)
    def _entry_eval(self, R, src, env):
        e = dict(env)
        e.update(env.get("__old_env__", {}))
        s2 = (R.pure, R.spec_env, R.old_heap)
        R.pure, R.spec_env, R.old_heap = True, e, R.entry_heap
        try:
            return R.ev(self.parse_clause(src), None)
        finally:
            R.pure, R.spec_env, R.old_heap = s2

    def _reachable_in(self, heap, v):
        out, stack = set(), [v]
        while stack:
            x = stack.pop()
            if not isinstance(x, V) or x.is_const or not x.t.heap or x.z in out or x.z not in heap:
                continue
            out.add(x.z)
            cc = heap[x.z].content
            if isinstance(cc, dict):
                stack.extend(cc.values())
        return out

    def frame_heap(self, R, env):
        """`modifies` is a checked frame: every heap cell that existed on entry and every data global keeps its entry content unless a
        `modifies` target covers it (a whole object with what it reaches, one attribute, one record key, one global name).  This is what a
        CALLER relies on when it havocs only the callee's `modifies`."""
        c = self.c
        if c.config.get("frame") == "unchecked":
            note = ("frame unchecked", c.config.get("frame_reason", "the contract's modifies clause is not checked against the body"))
            if note not in self.assumed:
                self.assumed.append(note)
            return
        entry = R.entry_heap
        allowed_locs, allowed_fields, allowed_globals = set(), set(), set()
        for mx in c.modifies:
            node = self.parse_clause(mx)
            if isinstance(node, ast.Name) and node.id in R.globals_ and not R.globals_[node.id].t.heap:
                allowed_globals.add(node.id)
                continue
            try:
                if isinstance(node, ast.Subscript) and isinstance(node.slice, ast.Constant) and isinstance(node.slice.value, str):
                    base = self._entry_eval(R, ast.unparse(node.value), env)
                    if base.t.kind == "drec":
                        allowed_fields.add((base.z, node.slice.value))
                        allowed_fields.add((base.z, "has_" + node.slice.value))
                        cur = entry[base.z].content.get(node.slice.value)
                        if isinstance(cur, V) and not cur.is_const and cur.t.heap:
                            allowed_locs |= self._reachable_in(entry, cur)
                        continue
                if isinstance(node, ast.Attribute):
                    base = self._entry_eval(R, ast.unparse(node.value), env)
                    if base.t.kind == "obj":
                        allowed_fields.add((base.z, node.attr))
                        cur = entry[base.z].content.get(node.attr)
                        if isinstance(cur, V) and not cur.is_const and cur.t.heap:
                            allowed_locs |= self._reachable_in(entry, cur)
                        continue
                v = self._entry_eval(R, mx, env)
            except (EngineError, Unsupported, ClauseVacuous, KeyError):
                continue
            if not v.is_const and v.t.heap:
                allowed_locs |= self._reachable_in(entry, v)
        # access paths (for stable obligation names)
        names = {}
        roots = [(n_, v_) for n_, v_ in sorted(env.get("__old_env__", {}).items()) if isinstance(v_, V)]
        queue = [(n_, v_) for n_, v_ in roots if not v_.is_const and v_.t.heap]
        while queue:
            nm, v = queue.pop(0)
            if v.z in names or v.z not in entry:
                continue
            names[v.z] = nm
            cc = entry[v.z].content
            if isinstance(cc, dict):
                for k in sorted(cc, key=str):
                    fv = cc[k]
                    if isinstance(fv, V) and not fv.is_const and fv.t.heap:
                        queue.append(("%s.%s" % (nm, k), fv))

        def same(a, b):
            if a is b:
                return True
            if not isinstance(a, V) or not isinstance(b, V):
                return a == b
            if a.is_const or b.is_const:
                return a.is_const and b.is_const and (a.z is b.z or a.z == b.z)
            if a.t.heap or b.t.heap:
                return a.t.heap and b.t.heap and a.z == b.z
            return a.t == b.t and z3.is_ast(a.z) and z3.is_ast(b.z) and a.z.eq(b.z)

        def differ(a, b):
            """z3 condition `unchanged`"""
            if not isinstance(a, V) or not isinstance(b, V) or a.is_const or b.is_const or a.t.heap or b.t.heap:
                return z3.BoolVal(False)
            try:
                return R.eq(a, b)
            except (EngineError, Unsupported):
                return z3.BoolVal(False)

        for loc in sorted(entry):
            if loc in allowed_locs or loc not in R.heap:
                continue
            oc, nc = entry[loc], R.heap[loc]
            nm = names.get(loc, "<%s>" % (oc.ty,))
            if isinstance(oc.content, dict):
                for k in sorted(oc.content, key=str):
                    if (loc, k) in allowed_fields:
                        continue
                    ov, nv = oc.content[k], nc.content.get(k) if isinstance(nc.content, dict) else None
                    if same(ov, nv):
                        continue
                    self.add_obligation(R, "frame", "unchanged:%s.%s" % (nm, k), differ(ov, nv),
                                        clause="%s.%s is not in `modifies`: it keeps its entry value" % (nm, k))
            else:
                ov, nv = oc.content, nc.content
                if same(ov, nv):
                    continue
                self.add_obligation(R, "frame", "unchanged:%s" % nm, differ(ov, nv),
                                    clause="%s is not in `modifies`: it keeps its entry content" % nm)
        old_env = env.get("__old_env__", {})
        for gk, gv in sorted(R.globals_.items()):
            if gk in allowed_globals or gk in c.params or gv.is_const or gv.t.heap:
                continue
            ov = old_env.get(gk)
            if ov is None or same(ov, gv):
                continue
            self.add_obligation(R, "frame", "unchanged:%s" % gk, differ(ov, gv), clause="global %s is not in `modifies`: it keeps its entry value" % gk)

    def frame_events(self, R):
        c = self.c
        if c.emits is None:
            return
        for ev in sorted({e.event for e in c.externals.values() if e.event}):
            if ev not in c.emits:
                lg = R.ghost.get(("log", ev))
                g = z3.BoolVal(True) if lg is None else z3.Length(lg.z) == 0
                self.add_obligation(R, "frame", "emits-no-" + ev, g, clause="event %s is not in `emits`" % ev)

    def _old(self, R, src, env):
        """evaluate a condition over the entry state"""
        saved = R.old_heap
        node = self.parse_clause(src)
        e = dict(env)
        e.update(env.get("__old_env__", {}))
        s2 = (R.pure, R.spec_env, R.old_heap)
        R.pure, R.spec_env, R.old_heap = True, e, R.entry_heap
        try:
            return R.truthy(R.ev(node, None))
        finally:
            R.pure, R.spec_env, R.old_heap = s2

    def model_eval(self, ob, src):
        """value of a spec expression over the ENTRY state under the obligation's counter-model"""
        from . import modelval

        R = ob.R
        e = dict(R.base_env)
        s2 = (R.pure, R.spec_env, R.old_heap)
        R.pure, R.spec_env, R.old_heap = True, e, R.entry_heap
        try:
            v = R.freeze(R.ev(self.parse_clause(src), None))
        finally:
            R.pure, R.spec_env, R.old_heap = s2
        return modelval.conv(ob.model, v.t, v.z)

    # ------------------------------------------------------------------ driver
    def generate(self, budget_s=None):
        t0 = time.time()
        explore(self.run_one, budget_s=budget_s)
        self.stats["gen_s"] = time.time() - t0
        if self.bounded_notes:
            why = "; ".join("loop %s unrolled %d times (no invariant)" % kv for kv in sorted(self.bounded_notes.items()))
            for ob in self.obligations.values():
                ob.bounded = why
        return list(self.obligations.values())
