"""Expression and statement evaluation (exec mode and pure/spec mode)."""
import ast
import z3
from . import ty as T
from .core import *  # noqa
from .core import V, Exc, Cell, Event, Obligation, DottedName, BoundMethod, Closure, Sentinel
from .interp import Run, Frame, Iter, zsimp, is_true, is_false, NUMERIC, nth, has_quant, cheap_truth


def kindp(*kinds):
    return lambda t: t.kind in kinds


class Evaluator(Run):
    # ================================================================== expressions
    def ev(self, node, frame):
        m = getattr(self, "ev_" + type(node).__name__, None)
        if m is None:
            raise Unsupported("expression %s (line %s)" % (type(node).__name__, getattr(node, "lineno", "?")))
        return m(node, frame)

    def lab(self, node, what=""):
        return "%sL%d" % (what, getattr(node, "lineno", 0) - self.ctx.base_line)

    def ev_Constant(self, node, frame):
        v = node.value
        if v is Ellipsis:
            return const(Ellipsis)
        return self.lift(v)

    def ev_Name(self, node, frame):
        name = node.id
        v = frame.lookup(name) if frame is not None else None
        if v is None and self.pure and self.spec_env is not None and name in self.spec_env:
            return self.unnull(self.spec_env[name], name)
        if v is not None:
            if v is UNDEFINED:
                raise Unsupported("use of possibly-unbound local %r" % name)
            return self.unnull(v, name)
        g = self.ctx.lookup_global(self, name)
        if g is not None:
            return self.unnull(g, name)
        if not self.pure:
            self.ctx.check_not_memoised(self, name, node)
        return const(DottedName(name))

    def unnull(self, v, label):
        if v.t.kind != "nullable":
            return v
        flag, ref = v.z
        if self.pure:
            if not self.feasible(flag):
                return ref
            if not self.feasible(z3.Not(flag)):
                return mk_none()
            # undecided on this path: clauses guard such uses with `x is not None and ...`; the logic is
            # total, so the reference stands for the guarded case
            return ref
        return mk_none() if self.decide(flag, label + "?none") else ref

    def ev_Attribute(self, node, frame):
        base = self.ev(node.value, frame)
        return self.getattr(base, node.attr, node)

    def getattr(self, base, attr, node=None):
        if base.is_const:
            o = base.z
            if isinstance(o, DottedName):
                full = o.name + "." + attr
                g = self.ctx.lookup_global(self, full)
                if g is not None:
                    return g
                return const(DottedName(full))
            return const(BoundMethod(base, attr))
        if base.t.kind == "obj":
            cell = self.cell(base) if self.old_heap is None else self.old_heap[base.z]
            if attr in cell.content:
                miss = cell.content.get("__missing_" + attr)
                if miss is not None:
                    self.fail_if(miss.z, "AttributeError", self.lab(node, "attr." + attr))
                return self.unnull(cell.content[attr], attr)
            return const(BoundMethod(base, attr))
        if base.t.kind == "opaque":
            r = self.ctx.opaque_attr(self, base, attr, node)
            if r is not None:
                return r
            return const(BoundMethod(base, attr))
        if base.t.kind == "lref":
            pg = self.ctx.property_def(base.t.rec.name, attr, "getter")
            if pg is not None and not self.pure:
                return self.inline_call(Closure(pg, Frame({}, None)), [base], {}, node)
            if attr not in base.t.rec.fields:
                return const(BoundMethod(base, attr))
            return self.getattr(self.lref_value(base, self.old_heap), attr, node)
        if base.t.kind == "rec" and getattr(base.t, "objlike", False) and attr not in base.t.fields:
            pg = self.ctx.property_def(base.t.name, attr, "getter")
            if pg is not None:
                return self.inline_call(Closure(pg, Frame({}, None)), [base], {}, node)
        if base.t.kind == "rec" and attr in base.t.fields:
            if "has_" + attr in base.t.fields:
                self.fail_if(z3.Not(base.t.get(base.z, "has_" + attr)), "AttributeError", self.lab(node, "attr." + attr))
            return V(base.t.fields[attr], base.t.get(base.z, attr))
        if base.t.kind == "union":
            objm = [m for m in base.t.members if m.kind in ("rec",) and attr in m.fields]
            if objm:
                p = self.project(base, lambda t: t in objm, self.lab(node, "attr."), exc="AttributeError")
                return self.getattr(p, attr, node)
            nn = [m for m in base.t.members if m.kind != "none"]
            if len(nn) == 1:
                p = self.project(base, lambda t: t == nn[0], self.lab(node, "attr."), exc="AttributeError")
                return self.getattr(p, attr, node)
        if base.t.kind == "none" and not self.pure:
            raise PyRaise(Exc("AttributeError", tag=self.lab(node, "attr.")))
        return const(BoundMethod(base, attr))

    def ev_Tuple(self, node, frame):
        vals = []
        for e in node.elts:
            if isinstance(e, ast.Starred):
                raise Unsupported("starred in tuple display")
            vals.append(self.ev(e, frame))
        if any(v.t.heap and v.t.kind == "obj" or v.t is T.Const for v in vals):
            return const(tuple(vals))  # python-level tuple of values (only for unpacking / args)
        return self.mk_tuple(vals)

    def ev_List(self, node, frame):
        vals = []
        for e in node.elts:
            if isinstance(e, ast.Starred):
                sv = self.ev(e.value, frame)
                vals.append(("*", sv))
            else:
                ev_ = self.ev(e, frame)
                if ev_.t.kind == "union" and not self.pure:
                    ev_ = self.narrow(ev_)
                vals.append(("1", self.data(ev_)))
        hint = self.ctx.type_hint(node)
        elem = hint.elem if hint is not None else None
        if elem is None:
            for k, v in vals:
                et = v.t if k == "1" else self.as_seq(v).t.elem
                if elem is None:
                    elem = et
                elif elem != et:
                    elem = T.Union(elem, et)
        if elem is None:
            elem = PENDING
        if self.pure:
            st = T.Seq(elem)
            s = z3.Empty(st.sort())
            for k, v in vals:
                s = z3.Concat(s, z3.Unit(self.coerce(v, elem).z)) if k == "1" else z3.Concat(s, self.as_seq(v).z)
            return V(st, s)
        if elem is PENDING:
            return self.alloc(T.List(PENDING), None)
        lt = T.List(elem, counted=bool(hint is not None and getattr(hint, "counted", False)))
        s = z3.Empty(lt.content().sort())
        for k, v in vals:
            if k == "1":
                s = z3.Concat(s, z3.Unit(self.coerce(v, elem).z))
            else:
                s = z3.Concat(s, self.coerce(self.as_seq(v), T.Seq(elem)).z)
        return self.alloc(lt, V(lt.content(), s))

    def ev_Set(self, node, frame):
        vals = [self.data(self.ev(e, frame)) for e in node.elts]
        hint = self.ctx.type_hint(node)
        et = hint.elem if hint is not None and hint.kind == "set" else vals[0].t
        if et.kind == "union" and all(v.t == vals[0].t for v in vals) and vals[0].t.kind != "union":
            et = vals[0].t
        if vals[0].t.kind == "union":
            # a word that may be a string: sets under contract are sets of strings
            nn = [m for m in vals[0].t.members if m.kind == "str"]
            if nn:
                et = nn[0]
        st = T.VSet(et)
        z = z3.K(et.sort(), z3.BoolVal(False))
        for v in vals:
            z = z3.Store(z, self.coerce(v, et).z, z3.BoolVal(True))
        return V(st, z)

    def ev_Dict(self, node, frame):
        from . import models

        hint = self.ctx.type_hint(node)
        if hint is not None and hint.kind == "drec":
            fields = {}
            r = self.alloc(hint, fields)
            given = {}
            for k, v in zip(node.keys, node.values):
                if not (isinstance(k, ast.Constant) and isinstance(k.value, str)):
                    raise Unsupported("record display with a non-literal key")
                given[k.value] = v
            for fn_, ft in hint.fields.items():
                if fn_ in given:
                    self.ctx.hint_stack.append(ft if ft.heap else None)
                    try:
                        val = self.ev(given[fn_], frame)
                    finally:
                        self.ctx.hint_stack.pop()
                    fields[fn_] = val if ft.heap else self.coerce(self.data(val), ft)
                elif fn_ in hint.optional:
                    fields[fn_] = self.ctx.alloc_symbolic(self, ft, fresh_name(fn_)) if ft.heap else fresh(ft, fn_)
                else:
                    raise Unsupported("record display lacks required key %r" % fn_)
            for o_ in hint.optional:
                fields["has_" + o_] = mk_bool(o_ in given)
            for extra in given:
                if extra not in hint.fields and extra not in self.ctx.c.config.get("untracked_keys", ()):
                    raise Unsupported("record display with untracked key %r" % extra)
            return r
        if hint is None or hint.kind != "dict":
            raise Unsupported("dict display without a declared type (line %s)" % node.lineno)
        d = models.new_dict(self, hint)
        for k, v in zip(node.keys, node.values):
            if k is None:
                raise Unsupported("** in dict display")
            models.dict_setitem(self, d, self.ev(k, frame), self.ev(v, frame))
        return d

    def ev_JoinedStr(self, node, frame):
        # f-string: concrete parts kept, formatted values become uninterpreted strings of their
        # argument (they only build messages in the functions under contract) unless plain str.
        parts = []
        for p in node.values:
            if isinstance(p, ast.Constant):
                parts.append(mk_str(p.value))
            else:
                val = self.ev(p.value, frame)
                if val.t.kind == "str" and p.conversion == -1 and p.format_spec is None:
                    parts.append(val)
                elif val.is_const or val.t.heap or val.t.kind == "nullable":
                    parts.append(self.ctx.uf_apply(self, "fmtconst%d" % (id(p) % 100000), [], T.Str))
                else:
                    parts.append(self.ctx.uf_apply(self, "fmt", [val], T.Str))
        if not parts:
            return mk_str("")
        z = parts[0].z
        for p in parts[1:]:
            z = z3.Concat(z, p.z)
        return V(T.Str, z)

    def ev_UnaryOp(self, node, frame):
        v = self.ev(node.operand, frame)
        if isinstance(node.op, ast.Not):
            return mk_bool(z3.Not(self.truthy(v)))
        v = self.project(v, kindp(*NUMERIC), self.lab(node, "neg"))
        if isinstance(node.op, ast.USub):
            if v.t.kind == "real":
                return V(T.Real, -v.z)
            return V(T.Int, -self.to_int(v))
        if isinstance(node.op, ast.UAdd):
            return v
        raise Unsupported("unary op")

    def ev_BoolOp(self, node, frame):
        is_and = isinstance(node.op, ast.And)
        if self.pure:
            vals = []
            pushed = 0
            try:
                return self._pure_boolop(node, frame, is_and, vals)
            finally:
                for _ in range(getattr(self, "_boolop_pushed", {}).pop(id(node), 0)):
                    self.solver.pop()
        return self._exec_boolop(node, frame, is_and)

    def _pure_boolop(self, node, frame, is_and, vals):
        if True:
            for x in node.values:
                # later operands are evaluated under the earlier ones (python would not evaluate them otherwise): narrows unions
                if vals and vals[-1].t.kind == "bool" and not has_quant(vals[-1].z):
                    self.solver.push()
                    self.solver.add(zsimp(vals[-1].z if is_and else z3.Not(vals[-1].z)))
                    d = self.__dict__.setdefault("_boolop_pushed", {})
                    d[id(node)] = d.get(id(node), 0) + 1
                try:
                    v = self.ev(x, frame)
                except EngineError:
                    # a partial operand: harmless if an earlier operand already decides the result
                    # under the path condition (python would not have evaluated it)
                    # (the earlier operands are assumed - for `or`: their negations - so this asks whether the operand is reachable at all)
                    if vals and not self.context_feasible():
                        return mk_bool(not is_and)
                    raise
                vals.append(v)
                if v.t.kind == "bool":
                    zs = zsimp(v.z)
                    # short-circuit on a literally decided operand (guards partial sub-clauses)
                    if (z3.is_false(zs) and is_and) or (z3.is_true(zs) and not is_and):
                        return mk_bool(not is_and)
            if all(v.t.kind == "bool" for v in vals):
                return mk_bool((z3.And if is_and else z3.Or)([v.z for v in vals]))
            res = vals[-1]
            for v in reversed(vals[:-1]):
                if v.t != res.t:
                    raise EngineError("spec BoolOp over different types")
                res = V(res.t, z3.If(self.truthy(v), res.z, v.z) if is_and else z3.If(self.truthy(v), v.z, res.z))
            return res

    def _exec_boolop(self, node, frame, is_and):
        v = None
        for i, x in enumerate(node.values):
            v = self.ev(x, frame)
            if i == len(node.values) - 1:
                break
            t = self.decide(self.truthy(v), self.lab(x, "and" if is_and else "or"))
            if is_and and not t:
                return self.narrow(v)
            if not is_and and t:
                return self.narrow(v)
        return v

    def narrow(self, v):
        """a union value whose tag the path condition already determines -> that member"""
        if v.t.kind != "union":
            return v
        feas = [m for m in v.t.members if self.feasible(v.t.is_(v.z, m))]
        if len(feas) == 1:
            m = feas[0]
            return mk_none() if m.kind == "none" else V(m, v.t.proj(v.z, m))
        if 1 < len(feas) < len(v.t.members):
            u = T.Union(*feas)
            res = None
            for m in reversed(feas):
                inj = u.inject(m, v.t.proj(v.z, m))
                res = inj if res is None else z3.If(v.t.is_(v.z, m), inj, res)
            return V(u, res)
        return v

    def ev_IfExp(self, node, frame):
        c = self.ev(node.test, frame)
        if self.pure:
            tz = self.truthy(c)
            ct = cheap_truth(tz)
            if ct is None and isinstance(node.test, ast.Compare) and isinstance(node.test.ops[0], (ast.Is, ast.IsNot)):
                # `x if y is not None else z` over a reference the path has already resolved: only one branch is meaningful
                if not self.feasible(z3.Not(tz)):
                    ct = True
                elif not self.feasible(tz):
                    ct = False
            if ct is True:
                return self.ev(node.body, frame)
            if ct is False:
                return self.ev(node.orelse, frame)
            a = self.ev(node.body, frame)
            b = self.ev(node.orelse, frame)
            if a.t != b.t:
                u = T.Union(a.t, b.t) if not (a.t.heap or b.t.heap) else None
                if u is None:
                    raise EngineError("spec IfExp over different heap types")
                a, b = self.coerce(a, u), self.coerce(b, u)
            if a.t.heap:
                raise EngineError("spec IfExp over heap types")
            return V(a.t, z3.If(self.truthy(c), a.z, b.z))
        if self.decide(self.truthy(c), self.lab(node, "ifexp")):
            return self.ev(node.body, frame)
        return self.ev(node.orelse, frame)

    def ev_NamedExpr(self, node, frame):
        v = self.ev(node.value, frame)
        self.assign(node.target, v, frame)
        return v

    def ev_Lambda(self, node, frame):
        return const(Closure(node, frame))

    def _raw_nullable(self, n, frame):
        """the unresolved nullable value a Name denotes, if any (for `x is None` in clauses)"""
        if isinstance(n, ast.Attribute):
            try:
                base = self.ev(n.value, frame)
            except Unsupported:
                return None
            if base.is_const or base.t.kind != "obj":
                return None
            cell = self.cell(base) if self.old_heap is None else self.old_heap[base.z]
            v = cell.content.get(n.attr)
            return v if v is not None and v.t.kind == "nullable" else None
        if not isinstance(n, ast.Name):
            return None
        v = frame.lookup(n.id) if frame is not None else None
        if v is None and self.spec_env is not None:
            v = self.spec_env.get(n.id)
        if v is None or v is UNDEFINED:
            return None
        return v if v.t.kind == "nullable" else None

    def ev_Compare(self, node, frame):
        if self.pure and len(node.ops) == 1 and isinstance(node.ops[0], (ast.Is, ast.IsNot)) \
                and isinstance(node.comparators[0], ast.Constant) and node.comparators[0].value is None:
            nv = self._raw_nullable(node.left, frame)
            if nv is not None:
                return mk_bool(nv.z[0] if isinstance(node.ops[0], ast.Is) else z3.Not(nv.z[0]))
        left = self.ev(node.left, frame)
        conds = []
        for op, rn in zip(node.ops, node.comparators):
            if conds and not self.pure:
                # chained comparison short-circuits
                if not self.decide(conds[-1], self.lab(node, "cmpchain")):
                    return mk_bool(False)
                conds = []
            right = self.ev(rn, frame)
            conds.append(self.compare(op, left, right, node))
            left = right
        return mk_bool(z3.And(conds) if len(conds) > 1 else conds[0])

    def compare(self, op, a, b, node):
        if isinstance(op, ast.Eq):
            return self.eq(a, b, self.old_heap)
        if isinstance(op, ast.NotEq):
            return z3.Not(self.eq(a, b, self.old_heap))
        if isinstance(op, ast.Is):
            return self.is_(a, b)
        if isinstance(op, ast.IsNot):
            return z3.Not(self.is_(a, b))
        if isinstance(op, (ast.In, ast.NotIn)) and b.t.kind == "sref":
            b = self.sref_value(b, self.old_heap)
        if isinstance(op, (ast.In, ast.NotIn)) and b.t.kind == "opaque" and not b.is_const:
            # membership in an opaque container: its declared `__contains__` external
            from . import models

            r = self.truthy(models.call_method(self, b, "__contains__", [a], {}, node))
            return r if isinstance(op, ast.In) else z3.Not(r)
        if isinstance(op, ast.In):
            return self.contains(b, a, self.old_heap)
        if isinstance(op, ast.NotIn):
            return z3.Not(self.contains(b, a, self.old_heap))
        # ordering
        lab = self.lab(node, "cmp")
        if a.t.kind == "str" or b.t.kind == "str":
            a = self.project(a, kindp("str"), lab)
            b = self.project(b, kindp("str"), lab)
            if isinstance(op, ast.Lt):
                return a.z < b.z
            if isinstance(op, ast.LtE):
                return a.z <= b.z
            if isinstance(op, ast.Gt):
                return b.z < a.z
            return b.z <= a.z
        a = self.project(a, kindp(*NUMERIC), lab)
        b = self.project(b, kindp(*NUMERIC), lab)
        real = "real" in (a.t.kind, b.t.kind)
        x, y = self.to_num(a, real), self.to_num(b, real)
        if isinstance(op, ast.Lt):
            return x < y
        if isinstance(op, ast.LtE):
            return x <= y
        if isinstance(op, ast.Gt):
            return x > y
        if isinstance(op, ast.GtE):
            return x >= y
        raise Unsupported("comparison op")

    def ev_BinOp(self, node, frame):
        a = self.ev(node.left, frame)
        b = self.ev(node.right, frame)
        return self.binop(node.op, a, b, node)

    def binop(self, op, a, b, node):
        lab = self.lab(node, "op")
        if a.t.kind == "union":
            a = self.project(a, lambda t: t.kind != "none", lab)
        if b.t.kind == "union":
            b = self.project(b, lambda t: t.kind != "none", lab)
        if b.t.kind == "sref":
            b = self.sref_value(b)  # a set living in a list slot, read as the right operand of a set operator
        ka, kb = a.t.kind, b.t.kind
        if ka == "opaque" and not a.is_const:
            # operator on an opaque object (e.g. pathlib `/`): its declared dunder external
            from . import models

            dunder = {ast.Div: "__truediv__", ast.Add: "__add__", ast.Sub: "__sub__", ast.Mult: "__mul__", ast.BitOr: "__or__", ast.Mod: "__mod__"}.get(type(op))
            if dunder is not None:
                return models.call_method(self, a, dunder, [b], {}, node)
        if isinstance(op, ast.Add):
            if ka == "str" and kb == "str":
                return V(T.Str, z3.Concat(a.z, b.z))
            if ka == "bytes" and kb == "bytes":
                return V(T.Bytes, z3.Concat(a.z, b.z))
            if ka in ("list", "seq") and kb in ("list", "seq"):
                if ka == "list" and self.cell(a).ty.elem is PENDING:
                    sa_t = None
                else:
                    sa_t = self.as_seq(a).t
                if kb == "list" and self.cell(b).ty.elem is PENDING:
                    sb_t = None
                else:
                    sb_t = self.as_seq(b).t
                if sa_t is None and sb_t is None:
                    return self.alloc(T.List(PENDING), None) if not self.pure else a
                st = sa_t or sb_t
                if sa_t is not None and sb_t is not None and sa_t.elem != sb_t.elem:
                    if self.can_inject(sb_t.elem, sa_t.elem):
                        st = sa_t
                    elif self.can_inject(sa_t.elem, sb_t.elem):
                        st = T.Seq(sb_t.elem, py=sa_t.py)
                    else:
                        st = T.Seq(T.Union(sa_t.elem, sb_t.elem), py=sa_t.py)
                za = self.coerce(self.as_seq(a), st).z if sa_t is not None else z3.Empty(st.sort())
                zb = self.coerce(self.as_seq(b), st).z if sb_t is not None else z3.Empty(st.sort())
                res = V(st, z3.Concat(za, zb))
                if (ka == "list" or kb == "list") and not self.pure:
                    return self.list_from_seq(res, py=a.t.py)
                return res
            if ka == "tuple" and kb == "tuple":
                items = [V(t, a.t.get(a.z, i)) for i, t in enumerate(a.t.items)] + [V(t, b.t.get(b.z, i)) for i, t in enumerate(b.t.items)]
                return self.mk_tuple(items)
        if isinstance(op, ast.Mult) and ((ka == "str" and kb == "int") or (ka == "int" and kb == "str")):
            raise Unsupported("str * int")
        if isinstance(op, ast.Mod) and ka == "str":
            return self.ctx.uf_apply(self, "fmt%", [a, self.data(b)], T.Str)
        if ka in ("vset", "set") and kb in ("vset", "set"):
            sa = self.content(a) if ka == "set" else a
            sb = self.content(b) if kb == "set" else b
            if isinstance(op, ast.BitOr):
                z = None
                for base_, other in ((sa.z, sb.z), (sb.z, sa.z)):
                    keys = _finite_set_keys(other)
                    if keys is not None:
                        z = base_
                        for kx in keys:
                            z = z3.Store(z, kx, z3.BoolVal(True))
                        break
                if z is None:
                    z = z3.Map(z3.Or(z3.BoolVal(True), z3.BoolVal(True)).decl(), sa.z, sb.z)
            elif isinstance(op, ast.BitAnd):
                z = z3.Map(z3.And(z3.BoolVal(True), z3.BoolVal(True)).decl(), sa.z, sb.z)
            elif isinstance(op, ast.Sub):
                z = z3.Map(z3.And(z3.BoolVal(True), z3.BoolVal(True)).decl(), sa.z, z3.Map(z3.Not(z3.BoolVal(True)).decl(), sb.z))
            else:
                raise Unsupported("set op")
            res = V(sa.t, z)
            if not self.pure and (ka == "set" or kb == "set"):
                return self.alloc(T.Set(sa.t.elem), res)
            return res  # frozenset values
        if ka not in NUMERIC or kb not in NUMERIC:
            if self.pure:
                raise EngineError("spec: binop on %s, %s" % (a.t, b.t))
            raise PyRaise(Exc("TypeError", tag=lab))
        real = "real" in (ka, kb) or isinstance(op, ast.Div)
        x, y = self.to_num(a, real), self.to_num(b, real)
        rt = T.Real if real else T.Int
        if isinstance(op, ast.Add):
            return V(rt, x + y)
        if isinstance(op, ast.Sub):
            return V(rt, x - y)
        if isinstance(op, ast.Mult):
            return V(rt, x * y)
        if isinstance(op, ast.Div):
            self.fail_if(y == 0, "ZeroDivisionError", lab)
            return V(T.Real, x / y)
        if isinstance(op, (ast.FloorDiv, ast.Mod)):
            if real:
                raise Unsupported("// or % on reals")
            self.fail_if(y == 0, "ZeroDivisionError", lab)
            # z3 div/mod are euclidean; python floors
            pm = z3.If(y > 0, x % y, z3.If(x % y == 0, z3.IntVal(0), x % y + y))
            pq = z3.If(y > 0, x / y, z3.If(x % y == 0, x / y, x / y - 1))
            # (for y<0: euclid: x = y*q + r, 0<=r<|y|; python floors: r' = r + y (if r != 0), q' = q - 1, since x = y*(q-1) + (r+y);
            #  the conformance selftest found `q + 1` here - 7 // -2 is -4)
            if isinstance(op, ast.Mod):
                return V(T.Int, pm)
            return V(T.Int, pq)
        raise Unsupported("binary operator %s" % type(op).__name__)

    def ev_Subscript(self, node, frame):
        base = self.ev(node.value, frame)
        return self.subscript(base, node.slice, node, frame)

    def subscript(self, base, sl, node, frame):
        lab = self.lab(node, "idx")
        heap = self.old_heap
        if base.t.kind == "union":
            subs = ("seq", "list", "str", "tuple", "bytes", "dict", "vmap", "rec", "drec", "itemref")
            if any(m.kind in subs for m in base.t.members):
                base = self.project(base, lambda t: t.kind in subs, lab)
            else:
                base = self.project(base, lambda t: t.kind != "none", lab)
        if isinstance(sl, ast.Slice):
            if sl.step is not None:
                st = self.ev(sl.step, frame)
                if not (z3.is_int_value(zsimp(st.z)) and zsimp(st.z).as_long() == 1):
                    raise Unsupported("slice step")
            lo = self.to_int(self.project(self.ev(sl.lower, frame), kindp("int", "bool"), lab)) if sl.lower is not None else None
            hi = self.to_int(self.project(self.ev(sl.upper, frame), kindp("int", "bool"), lab)) if sl.upper is not None else None
            if base.t.kind == "tuple":
                base = self.coerce(base, T.Seq(base.t.items[0], py="tuple")) if base.t.items and all(t == base.t.items[0] for t in base.t.items) else base
                if base.t.kind == "tuple":
                    raise Unsupported("slice of heterogeneous tuple")
            return self.seq_slice(base, lo, hi, heap)
        k = base.t.kind
        if k in ("drec", "itemref", "rec"):
            from . import records

            return records.getitem(self, base, self.ev(sl, frame), lab)
        if k in ("dict", "vmap"):
            key = self.ev(sl, frame)
            m = self.content(base, heap) if k == "dict" else base
            kz = self.coerce(self.data(key), m.t.k)
            self.fail_if(z3.Not(z3.Select(m.t.has(m.z), kz.z)), "KeyError", lab)
            return self.unbox_item(base, m, kz)
        if k == "obj":
            # mapping-like objects: via __getitem__ contract
            return self.call_value(const(BoundMethod(base, "__getitem__")), [self.ev(sl, frame)], {}, node, frame)
        if k == "const":
            raise Unsupported("subscript of %r" % (base.z,))
        if k == "opaque":
            from . import models

            return models.call_method(self, base, "__getitem__", [self.ev(sl, frame)], {}, node)
        idx = self.project(self.ev(sl, frame), kindp("int", "bool"), lab)
        if k == "list" and not self.pure and self.cell(base).ty.elem.kind == "vset":
            c = self.content(base)
            n = z3.Length(c.z)
            i = self.to_int(idx)
            self.fail_if(z3.Or(i < -n, i >= n), "IndexError", lab)
            return V(T.SetSlotRef(self.cell(base).ty.elem), (base, zsimp(self.norm_index(i, n))))
        if k == "list" and not self.pure and getattr(self.cell(base).ty.elem, "objlike", False):
            c = self.content(base)
            n = z3.Length(c.z)
            i = self.to_int(idx)
            self.fail_if(z3.Or(i < -n, i >= n), "IndexError", lab)
            return V(T.ListItemRef(self.cell(base).ty.elem), (base, zsimp(self.norm_index(i, n))))
        return self.seq_index(base, idx, lab, heap)

    def unbox_item(self, base, m, kz):
        if base.t.kind == "dict" and not self.pure and m.t.v.kind == "rec":
            dr = self.ctx.drec_for(m.t.v)
            if dr is not None:
                return V(T.ItemRef(dr), (base, kz.z))
        return V(m.t.v, z3.Select(m.t.val(m.z), kz.z))

    # comprehension support (as sequences) ------------------------------------------------
    def ev_GeneratorExp(self, node, frame):
        return const(("genexp", node, frame))

    def ev_ListComp(self, node, frame):
        return self.comp_to_seq(node, frame, as_list=True)

    def comp_to_seq(self, node, frame, as_list):
        """[f(x) for x in seq] / (.. if cond) -> fresh sequence with quantified definition.
        Only one generator and, for filtered comprehensions, only length bound facts."""
        if len(node.generators) != 1:
            raise Unsupported("nested comprehension")
        g = node.generators[0]
        it = self.iter_of(self.ev(g.iter, frame), node)
        k = z3.Int(fresh_name("k"))
        f2 = Frame({}, parent=frame)
        self.bind(g.target, it.at(k), f2)
        saved = self.pure
        self.pure = True
        try:
            elt = self.data(self.ev(node.elt, f2))
            conds = [self.truthy(self.ev(c, f2)) for c in g.ifs]
        finally:
            self.pure = saved
        st = T.Seq(elt.t)
        res = V(st, z3.Const(fresh_name("comp"), st.sort()))
        if not conds:
            self.assume(z3.Length(res.z) == it.n)
            self.assume(z3.ForAll([k], z3.Implies(z3.And(k >= 0, k < it.n), res.z[k] == elt.z)))
        else:
            self.assume(z3.Length(res.z) <= it.n)
            raise Unsupported("filtered comprehension as value")
        if as_list and not self.pure:
            return self.list_from_seq(res)
        return res

    # ================================================================== iteration
    def iter_of(self, v, node):
        k = v.t.kind
        if k == "const":
            o = v.z
            if isinstance(o, Iter):
                return o
            if isinstance(o, tuple) and o and o[0] == "genexp":
                raise Unsupported("iteration over generator expression")
            if isinstance(o, tuple):
                items = list(o)
                return Iter(z3.IntVal(len(items)), None, concrete=items)
            raise Unsupported("iteration over %r" % (o,))
        if k == "union":
            v = self.project(v, lambda t: t.kind in ("seq", "list", "str", "tuple", "bytes", "set", "vset", "dict", "vmap"), self.lab(node, "iter"))
            k = v.t.kind
        if k == "tuple":
            items = [V(t, v.t.get(v.z, i)) for i, t in enumerate(v.t.items)]
            return Iter(z3.IntVal(len(items)), None, concrete=items)
        if k in ("seq", "list", "bytes"):
            s = self.as_seq(v, self.old_heap)
            if k == "list" and self.cell(v).ty.elem is PENDING:
                return Iter(z3.IntVal(0), None, concrete=[])
            if s.t.kind == "bytes":
                return Iter(z3.Length(s.z), lambda i, s=s: V(T.Int, nth(s.z, i)), src_locs=[v.z] if k == "list" else [])
            if k == "list" and not self.pure and s.t.elem.kind == "vset":
                return Iter(z3.Length(s.z), lambda i, v=v, s=s: V(T.SetSlotRef(s.t.elem), (v, i)), src_locs=[], seq=s)
            if k == "list" and not self.pure and getattr(s.t.elem, "objlike", False):
                return Iter(z3.Length(s.z), lambda i, v=v, s=s: V(T.ListItemRef(s.t.elem), (v, i)), src_locs=[v.z], seq=s)
            return Iter(z3.Length(s.z), lambda i, s=s: V(s.t.elem, nth(s.z, i)), src_locs=[v.z] if k == "list" else [], seq=s)
        if k == "str":
            return Iter(z3.Length(v.z), lambda i, s=v: V(T.Str, z3.SubString(s.z, i, 1)))
        if k in ("set", "vset"):
            # arbitrary but fixed order: a duplicate-free sequence with exactly the set's elements
            sv = self.content(v, self.old_heap) if k == "set" else v
            st = T.Seq(sv.t.elem)
            order = z3.Const(fresh_name("setorder"), st.sort())
            x = z3.Const(fresh_name("x"), sv.t.elem.sort())
            pos = z3.Function(fresh_name("pos"), sv.t.elem.sort(), z3.IntSort())
            i, j = z3.Int(fresh_name("i")), z3.Int(fresh_name("j"))
            self.assume(z3.ForAll([x], z3.Implies(z3.Select(sv.z, x), z3.And(0 <= pos(x), pos(x) < z3.Length(order), order[pos(x)] == x))))
            self.assume(z3.ForAll([i, j], z3.Implies(z3.And(0 <= i, i < j, j < z3.Length(order)), order[i] != order[j])))
            self.assume(z3.ForAll([i], z3.Implies(z3.And(0 <= i, i < z3.Length(order)), z3.Select(sv.z, order[i]))))
            ov = V(st, order)
            return Iter(z3.Length(order), lambda i2, s=ov: V(s.t.elem, nth(s.z, i2)), src_locs=[v.z] if k == "set" else [], seq=ov)
        if k in ("dict", "vmap"):
            g = (self.cell_ghost(v.z) or {}) if k == "dict" else {}
            if "order_independent" in g:
                self.ctx.note_violation_flag(self, "order_independent", node)
            if "keys" in g:
                ks = g["keys"]
                return Iter(z3.Length(ks.z), lambda i, s=ks: V(s.t.elem, s.z[i]), src_locs=[v.z])
            raise Unsupported("iteration over dict without key-order ghost")
        if k == "opaque":
            # the elements of an opaque iterable: an uninterpreted sequence of the declared element type
            et = self.ctx.c.config.get("iter_of", {}).get(v.t.name)
            if et is not None:
                st = T.Seq(et)
                sv = self.ctx.uf_apply(self, "elems_" + v.t.name, [v], st)
                return Iter(z3.Length(sv.z), lambda i, s=sv: V(s.t.elem, nth(s.z, i)), seq=sv)
        raise Unsupported("iteration over %s" % v.t)

    # ================================================================== calls
    def ev_Call(self, node, frame):
        if self.pure and isinstance(node.func, ast.Name) and node.func.id in ("old", "old_ref", "at", "pre", "forall", "exists", "implies", "log", "cnt", "narrow"):
            # clause-language forms win over program variables of the same name (`old = {}` in Env.swap)
            return getattr(self, "special_" + node.func.id)(node, frame)
        fn = self.ev(node.func, frame)
        # spec-only special forms that must see unevaluated arguments
        if fn.is_const and isinstance(fn.z, DottedName):
            nm = fn.z.name
            sf = getattr(self, "special_" + nm.replace(".", "_"), None)
            if sf is not None and (self.pure or nm in self.EXEC_SPECIALS):
                return sf(node, frame)
        args = []
        for a in node.args:
            if isinstance(a, ast.Starred):
                sv = self.ev(a.value, frame)
                if sv.t.kind == "opaque":
                    args.append(sv)  # an opaque argument pack is passed on as one value
                    continue
                it = self.iter_of(sv, node)
                if it.concrete is None:
                    args.append(("*", sv))
                else:
                    args.extend(it.concrete)
            else:
                args.append(self.ev(a, frame))
        kwargs = {}
        for kw in node.keywords:
            if kw.arg is None:
                kv = self.ev(kw.value, frame)
                if kv.t.kind == "opaque":
                    kwargs["__pack__"] = kv  # an opaque keyword pack is passed on as one value
                    continue
                raise Unsupported("**kwargs in call")
            kwargs[kw.arg] = self.ev(kw.value, frame)
        return self.call_value(fn, args, kwargs, node, frame)

    EXEC_SPECIALS = ("any", "all", "isinstance", "getattr", "hasattr", "next", "sum")

    def call_value(self, fn, args, kwargs, node, frame):
        from . import models

        if not fn.is_const:
            if fn.t.kind == "union":
                fn = self.project(fn, lambda t: t.kind == "opaque", self.lab(node, "call"))
            if fn.t.kind == "opaque":
                return self.ctx.call_opaque(self, fn, args, kwargs, node, frame)
            raise Unsupported("call of %s" % fn.t)
        o = fn.z
        if isinstance(o, Closure):
            return self.inline_call(o, args, kwargs, node)
        if isinstance(o, DottedName):
            return self.ctx.call_named(self, o.name, args, kwargs, node, frame)
        if isinstance(o, BoundMethod):
            recv = o.recv
            if recv.is_const and isinstance(recv.z, DottedName):
                return self.ctx.call_named(self, recv.z.name + "." + o.name, args, kwargs, node, frame)
            if recv.t.kind == "obj" or recv.t.kind == "lref" or (recv.t.kind == "rec" and getattr(recv.t, "objlike", False)):
                return self.ctx.call_method(self, recv, o.name, args, kwargs, node, frame)
            return models.call_method(self, recv, o.name, args, kwargs, node)
        if isinstance(o, type(lambda: 0)) or callable(o):
            return o(self, args, kwargs, node)
        raise Unsupported("call of %r" % (o,))

    def inline_call(self, clo, args, kwargs, node):
        fn = clo.node
        if self.inline_depth > 6:
            raise Unsupported("inline depth")
        f2 = Frame({}, parent=clo.frame, fn=fn)
        self.bind_params(fn.args, args, kwargs, f2, clo.frame)
        self.inline_depth += 1
        saved_frame = getattr(self, "cur_frame", None)
        try:
            if isinstance(fn, ast.Lambda):
                return self.ev(fn.body, f2)
            try:
                self.ex_block(fn.body, f2)
            except ReturnEx as r:
                return r.value
            return mk_none()
        finally:
            self.inline_depth -= 1
            self.cur_frame = saved_frame

    def bind_params(self, a, args, kwargs, f2, defframe):
        pos = list(a.posonlyargs) + list(a.args)
        if any(isinstance(x, tuple) and x and x[0] == "*" for x in args):
            raise Unsupported("symbolic *args into inlined function")
        n = len(pos)
        defaults = [None] * (n - len(a.defaults)) + list(a.defaults)
        for i, p in enumerate(pos):
            if i < len(args):
                f2.env[p.arg] = args[i]
            elif p.arg in kwargs:
                f2.env[p.arg] = kwargs.pop(p.arg)
            elif defaults[i] is not None:
                f2.env[p.arg] = self.ev(defaults[i], defframe)
            else:
                raise PyRaise(Exc("TypeError", tag="missing argument " + p.arg))
        if len(args) > n:
            if a.vararg is None:
                raise PyRaise(Exc("TypeError", tag="too many arguments"))
            f2.env[a.vararg.arg] = const(tuple(args[n:]))
        elif a.vararg is not None:
            f2.env[a.vararg.arg] = const(())
        for p, d in zip(a.kwonlyargs, a.kw_defaults):
            if p.arg in kwargs:
                f2.env[p.arg] = kwargs.pop(p.arg)
            elif d is not None:
                f2.env[p.arg] = self.ev(d, defframe)
            else:
                raise PyRaise(Exc("TypeError", tag="missing kw argument " + p.arg))
        if kwargs:
            if a.kwarg is None:
                raise PyRaise(Exc("TypeError", tag="unexpected kw"))
            raise Unsupported("**kwargs parameter")

    # ---- special forms ---------------------------------------------------------------
    def special_old(self, node, frame):
        if self.old_heap is not None:
            return self.ev(node.args[0], frame)
        saved = (self.old_heap, self.spec_env)
        self.old_heap = self.ctx.entry_heap_for(self)
        if self.spec_env is not None and "__old_env__" in self.spec_env:
            e = dict(self.spec_env)
            e.update(self.spec_env["__old_env__"])
            self.spec_env = e
        try:
            return self.freeze(self.ev(node.args[0], frame))
        finally:
            self.old_heap, self.spec_env = saved

    def special_log(self, node, frame):
        nm = node.args[0].value
        lg = self.ghost.get(("log", nm))
        if lg is None:
            st = T.Seq(self.ctx.log_type(nm))
            return V(st, z3.Empty(st.sort()))
        return lg

    def special_pre(self, node, frame):
        """value of an expression at the entry of the loop whose invariant is being evaluated"""
        key = getattr(self, "cur_loop_key", None)
        if key is None or key not in getattr(self, "loop_pre", {}):
            raise EngineError("pre() outside a loop invariant")
        heap, ghost = self.loop_pre[key]
        saved = (self.old_heap, self.ghost)
        self.old_heap, self.ghost = heap, ghost
        try:
            return self.freeze(self.ev(node.args[0], frame))
        finally:
            self.old_heap, self.ghost = saved

    def freeze(self, v):
        """value of a heap container in the heap currently in force (for old()/at()/pre())"""
        if v.t.kind in ("list", "dict", "set"):
            return self.content(v, self.old_heap)
        if v.t.kind in ("drec", "itemref"):
            from . import records

            return records.as_rec(self, v, self.old_heap)
        return v

    def special_at(self, node, frame):
        """value of an expression in a named heap snapshot (contract field `snapshots`)"""
        label = node.args[0].value
        heaps = getattr(self, "named_heaps", {})
        if label not in heaps:
            raise ClauseVacuous()  # the snapshot point was not reached on this path
        saved = self.old_heap
        self.old_heap = heaps[label]
        try:
            return self.freeze(self.ev(node.args[1], frame))
        finally:
            self.old_heap = saved

    def special_cnt(self, node, frame):
        """multiset count of x in a counted list / deque (ghost)"""
        lst = self.ev(node.args[0], frame)
        x = self.ev(node.args[1], frame)
        if lst.t.kind != "list" or not lst.t.counted:
            raise EngineError("cnt() needs a counted list")
        g = self.cell_ghost(lst.z)
        return mk_int(z3.Select(g["cnt"], self.coerce(x, lst.t.elem).z))

    def special_old_ref(self, node, frame):
        """like old() but keeps references (for identity clauses: `x is old_ref(y)`)"""
        saved = (self.old_heap, self.spec_env)
        self.old_heap = self.ctx.entry_heap_for(self)
        if self.spec_env is not None and "__old_env__" in self.spec_env:
            e = dict(self.spec_env)
            e.update(self.spec_env["__old_env__"])
            self.spec_env = e
        try:
            return self.ev(node.args[0], frame)
        finally:
            self.old_heap, self.spec_env = saved

    def special_narrow(self, node, frame):
        """narrow(x): a union value as the one member the enclosing antecedents (implies / and) leave possible"""
        v = self.ev(node.args[0], frame)
        if v.is_const or v.t.kind != "union":
            return v
        feas = [m for m in v.t.members if self.feasible(v.t.is_(v.z, m))]
        if len(feas) != 1:
            raise EngineError("narrow(): %d members of %s are possible here" % (len(feas), v.t))
        return V(feas[0], v.t.proj(v.z, feas[0])) if feas[0].kind != "none" else mk_none()

    def special_implies(self, node, frame):
        a = self.truthy(self.ev(node.args[0], frame))
        if z3.is_false(zsimp(a)):
            return mk_bool(True)  # lazy: the consequent may be partial where the antecedent is false
        # the consequent is evaluated UNDER the antecedent (it only matters where the antecedent holds), so that a union value narrowed by an
        # isinstance / is-None test in the antecedent projects unambiguously in the consequent
        narrowed = self.pure and not has_quant(a)
        if narrowed:
            self.solver.push()
            self.solver.add(zsimp(a))
        try:
            b = self.truthy(self.ev(node.args[1], frame))
        except EngineError:
            if not has_quant(a) and not (self.context_feasible() if narrowed else self.feasible(a)):
                return mk_bool(True)
            raise
        finally:
            if narrowed:
                self.solver.pop()
        return mk_bool(z3.Implies(a, b))

    def _quant(self, node, frame, forall, ty=None):
        lam = node.args[0]
        if not isinstance(lam, ast.Lambda):
            raise EngineError("forall/exists needs a lambda")
        names = [a.arg for a in lam.args.args]
        ty = ty or T.Int
        vars_ = [z3.Const(fresh_name(n), ty.sort()) for n in names]
        env = dict(self.spec_env or {})
        for n, v in zip(names, vars_):
            env[n] = V(ty, v)
        saved = self.spec_env
        self.spec_env = env
        self.bound_vars = list(getattr(self, "bound_vars", None) or []) + vars_
        try:
            body = self.truthy(self.ev(lam.body, frame))
            guards = []
            if len(node.args) >= 3:
                lo = self.to_int(self.ev(node.args[1], frame))
                hi = self.to_int(self.ev(node.args[2], frame))
                for v in vars_:
                    guards += [v >= lo, v < hi]
        finally:
            self.spec_env = saved
            self.bound_vars = self.bound_vars[:len(self.bound_vars) - len(vars_)]
        if forall:
            return mk_bool(z3.ForAll(vars_, z3.Implies(z3.And(guards), body) if guards else body))
        return mk_bool(z3.Exists(vars_, z3.And(guards + [body])))

    def special_forall(self, node, frame):
        return self._quant(node, frame, True)

    def special_forall_str(self, node, frame):
        return self._quant(node, frame, True, T.Str)

    def special_exists_str(self, node, frame):
        return self._quant(node, frame, False, T.Str)

    def special_forall_val(self, node, frame):
        return self._quant(node, frame, True, T.Opaque("val"))

    def special_forall_bytes(self, node, frame):
        return self._quant(node, frame, True, T.Bytes)

    def special_forall_chunks(self, node, frame):
        return self._quant(node, frame, True, T.Seq(T.Bytes))

    def special_forall_strset(self, node, frame):
        return self._quant(node, frame, True, T.VSet(T.Str))

    def special_exists(self, node, frame):
        return self._quant(node, frame, False)

    def _anyall(self, node, frame, is_all):
        arg = node.args[0]
        if isinstance(arg, (ast.GeneratorExp, ast.ListComp)):
            if len(arg.generators) != 1:
                raise Unsupported("nested generator in any/all")
            g = arg.generators[0]
            it = self.iter_of(self.ev(g.iter, frame), node)
            if it.concrete is not None:
                # python evaluates lazily; elements are pure here
                res = []
                for item in it.concrete:
                    f2 = Frame({}, parent=frame)
                    self.bind(g.target, item, f2)
                    saved = self.pure
                    self.pure = True
                    try:
                        conds = [self.truthy(self.ev(c, f2)) for c in g.ifs]
                        body = self.truthy(self.ev(arg.elt, f2))
                    finally:
                        self.pure = saved
                    res.append(z3.Implies(z3.And(conds), body) if is_all else z3.And(conds + [body]))
                return mk_bool((z3.And if is_all else z3.Or)(res) if res else z3.BoolVal(is_all))
            k = z3.Int(fresh_name("q"))
            f2 = Frame({}, parent=frame)
            self.bind(g.target, it.at(k), f2)
            saved = self.pure
            self.pure = True  # element predicate evaluated as a total function (no implicit raise)
            try:
                conds = [self.truthy(self.ev(c, f2)) for c in g.ifs]
                body = self.truthy(self.ev(arg.elt, f2))
            finally:
                self.pure = saved
            rng = [k >= 0, k < it.n]
            if is_all:
                return mk_bool(z3.ForAll([k], z3.Implies(z3.And(rng + conds), body)))
            return mk_bool(z3.Exists([k], z3.And(rng + conds + [body])))
        raise Unsupported("any/all over non-comprehension")

    def special_all(self, node, frame):
        return self._anyall(node, frame, True)

    def special_any(self, node, frame):
        return self._anyall(node, frame, False)

    def special_isinstance(self, node, frame):
        from . import models

        v = self.ev(node.args[0], frame)
        return mk_bool(models.isinstance_cond(self, v, node.args[1], frame))

    def special_getattr(self, node, frame):
        obj = self.ev(node.args[0], frame)
        an = node.args[1]
        if not (isinstance(an, ast.Constant) and isinstance(an.value, str)):
            raise Unsupported("getattr with non-literal name")
        name = an.value
        if obj.t.kind == "obj":
            cell = self.cell(obj) if self.old_heap is None else self.old_heap[obj.z]
            opt = self.ctx.optional_fields.get((obj.t.cls, name))
            if name in cell.content:
                val = self.unnull(cell.content[name], name)
                if opt and len(node.args) >= 3:
                    # optional field: ("missing" flag stored as ghost field)
                    miss = cell.content.get("__missing_" + name)
                    if miss is not None:
                        if self.pure:
                            raise Unsupported("getattr default in spec")
                        if self.decide(miss.z, self.lab(node, "getattr")):
                            return self.ev(node.args[2], frame)
                return val
            if len(node.args) >= 3:
                return self.ev(node.args[2], frame)
            raise PyRaise(Exc("AttributeError", tag=self.lab(node, "getattr")))
        if obj.t.kind == "none" and len(node.args) >= 3:
            return self.ev(node.args[2], frame)
        if obj.t.kind == "union" and len(node.args) >= 3:
            nn = [m for m in obj.t.members if m.kind != "none"]
            if self.decide(obj.t.is_(obj.z, T.NoneT), self.lab(node, "getattr-none")):
                return self.ev(node.args[2], frame)
            if len(nn) == 1 and nn[0].kind == "rec" and name in nn[0].fields:
                return V(nn[0].fields[name], nn[0].get(obj.t.proj(obj.z, nn[0]), name))
        if obj.t.kind == "rec":
            return self.rec_getattr(obj, name, node, frame)
        if obj.t.kind == "union" and any(m.kind == "rec" for m in obj.t.members):
            # attribute of a value that may or may not be a record: only records have attributes
            recs = [m for m in obj.t.members if m.kind == "rec"]
            isrec = z3.Or([obj.t.is_(obj.z, m) for m in recs])
            if len(node.args) >= 3:
                if not self.decide(isrec, self.lab(node, "getattr-rec")):
                    return self.ev(node.args[2], frame)
            else:
                self.fail_if(z3.Not(isrec), "AttributeError", self.lab(node, "getattr"))
            p = self.project(obj, lambda t: t in recs, self.lab(node, "getattr"), exc="AttributeError")
            return self.rec_getattr(p, name, node, frame)
        return self.ctx.call_named(self, "getattr", [obj, mk_str(name)] + [self.ev(a, frame) for a in node.args[2:]], {}, node, frame)

    def rec_getattr(self, obj, name, node, frame):
        """getattr(record, name[, default]): a field `has_<name>` marks an optional attribute"""
        if name not in obj.t.fields:
            if len(node.args) >= 3:
                return self.ev(node.args[2], frame)
            raise PyRaise(Exc("AttributeError", tag=self.lab(node, "getattr")))
        val = V(obj.t.fields[name], obj.t.get(obj.z, name))
        if "has_" + name in obj.t.fields:
            has = obj.t.get(obj.z, "has_" + name)
            if len(node.args) >= 3:
                if self.pure:
                    raise Unsupported("getattr default on optional record attribute in spec")
                if not self.decide(has, self.lab(node, "getattr-has")):
                    return self.ev(node.args[2], frame)
            else:
                self.fail_if(z3.Not(has), "AttributeError", self.lab(node, "getattr"))
        return val

    def special_hasattr(self, node, frame):
        obj = self.ev(node.args[0], frame)
        an = node.args[1]
        if not (isinstance(an, ast.Constant) and isinstance(an.value, str)):
            raise Unsupported("hasattr with non-literal name")
        name = an.value
        if name == "__len__" and not obj.is_const and obj.t.kind != "obj":
            sized = ("str", "seq", "list", "tuple", "dict", "set", "vset", "vmap", "bytes")
            if obj.t.kind == "union":
                return mk_bool(z3.Or([obj.t.is_(obj.z, m) for m in obj.t.members if m.kind in sized] or [z3.BoolVal(False)]))
            return mk_bool(obj.t.kind in sized)
        if obj.t.kind == "obj":
            cell = self.cell(obj)
            miss = cell.content.get("__missing_" + name)
            if miss is not None:
                return mk_bool(z3.Not(miss.z))
            return mk_bool(name in cell.content or self.ctx.has_method(obj.t.cls, name))
        return self.ctx.call_named(self, "hasattr", [obj, mk_str(name)], {}, node, frame)

    def special_next(self, node, frame):
        raise Unsupported("next()")

    def special_sum(self, node, frame):
        raise Unsupported("sum()")

    def special_result_is_fresh(self, node, frame):
        return mk_bool(True)

    # ================================================================== assignment
    def bind(self, target, val, frame):
        """bind a comprehension / quantifier target in a fresh frame (allowed in spec mode)"""
        self._binding = getattr(self, "_binding", 0) + 1
        try:
            self.assign(target, val, frame)
        finally:
            self._binding -= 1

    def assign(self, target, val, frame):
        if isinstance(target, ast.Name):
            self.set_name(target.id, val, frame)
            return
        if isinstance(target, (ast.Tuple, ast.List)):
            n = len(target.elts)
            if any(isinstance(e, ast.Starred) for e in target.elts):
                if not (n == 2 and isinstance(target.elts[1], ast.Starred) and not isinstance(target.elts[0], ast.Starred)):
                    raise Unsupported("starred assignment target other than `a, *b`")
                it = self.iter_of(val, target)
                if it.concrete is not None:
                    if not it.concrete:
                        raise PyRaise(Exc("ValueError", tag=self.lab(target, "unpack")))
                    self.assign(target.elts[0], it.concrete[0], frame)
                    rest = it.concrete[1:]
                    self.assign(target.elts[1].value, self.new_list(rest[0].t if rest else PENDING, rest) if rest else self.alloc(T.List(PENDING), None), frame)
                    return
                self.fail_if(it.n < 1, "ValueError", self.lab(target, "unpack"))
                first = it.at(z3.IntVal(0))
                self.assign(target.elts[0], first, frame)
                st = T.Seq(first.t)
                res = z3.Const(fresh_name("rest"), st.sort())
                kk = z3.Int(fresh_name("k"))
                self.assume(z3.Length(res) == it.n - 1)
                self.assume(z3.ForAll([kk], z3.Implies(z3.And(0 <= kk, kk < it.n - 1), res[kk] == it.at(kk + 1).z), patterns=[res[kk]]))
                self.assign(target.elts[1].value, self.list_from_seq(V(st, res)), frame)
                return
            items = self.unpack(val, n, self.lab(target, "unpack"))
            for e, it in zip(target.elts, items):
                self.assign(e, it, frame)
            return
        if isinstance(target, ast.Attribute):
            base = self.ev(target.value, frame)
            if base.t.kind == "lref":
                ps = self.ctx.property_def(base.t.rec.name, target.attr, "setter")
                if ps is not None:
                    self.inline_call(Closure(ps, Frame({}, None)), [base, val], {}, target)
                    return
                rt = base.t.rec
                if target.attr not in rt.fields:
                    if target.attr in self.ctx.c.config.get("untracked_attrs", ()):
                        return
                    raise Unsupported("store of untracked attribute %r of %s" % (target.attr, rt.name))
                cur = self.lref_value(base)
                self.lref_store(base, rt.set(cur.z, target.attr, self.coerce(self.data(val), rt.fields[target.attr]).z))
                return
            if base.t.kind == "rec" and getattr(base.t, "objlike", False) and isinstance(target.value, ast.Name):
                # an object not yet stored in a list, held in a local: the store rebinds the local (no other alias exists)
                rt = base.t
                if self.ctx.property_def(rt.name, target.attr, "setter") is not None:
                    raise Unsupported("property store on an object that is not in a list slot yet")
                if target.attr not in rt.fields:
                    if target.attr in self.ctx.c.config.get("untracked_attrs", ()):
                        return
                    raise Unsupported("store of untracked attribute %r of %s" % (target.attr, rt.name))
                self.set_name(target.value.id, V(rt, rt.set(base.z, target.attr, self.coerce(self.data(val), rt.fields[target.attr]).z)), frame)
                return
            if base.t.kind != "obj":
                raise Unsupported("attribute assignment on %s" % base.t)
            ps = self.ctx.property_def(base.t.cls, target.attr, "setter")
            if ps is not None:
                self.inline_call(Closure(ps, Frame({}, None)), [base, val], {}, target)  # the class's real property setter
                return
            self.set_field(base, target.attr, val)
            return
        if isinstance(target, ast.Subscript):
            base = self.ev(target.value, frame)
            self.store_subscript(base, target.slice, val, target, frame)
            return
        raise Unsupported("assignment target %s" % type(target).__name__)

    def set_field(self, base, attr, val):
        if self.pure:
            raise EngineError("field write in spec")
        cell = self.cell(base)
        self.write_check(base.z)
        ft = base.t.fields.get(attr) if hasattr(base.t, "fields") else None
        if ft is not None and ft.kind == "nullable":
            pass  # a resolved reference (or None) replaces the unresolved entry value
        elif ft is not None and not ft.heap and ft is not T.Const:
            val = self.coerce(self.data(val) if val.t.heap and not ft.heap else val, ft)
        cell.content[attr] = val
        if "__missing_" + attr in cell.content:
            cell.content["__missing_" + attr] = mk_bool(False)
        self.ctx.on_field_write(self, base, attr, val)

    def set_name(self, name, val, frame):
        if getattr(self, "_binding", 0):
            frame.env[name] = val
            return
        if self.pure:
            raise EngineError("assignment in spec")
        if name in frame.globals:
            self.ctx.set_global(self, name, val)
            return
        if name in frame.nonlocals:
            o = frame.parent.owner(name) if frame.parent else None
            if o is None:
                raise EngineError("nonlocal %s not found" % name)
            o.env[name] = val
            return
        lt = self.ctx.local_type(frame, name)
        if val.t.kind == "lref" and lt is not None and lt == val.t.rec:
            pass  # a slot reference to an object of the declared type
        elif lt is not None and not lt.heap and val.t != lt:
            val = self.coerce(self.data(val) if val.t.heap else val, lt)
        frame.env[name] = val

    def unpack(self, val, n, lab):
        if val.is_const and isinstance(val.z, tuple):
            if len(val.z) != n:
                raise PyRaise(Exc("ValueError", tag=lab))
            return list(val.z)
        if val.t.kind == "union":
            val = self.project(val, lambda t: t.kind in ("tuple", "seq", "list"), lab)
        if val.t.kind == "tuple":
            if len(val.t.items) != n:
                raise PyRaise(Exc("ValueError", tag=lab))
            return [V(t, val.t.get(val.z, i)) for i, t in enumerate(val.t.items)]
        if val.t.kind in ("seq", "list"):
            s = self.as_seq(val)
            self.fail_if(z3.Length(s.z) != n, "ValueError", lab)
            return [V(s.t.elem, s.z[i]) for i in range(n)]
        if val.t.kind == "str":
            self.fail_if(z3.Length(val.z) != n, "ValueError", lab)
            return [V(T.Str, z3.SubString(val.z, i, 1)) for i in range(n)]
        raise Unsupported("unpack of %s" % val.t)

    def store_subscript(self, base, sl, val, node, frame):
        lab = self.lab(node, "store")
        if base.t.kind == "union":
            # `x[k] = v` on an optional container: None is a TypeError path, otherwise the store goes to the container member
            base = self.project(base, lambda t: t.kind != "none", lab)
        k = base.t.kind
        if k in ("drec", "itemref"):
            from . import records

            records.setitem(self, base, self.ev(sl, frame), val, lab)
            return
        if k == "dict":
            from . import models

            key = self.ev(sl, frame)
            models.dict_setitem(self, base, key, val)
            return
        if k == "list":
            if isinstance(sl, ast.Slice):
                from . import models

                lo = self.to_int(self.ev(sl.lower, frame)) if sl.lower is not None else None
                hi = self.to_int(self.ev(sl.upper, frame)) if sl.upper is not None else None
                models.list_setslice(self, base, lo, hi, val)
                return
            from . import models

            idx = self.project(self.ev(sl, frame), kindp("int", "bool"), lab)
            models.list_setitem(self, base, idx, val, lab)
            return
        if k == "obj":
            self.call_value(const(BoundMethod(base, "__setitem__")), [self.ev(sl, frame), val], {}, node, frame)
            return
        if k == "opaque":
            from . import models

            models.call_method(self, base, "__setitem__", [self.ev(sl, frame), val], {}, node)
            return
        raise Unsupported("subscript store on %s" % base.t)

    # ================================================================== statements
    def ex_block(self, stmts, frame):
        for s in stmts:
            self.ex(s, frame)

    def ex(self, node, frame):
        if self.ctx.c.asserts:
            self.ctx.statement_asserts(self, node, frame)
        ab = self.ctx.abstract_for(node)
        if ab is not None:
            return self.ex_abstract(node, frame, ab)
        m = getattr(self, "ex_" + type(node).__name__, None)
        if m is None:
            raise Unsupported("statement %s (line %s)" % (type(node).__name__, node.lineno))
        self.cur_stmt = node
        self.cur_frame = frame
        return m(node, frame)

    def ex_abstract(self, node, frame, ab):
        """Abstracted statement: havoc every local it assigns, may raise any Exception."""
        names = assigned_names([node])
        for n in names:
            v = frame.lookup(n)
            lt = self.ctx.local_type(frame, n)
            if lt is not None:
                frame.env[n] = self.havoc_value_of_type(lt, n)
            elif v is not None and v is not UNDEFINED:
                frame.env[n] = self.havoc_like(v, n)
            else:
                frame.env[n] = UNDEFINED
        self.ctx.note_abstract(node, ab)
        for hx in ab.get("havoc", ()):  # heap objects the abstracted statement may modify
            hv = self.spec_eval_in_frame(hx, frame, {})
            if hv.t.heap:
                before = self.content(hv) if hv.t.kind == "list" else None
                for loc in sorted(self.reachable(hv)):
                    self.write_check(loc)
                    self.havoc_loc(loc, "abs")
                if ab.get("keep_below_top") and before is not None:
                    # ASSUMED frame of the abstracted statement: only the LAST slot of the list may change
                    after = self.content(hv)
                    j = z3.Int(fresh_name("kb"))
                    self.assume(z3.Length(after.z) == z3.Length(before.z))
                    self.assume(z3.ForAll([j], z3.Implies(z3.And(0 <= j, j < z3.Length(before.z) - 1), after.z[j] == before.z[j]), patterns=[after.z[j]]))
        for en in ab.get("ensures", ()):  # ASSUMED facts about the abstracted statement (listed with its reason)
            self.assume(self.truthy(self.spec_eval_in_frame(en, frame, {})))
        if ab.get("may_return") is not None:
            if self.choose([0, 1], self.lab(node, "abstract-return")) == 1:
                raise ReturnEx(self.lift(ab["may_return"]) if ab["may_return"] != "None" else mk_none())
        if ab.get("may_raise", True):
            if self.choose([0, 1], self.lab(node, "abstract")) == 1:
                raise PyRaise(Exc(ab["may_raise"] if isinstance(ab.get("may_raise"), str) else "Exception", exact=False, tag="abstracted statement"))

    def ex_Expr(self, node, frame):
        if isinstance(node.value, ast.Constant):
            return
        if isinstance(node.value, (ast.Yield, ast.YieldFrom)):
            return self.ex_yield(node.value, frame)
        self.ev(node.value, frame)

    def ex_Pass(self, node, frame):
        return

    def ex_Assign(self, node, frame):
        if isinstance(node.value, (ast.Dict, ast.List, ast.Set)) and not getattr(node.value, "elts", getattr(node.value, "keys", None)) \
                and all(isinstance(t, ast.Attribute) for t in node.targets):
            # `obj.attr = {}` / `[]` for an attribute the contract does not declare: an untracked container
            bases = [self.ev(t.value, frame) for t in node.targets]
            if all(b.t.kind == "obj" and t.attr not in b.t.fields for b, t in zip(bases, node.targets)):
                for b, t in zip(bases, node.targets):
                    self.set_field(b, t.attr, fresh(T.Opaque("untracked"), t.attr))
                return
        if len(node.targets) == 1 and isinstance(node.targets[0], ast.Tuple) and isinstance(node.value, ast.Tuple) \
                and len(node.targets[0].elts) == len(node.value.elts) and not any(isinstance(e, ast.Starred) for e in node.targets[0].elts + node.value.elts):
            # `a, b = x, y`: every right-hand side is evaluated first (each with its own target as type hint), then the targets are bound in order
            vals = []
            for t, e in zip(node.targets[0].elts, node.value.elts):
                fake = ast.Assign(targets=[t], value=e, lineno=node.lineno)
                self.ctx.push_hint(fake, frame)
                try:
                    vals.append(self.ev(e, frame))
                finally:
                    self.ctx.pop_hint()
            for t, v in zip(node.targets[0].elts, vals):
                self.assign(t, v, frame)
            return
        if isinstance(node.value, ast.Yield):
            v = self.ex_yield(node.value, frame)
        else:
            self.ctx.push_hint(node, frame)
            try:
                v = self.ev(node.value, frame)
            finally:
                self.ctx.pop_hint()
        for t in node.targets:
            self.assign(t, v, frame)

    def ex_AnnAssign(self, node, frame):
        if node.value is not None:
            fake = ast.Assign(targets=[node.target], value=node.value, lineno=node.lineno)
            self.ctx.push_hint(fake)
            try:
                v = self.ev(node.value, frame)
            finally:
                self.ctx.pop_hint()
            self.assign(node.target, v, frame)

    def ex_AugAssign(self, node, frame):
        t = node.target
        if isinstance(t, ast.Name):
            cur = self.ev(ast.Name(id=t.id, ctx=ast.Load(), lineno=node.lineno), frame)
        elif isinstance(t, ast.Attribute):
            base = self.ev(t.value, frame)
            cur = self.getattr(base, t.attr, t)
        elif isinstance(t, ast.Subscript):
            base = self.ev(t.value, frame)
            cur = self.subscript(base, t.slice, t, frame)
        else:
            raise Unsupported("augassign target")
        rhs = self.ev(node.value, frame)
        if cur.t.kind == "list" and isinstance(node.op, ast.Add):
            from . import models

            models.call_method(self, cur, "extend", [rhs], {}, node)
            return
        if cur.t.kind == "set" and isinstance(node.op, (ast.BitOr, ast.Sub, ast.BitAnd)):
            res = self.binop(node.op, cur, rhs, node)
            self.set_content(cur, self.content(res))
            return
        res = self.binop(node.op, cur, rhs, node)
        if isinstance(t, ast.Name):
            self.set_name(t.id, res, frame)
        elif isinstance(t, ast.Attribute):
            self.set_field(base, t.attr, res)
        else:
            self.store_subscript(base, t.slice, res, t, frame)

    def ex_If(self, node, frame):
        c = self.ev(node.test, frame)
        if self.decide(self.truthy(c), self.lab(node, "if")):
            self.ex_block(node.body, frame)
        else:
            self.ex_block(node.orelse, frame)

    def ex_Return(self, node, frame):
        raise ReturnEx(self.ev(node.value, frame) if node.value is not None else mk_none())

    def ex_Break(self, node, frame):
        raise BreakEx()

    def ex_Continue(self, node, frame):
        raise ContinueEx()

    def ex_Global(self, node, frame):
        frame.globals.update(node.names)

    def ex_Nonlocal(self, node, frame):
        frame.nonlocals.update(node.names)

    def ex_Import(self, node, frame):
        for a in node.names:
            nm = a.asname or a.name.split(".")[0]
            frame.env[nm] = const(DottedName(a.name if a.asname else a.name.split(".")[0]))

    def ex_ImportFrom(self, node, frame):
        for a in node.names:
            frame.env[a.asname or a.name] = const(DottedName((node.module or "") + "." + a.name))

    def ex_FunctionDef(self, node, frame):
        frame.env[node.name] = const(Closure(node, frame))

    def ex_Assert(self, node, frame):
        c = self.ev(node.test, frame)
        if not self.decide(self.truthy(c), self.lab(node, "assert")):
            raise PyRaise(Exc("AssertionError", tag=self.lab(node)))

    def ex_Delete(self, node, frame):
        for t in node.targets:
            if isinstance(t, ast.Name):
                if t.id in frame.env:
                    del frame.env[t.id]
                else:
                    raise Unsupported("del of non-local name")
            elif isinstance(t, ast.Subscript):
                from . import models

                base = self.ev(t.value, frame)
                if base.t.kind == "dict":
                    models.dict_delitem(self, base, self.ev(t.slice, frame), self.lab(t, "del"))
                elif base.t.kind == "list":
                    if isinstance(t.slice, ast.Slice):
                        if t.slice.step is not None:
                            raise Unsupported("del list slice with step")
                        lo = self.to_int(self.ev(t.slice.lower, frame)) if t.slice.lower is not None else None
                        hi = self.to_int(self.ev(t.slice.upper, frame)) if t.slice.upper is not None else None
                        st = self.content(base).t
                        models.list_setslice(self, base, lo, hi, V(st, z3.Empty(st.sort())))
                        continue
                    models.call_method(self, base, "pop", [self.ev(t.slice, frame)], {}, t)
                elif base.t.kind == "obj":
                    self.call_value(const(BoundMethod(base, "__delitem__")), [self.ev(t.slice, frame)], {}, t, frame)
                elif base.t.kind == "opaque":
                    models.call_method(self, base, "__delitem__", [self.ev(t.slice, frame)], {}, t)
                else:
                    raise Unsupported("del subscript on %s" % base.t)
            elif isinstance(t, ast.Attribute):
                base = self.ev(t.value, frame)
                if base.t.kind == "obj" and ("__missing_" + t.attr) in self.cell(base).content:
                    c = self.cell(base).content
                    self.fail_if(c["__missing_" + t.attr].z, "AttributeError", self.lab(t, "delattr"))
                    self.write_check(base.z)
                    c["__missing_" + t.attr] = mk_bool(True)
                else:
                    raise Unsupported("del attribute")
            else:
                raise Unsupported("del target")

    def ex_Raise(self, node, frame):
        if node.exc is None:
            cur = getattr(frame, "handling", None)
            f = frame
            while cur is None and f.parent is not None:
                f = f.parent
                cur = getattr(f, "handling", None)
            if cur is None:
                raise Unsupported("bare raise outside handler")
            raise PyRaise(cur)
        e = node.exc
        if isinstance(e, ast.Call):
            fn = self.ev(e.func, frame)
            if fn.is_const and isinstance(fn.z, DottedName):
                args = [self.ev(a, frame) for a in e.args]
                raise PyRaise(Exc(exc_canon(fn.z.name), args, tag=self.lab(node, "raise")))
            raise Unsupported("raise of computed class")
        v = self.ev(e, frame)
        if v.is_const and isinstance(v.z, DottedName):
            raise PyRaise(Exc(exc_canon(v.z.name), (), tag=self.lab(node, "raise")))
        if v.is_const and isinstance(v.z, Exc):
            raise PyRaise(v.z)
        if v.t.kind == "union" and any(m.kind == "opaque" and m.name == "exc" for m in v.t.members):
            self.fail_if(v.t.is_(v.z, T.NoneT), "TypeError", self.lab(node, "raise-none"))
            raise PyRaise(Exc("Exception", exact=False, tag="stored exception"))
        if v.t.kind == "opaque" and v.t.name == "exc":
            raise PyRaise(Exc("Exception", exact=False, tag="stored exception"))
        raise Unsupported("raise of %s" % v.t)

    # ---- try / with ---------------------------------------------------------------------
    def handler_matches(self, h, exc, frame, lab):
        """returns True/False; may fork when the exception class is not exact."""
        if h.type is None:
            names = ["BaseException"]
        else:
            tv = self.ev(h.type, frame)
            if tv.is_const and isinstance(tv.z, DottedName):
                names = [tv.z.name]
            elif tv.is_const and isinstance(tv.z, tuple):
                names = []
                for x in tv.z:
                    if not (x.is_const and isinstance(x.z, DottedName)):
                        raise Unsupported("except tuple member")
                    names.append(x.z.name)
            else:
                raise Unsupported("except type expression")
        names = [exc_canon(n) for n in names]
        if any(exc_subclass(exc.cls, n) for n in names):
            return True
        if exc.exact:
            return False
        # unknown subclass of exc.cls: may be one of the handler classes if they are below exc.cls
        below = [n for n in names if exc_subclass(n, exc.cls) and n not in exc.excluded]
        if not below:
            return False
        if self.choose([0, 1], lab + "?" + "|".join(below)) == 1:
            return True
        exc.excluded = exc.excluded + tuple(below)
        return False

    def ex_Try(self, node, frame):
        pending = None
        try:
            try:
                self.ex_block(node.body, frame)
            except PyRaise as pr:
                exc = pr.exc
                handled = False
                for hi, h in enumerate(node.handlers):
                    if self.handler_matches(h, exc, frame, self.lab(h, "except")):
                        handled = True
                        self.labels.append("%s:%s" % (self.lab(h, "except"), exc.cls))
                        if h.name:
                            frame.env[h.name] = const(exc)
                        prev = getattr(frame, "handling", None)
                        frame.handling = exc
                        try:
                            self.ex_block(h.body, frame)
                        finally:
                            frame.handling = prev
                            if h.name and h.name in frame.env:
                                del frame.env[h.name]
                        break
                if not handled:
                    raise
            else:
                self.ex_block(node.orelse, frame)
        except (PyRaise, ReturnEx, BreakEx, ContinueEx) as ctl:
            pending = ctl
        # finally (not executed for PathEnd / EngineError, which abort the path/run)
        if node.finalbody:
            self.ex_block(node.finalbody, frame)
        if pending is not None:
            raise pending

    def ex_With(self, node, frame):
        from . import models

        return models.exec_with(self, node, frame, 0)

    def ex_yield(self, ynode, frame):
        f = frame
        while f is not None and f.yielded is None:
            f = f.parent
        if f is None:
            raise Unsupported("yield outside generator under contract")
        if isinstance(ynode, ast.YieldFrom):
            raise Unsupported("yield from")
        val = self.ev(ynode.value, frame) if ynode.value is not None else mk_none()
        return self.ctx.on_yield(self, f, val, ynode)

    # ---- loops --------------------------------------------------------------------------
    def havoc_like(self, v, name):
        if v.is_const:
            return v
        if v.t.heap:
            return v  # reference itself unchanged; content havoced separately
        return fresh(v.t, name)

    def havoc_value_of_type(self, t, name):
        if t.heap:
            return self.ctx.alloc_symbolic(self, t, fresh_name(name))
        return fresh(t, name)

    def havoc_loc(self, loc, base):
        cell = self.heap[loc]
        self.write_check(loc)
        if cell.ty.kind in ("obj", "drec"):
            for k, fv in list(cell.content.items()):
                if fv.is_const or fv.t.heap or fv.t.kind == "lref":
                    continue  # references stay (what they refer to is havoced separately)
                if fv.t.kind == "nullable":
                    cell.content[k] = self.ctx.symbolic_value(self, fv.t, fresh_name("%s.%s" % (base, k)))
                    continue
                cell.content[k] = fresh(fv.t, "%s.%s" % (base, k))
        elif cell.ty.kind == "list" and cell.ty.elem is PENDING:
            raise EngineError("havoc of list with undetermined element type (declare a local type for %s)" % base)
        else:
            cell.content = fresh(cell.ty.content(), base)
            g = self.cell_ghost(loc)
            if g:
                self.ctx.havoc_cell_ghost(self, loc, g, base)

    def ex_For(self, node, frame):
        itv = self.ev(node.iter, frame)
        it = self.iter_of(itv, node)
        key = self.ctx.loop_key(node)
        spec = self.ctx.loop_spec(key)
        if it.concrete is not None and spec is None:
            # fixed number of iterations: exact unrolling
            try:
                for item in it.concrete:
                    self.assign(node.target, item, frame)
                    try:
                        self.ex_block(node.body, frame)
                    except ContinueEx:
                        continue
            except BreakEx:
                return
            self.ex_block(node.orelse, frame)
            return
        if it.concrete is not None:
            items = it.concrete
            it = Iter(z3.IntVal(len(items)), lambda i, items=items: self._pick(items, i), src_locs=it.src_locs)
        if spec is None:
            return self.unroll_for(node, frame, it, key)
        self.cut_loop(node, frame, key, spec, it)

    def _pick(self, items, i):
        res = items[-1]
        for j in range(len(items) - 2, -1, -1):
            if items[j].t != res.t:
                raise Unsupported("heterogeneous concrete iteration under invariant")
            res = V(res.t, z3.If(i == j, items[j].z, res.z))
        return res

    def unroll_for(self, node, frame, it, key):
        k = self.ctx.unroll_bound
        try:
            for j in range(k + 1):
                if not self.decide(it.n > j, "%s.unroll%d" % (key, j)):
                    self.ex_block(node.orelse, frame)
                    return
                if j == k:
                    self.ctx.note_bounded(key, k)
                    raise PathEnd()  # unwinding assumption
                self.assign(node.target, it.at(z3.IntVal(j)), frame)
                try:
                    self.ex_block(node.body, frame)
                except ContinueEx:
                    continue
        except BreakEx:
            return

    def ex_While(self, node, frame):
        key = self.ctx.loop_key(node)
        spec = self.ctx.loop_spec(key)
        if spec is None:
            k = self.ctx.unroll_bound
            try:
                for j in range(k + 1):
                    c = self.ev(node.test, frame)
                    if not self.decide(self.truthy(c), "%s.unroll%d" % (key, j)):
                        self.ex_block(node.orelse, frame)
                        return
                    if j == k:
                        self.ctx.note_bounded(key, k)
                        raise PathEnd()
                    try:
                        self.ex_block(node.body, frame)
                    except ContinueEx:
                        continue
            except BreakEx:
                return
            return
        self.cut_loop(node, frame, key, spec, None)

    def spec_eval_in_frame(self, src, frame, extra):
        """Evaluate a clause (string) purely over the *current* program state of ``frame``."""
        node = self.ctx.parse_clause(src)
        env = dict(self.ctx.spec_base_env(self))
        f = frame
        chain = []
        while f is not None:
            chain.append(f)
            f = f.parent
        for f in reversed(chain):
            for k2, v2 in f.env.items():
                if v2 is not UNDEFINED:
                    env[k2] = v2
        env.update(extra)
        saved = (self.pure, self.spec_env, self.old_heap)
        self.pure, self.spec_env, self.old_heap = True, env, None
        try:
            return self.ev(node, None)
        finally:
            self.pure, self.spec_env, self.old_heap = saved

    def cut_loop(self, node, frame, key, spec, it):
        is_for = it is not None
        ctx = self.ctx
        invs = spec.get("invariant", [])
        if isinstance(invs, str):
            invs = [invs]
        inv_items = list(invs.items()) if isinstance(invs, dict) else [("inv%d" % (i + 1), s) for i, s in enumerate(invs)]
        variant = spec.get("variant")
        extra0 = {"_i": mk_int(0), "_n": mk_int(it.n) if is_for else mk_int(0)}
        if is_for and getattr(it, "seq", None) is not None:
            extra0["_seq"] = it.seq
        self.loop_pre = getattr(self, "loop_pre", {})
        self.loop_pre[key] = (self.snapshot(), dict(self.ghost))
        self.cur_loop_key = key
        if spec.get("snapshot"):
            if not hasattr(self, "named_heaps"):
                self.named_heaps = {}
            self.named_heaps[spec["snapshot"]] = self.loop_pre[key][0]  # at('<label>', e): value at this loop's entry
        # 1. invariant holds on entry
        for lbl, src in inv_items:
            g = self.truthy(self.spec_eval_in_frame(src, frame, extra0))
            ctx.add_obligation(self, "inv-entry", "%s.%s" % (key, lbl), g, clause=src, line=node.lineno)
        target_before = None
        if is_for and isinstance(node.target, ast.Name):
            tb = frame.lookup(node.target.id)
            target_before = tb if tb is not None and tb is not UNDEFINED else None
        # 2. havoc what the body can change
        names = assigned_names(node.body + (node.orelse if False else []))
        if is_for:
            names |= assigned_names_target(node.target)
        names |= set(spec.get("havoc", []))
        mut_roots = mutated_roots(node.body) | set(spec.get("havoc", []))
        if "havoc_only" in spec:
            mut_roots = set(spec["havoc_only"])  # the contract states the loop's heap frame explicitly
        locs = set()
        for n in sorted(mut_roots):
            v = frame.lookup(n) or ctx.lookup_global(self, n)
            if v is not None and v is not UNDEFINED and v.t.heap:
                locs |= self.reachable(v)
        for e in spec.get("havoc_exprs", []):
            v = self.spec_eval_in_frame(e, frame, {})
            if v.t.heap:
                locs |= self.reachable(v)
        for e in spec.get("havoc_shallow", []):
            v = self.spec_eval_in_frame(e, frame, {})
            if v.t.heap:
                locs.add(v.z)  # this object's own data fields only, not what it refers to
        if is_for:
            for sl in it.src_locs:
                if sl in locs and not spec.get("mutates_iterated", False):
                    raise Unsupported("loop body may mutate the list it iterates over")
        entry_epoch = self.epoch
        for loc in sorted(locs):
            self.havoc_loc(loc, "h%s" % key.replace("#", ""))
        declared = set()
        for n in sorted(names):
            o = frame.owner(n)
            if n in frame.globals:
                gv = ctx.lookup_global(self, n)
                if gv is not None and not gv.t.heap and not gv.is_const:
                    ctx.set_global(self, n, fresh(gv.t, n))
                continue
            if o is None:
                lt = ctx.local_type(frame, n)
                if lt is not None and n in spec.get("defined", []):
                    frame.env[n] = self.havoc_value_of_type(lt, n)
                continue
            v = o.env[n]
            if v is UNDEFINED:
                continue
            lt = ctx.local_type(frame, n)
            if lt is not None and not lt.heap:
                o.env[n] = fresh(lt, n)
            else:
                o.env[n] = self.havoc_like(v, n)
        ctx.havoc_logs(self, node.body, key)
        ctx.havoc_extra(self, spec)
        idx = z3.Int(fresh_name("_i"))
        extra = {"_i": mk_int(idx), "_n": mk_int(it.n) if is_for else mk_int(0)}
        if "_seq" in extra0:
            extra["_seq"] = extra0["_seq"]
        if is_for:
            self.assume(z3.And(idx >= 0, idx <= it.n))
        cover = is_for and self.feasible(z3.And(idx >= 1, idx < it.n))
        for lbl, src in inv_items:
            self.assume(self.truthy(self.spec_eval_in_frame(src, frame, extra)))
        if not is_for and inv_items:
            # vacuity guard for while loops: the assumed invariant must be satisfiable at all on this path
            probe = z3.Bool(fresh_name("wcover"))
            if not self.feasible(probe):
                ctx.add_obligation(self, "cover", "%s.invariant-is-satisfiable" % key, z3.BoolVal(False),
                                   clause="the invariant of %s contradicts the path that reaches the loop (a vacuous proof)" % key, line=node.lineno)
        if cover and not self.feasible(z3.And(idx >= 1, idx < it.n)):
            # vacuity guard: the assumed invariant must not rule out every iteration after the first
            ctx.add_obligation(self, "cover", "%s.reaches-a-second-iteration" % key, z3.BoolVal(False),
                               clause="the invariant of %s is contradictory for _i >= 1 (a vacuous proof)" % key, line=node.lineno)
        self.loop_frames.append((entry_epoch, locs))
        undefined_after = [n for n in names if frame.owner(n) is None and n not in frame.globals]
        try:
            if is_for:
                go = self.decide(idx < it.n, key + ".iter")
            else:
                c = self.ev(node.test, frame)
                go = self.decide(self.truthy(c), key + ".iter")
            if go:
                v0 = None
                if variant is not None:
                    v0 = self.to_int(self.spec_eval_in_frame(variant, frame, extra))
                    ctx.add_obligation(self, "variant-bounded", key, v0 >= 0, clause=variant, line=node.lineno)
                if is_for:
                    self.assign(node.target, it.at(idx), frame)
                try:
                    self.ex_block(node.body, frame)
                except ContinueEx:
                    pass
                extra2 = {"_i": mk_int(idx + 1), "_n": extra["_n"]}
                if "_seq" in extra0:
                    extra2["_seq"] = extra0["_seq"]
                for lbl, src in inv_items:
                    g = self.truthy(self.spec_eval_in_frame(src, frame, extra2))
                    ctx.add_obligation(self, "inv-preserved", "%s.%s" % (key, lbl), g, clause=src, line=node.lineno)
                if v0 is not None:
                    v1 = self.to_int(self.spec_eval_in_frame(variant, frame, extra2))
                    ctx.add_obligation(self, "variant-decreases", key, v1 < v0, clause=variant, line=node.lineno)
                raise PathEnd()
        except BreakEx:
            self.loop_frames.pop()
            self.labels.append(key + ".break")
            return
        except BaseException:
            self.loop_frames.pop()
            raise
        self.loop_frames.pop()
        # fall-through exit: invariant and not guard
        for n in undefined_after:
            frame.env[n] = UNDEFINED
        if is_for and spec.get("final_target") and isinstance(node.target, ast.Name) \
                and node.target.id not in assigned_names(node.body):
            # python leaves the loop variable bound to the last item (or untouched when there was none)
            if self.decide(it.n > 0, key + ".nonempty"):
                self.assign(node.target, it.at(it.n - 1), frame)
            elif target_before is not None:
                frame.env[node.target.id] = target_before
        self.ex_block(node.orelse, frame)

    def reachable(self, v):
        out = set()
        stack = [v]
        while stack:
            x = stack.pop()
            if not x.t.heap or x.z in out:
                continue
            out.add(x.z)
            c = self.heap[x.z].content
            if isinstance(c, dict):
                stack.extend(fv for fv in c.values() if isinstance(fv, V) and fv.t.heap)
        return out


def _finite_set_keys(z):
    """keys of a set term written as Store(...Store(K(False), k1, True)..., kn, True), else None"""
    keys = []
    x = z
    for _ in range(64):
        if z3.is_app(x) and x.decl().kind() == z3.Z3_OP_STORE and z3.is_true(x.arg(2)):
            keys.append(x.arg(1))
            x = x.arg(0)
        elif z3.is_app(x) and x.decl().kind() == z3.Z3_OP_CONST_ARRAY and z3.is_false(x.arg(0)):
            return list(reversed(keys))
        else:
            return None
    return None


class _Undefined:
    def __repr__(self):
        return "UNDEFINED"


UNDEFINED = _Undefined()


class _Pending(T.Ty):
    kind = "pending"

    def key(self):
        return "pending"


PENDING = _Pending()


def assigned_names_target(t):
    out = set()
    for n in ast.walk(t):
        if isinstance(n, ast.Name):
            out.add(n.id)
    return out


def assigned_names(stmts):
    out = set()
    for s in stmts:
        for n in ast.walk(s):
            if isinstance(n, (ast.FunctionDef, ast.Lambda)) and n is not s:
                pass
            if isinstance(n, ast.Name) and isinstance(n.ctx, (ast.Store, ast.Del)):
                out.add(n.id)
            elif isinstance(n, ast.ExceptHandler) and n.name:
                out.add(n.name)
            elif isinstance(n, (ast.Import, ast.ImportFrom)):
                for a in n.names:
                    out.add(a.asname or a.name.split(".")[0])
            elif isinstance(n, ast.FunctionDef):
                out.add(n.name)
    return out


MUTATING_METHODS = {
    "append", "appendleft", "extend", "extendleft", "insert", "pop", "popleft", "remove", "clear", "sort",
    "reverse", "add", "discard", "update", "setdefault", "popitem", "rotate", "difference_update",
    "intersection_update", "symmetric_difference_update", "write", "close",
}


NON_MUTATING_METHODS = {
    "get", "keys", "values", "items", "startswith", "endswith", "find", "rfind", "index", "count", "copy", "lower",
    "upper", "casefold", "strip", "lstrip", "rstrip", "split", "rsplit", "splitlines", "join", "format", "encode",
    "decode", "replace", "isdigit", "isalnum", "isalpha", "isspace", "partition", "rpartition", "poll", "match",
    "search", "group", "groups", "span", "start", "end", "time", "exists", "isdir", "isfile", "getmtime", "getsize",
    "fullmatch", "title", "translate", "is_in_scope", "load",
}
PURE_BUILTINS = {
    "len", "str", "repr", "int", "float", "bool", "isinstance", "callable", "getattr", "hasattr", "list", "tuple",
    "set", "frozenset", "dict", "sorted", "reversed", "enumerate", "zip", "map", "filter", "range", "min", "max", "abs",
    "sum", "any", "all", "print", "id", "type", "ord", "chr", "iter", "next",
}


def root_name(node):
    while isinstance(node, (ast.Attribute, ast.Subscript, ast.Call)):
        node = node.value if not isinstance(node, ast.Call) else node.func
    return node.id if isinstance(node, ast.Name) else None


def mutated_roots(stmts):
    """names through which the statements may mutate heap objects (syntactic over-approximation
    for: attribute/subscript stores, augmented assignments on them, del, mutating method calls,
    and any call that receives the name as receiver or argument)."""
    out = set()
    for s in stmts:
        for n in ast.walk(s):
            if isinstance(n, (ast.Attribute, ast.Subscript)) and isinstance(n.ctx, (ast.Store, ast.Del)):
                r = root_name(n)
                if r:
                    out.add(r)
            elif isinstance(n, ast.AugAssign):
                r = root_name(n.target)
                if r:
                    out.add(r)
            elif isinstance(n, ast.Call):
                if isinstance(n.func, ast.Attribute):
                    r = root_name(n.func)
                    if r and n.func.attr not in NON_MUTATING_METHODS:
                        out.add(r)
                if isinstance(n.func, ast.Name) and n.func.id in PURE_BUILTINS:
                    continue
                for a in list(n.args) + [k.value for k in n.keywords]:
                    if isinstance(a, ast.Starred):
                        a = a.value
                    r = root_name(a) if isinstance(a, (ast.Name, ast.Attribute, ast.Subscript)) else None
                    if r:
                        out.add(r)
    return out
