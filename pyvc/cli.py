"""xv: check / replay driver.  Exit codes: 0 held, 1 VIOLATION, 2 undecided, 3 checker error."""
import argparse
import glob
import hashlib
import importlib
import json
import multiprocessing as mp
import os
import subprocess
import sys
import time
import traceback

HERE = os.path.dirname(os.path.dirname(os.path.abspath(__file__)))
REPO = os.environ.get("XV_REPO", "/repo")


def contract_modules(prop):
    mods = []
    for p in sorted(glob.glob(os.path.join(HERE, "contracts", prop + "_*.py"))):
        mods.append("contracts." + os.path.basename(p)[:-3])
    return mods


def load_contracts(prop):
    from . import contract as C

    for m in contract_modules(prop):
        importlib.import_module(m)
    return C.BY_PROP.get(prop, [])


def load_known(prop):
    p = os.path.join(HERE, "KNOWN_FINDINGS.json")
    if not os.path.exists(p):
        return []
    with open(p) as f:
        data = json.load(f)
    return [e for e in data.get("findings", []) if e.get("property") == prop]


# ------------------------------------------------------------------------------ worker
def obligation_record(ob):
    return {
        "name": ob.name, "kind": ob.kind, "label": ob.label, "verdict": ob.verdict,
        "time": round(ob.time, 4), "solver": ob.solver, "clause": ob.clause, "detail": ob.detail,
        "bounded": getattr(ob, "bounded", None), "line": ob.line,
        "size": len(ob.assumptions), "via": getattr(ob, "via", None),
    }


def confirm_refutation(prop, target, sha, ob, rec, repo, fv=None):
    """model -> concrete inputs -> replay on the real code (same tree the VCs came from)"""
    from . import modelval

    rec["model_text"] = str(ob.model)[:4000] if ob.model is not None else None
    if ob.model is not None and ob.inputs:
        try:
            vals = {}
            for name, tree in ob.inputs:
                vals[name] = modelval.to_json(modelval.pyval(ob.model, tree))
            c = fv.c if fv is not None else None
            if c is not None and c.replay_extras is not None:
                plain = modelval.from_json(vals)
                extra = c.replay_extras(lambda src: fv.model_eval(ob, src), plain)
                for k_, v_ in (extra or {}).items():
                    vals[k_] = modelval.to_json(v_)
            rec["inputs"] = vals
        except modelval.Unrepresentable as e:
            rec["inputs_error"] = "model value not representable: %s" % e
        except Exception as e:  # noqa
            rec["inputs_error"] = "model conversion failed: %r" % (e,)
    os.makedirs(os.path.join(HERE, "replays"), exist_ok=True)
    rp = os.path.join(HERE, "replays", "%s-%s.json" % (prop, hashlib.sha1(ob.name.encode()).hexdigest()[:12]))
    doc = {"property": prop, "target": target, "obligation": ob.name, "kind": ob.kind, "label": ob.label,
           "clause": ob.clause, "source_sha256_16": sha, "solver": ob.solver,
           "model": rec.get("model_text"), "inputs": rec.get("inputs"), "inputs_error": rec.get("inputs_error"),
           "replay_cmd": "./xv replay " + os.path.relpath(rp, HERE)}
    with open(rp, "w") as f:
        json.dump(doc, f, indent=1)
    r = {"status": "no-inputs"}
    if rec.get("inputs") is not None:
        r = run_replay(rp, repo)
    doc["replay_result"] = r
    doc["confirmed"] = r.get("status") == "fail"
    if r.get("status") == "pre-false":
        doc["note"] = "solver model violates a native precondition (model of an under-specified value)"
    with open(rp, "w") as f:
        json.dump(doc, f, indent=1)
    rec["replay_path"] = os.path.relpath(rp, HERE)
    rec["replay_result"] = r
    rec["confirmed"] = doc["confirmed"]

# termination measures are part of what the properties state ("always terminates"), so a failing
# variant is a contract-level failure; loop invariants are proof artefacts (internal)
CONTRACT_KINDS = ("ensures", "ensures-exc", "raises", "must-raise", "no-exception", "callpre", "flag", "trace", "frame", "assert",
                  "decreases", "variant-bounded", "variant-decreases")
INTERNAL_KINDS = ("inv-entry", "inv-preserved")


def solve_all(prop, target, fv, obs, repo, tier, timeout_ms, cross, budget_s=None):
    """Two passes: (1) every obligation with a short z3 budget and, on unknown, a finite-instantiation
    counter-model search; (2) the still-open ones with the full schedule (z3 long, cvc5, z3 4.8) while
    the per-function wall budget lasts.  Past the budget an obligation stays `unknown`."""
    from . import solve
    import z3

    z3.set_param("memory_max_size", 12000)
    if budget_s is None:
        budget_s = 240 if tier == "quick" else 1800
    t_start = time.time()
    recs = {}
    hard = []
    hints = load_hints(prop)
    for ob in obs:
        solve.solve_one(ob, timeout_ms=2000, use_cvc5=True, cross=False, early_cvc5_ms=6000, stop_after_early=True,
                        prefer_cvc5=obl_key(ob.name) in hints)
        rec = obligation_record(ob)
        if ob.verdict == "refuted":
            confirm_refutation(prop, target, fv.sha, ob, rec, repo, fv)
            if rec.get("via") == "finite-instantiation" and not rec.get("confirmed"):
                rec["discarded_candidate"] = {"inputs": rec.get("inputs"), "replay": rec.get("replay_result"), "replay_path": rec.get("replay_path")}
                hard.append(ob)
        elif ob.verdict == "unknown":
            hard.append(ob)
        recs[ob.name] = rec
    for ob in hard:
        left = budget_s - (time.time() - t_start)
        cand = recs[ob.name].get("discarded_candidate")
        if left <= 1:
            rec = recs[ob.name]
            rec["verdict"] = "unknown"
            rec["detail"] = (rec.get("detail") or "") + " per-function solver budget exhausted"
            continue
        ob.verdict, ob.model, ob.via = None, None, None
        tmo = int(min(timeout_ms, left * 1000 / 3 + 1000))
        solve.solve_one(ob, timeout_ms=tmo, cross=False, finite=True, skip_short=True)
        rec = obligation_record(ob)
        if ob.verdict == "refuted":
            confirm_refutation(prop, target, fv.sha, ob, rec, repo, fv)
            if rec.get("via") == "finite-instantiation" and not rec.get("confirmed"):
                # the candidate of the weaker (finitely instantiated) formula did not replay: keep it for the report, go on proving
                cand = {"inputs": rec.get("inputs"), "replay": rec.get("replay_result"), "replay_path": rec.get("replay_path")}
                ob.verdict, ob.model, ob.via = None, None, None
                solve.solve_one(ob, timeout_ms=tmo, cross=False, finite=False, skip_short=True)
                rec = obligation_record(ob)
                if ob.verdict == "refuted":
                    confirm_refutation(prop, target, fv.sha, ob, rec, repo, fv)
        if cand:
            rec["discarded_candidate"] = cand
        recs[ob.name] = rec
    if cross:
        for ob in obs:
            if recs[ob.name]["verdict"] in ("discharged", "refuted") and "cvc5" not in (recs[ob.name].get("solver") or ""):
                r = solve.cross_check(ob, timeout_ms)
                if r:
                    recs[ob.name]["verdict"] = "solver-disagreement"
                    recs[ob.name]["detail"] = r
    return [recs[ob.name] for ob in obs]


def verify_worker(job):
    prop, target, repo, tier, timeout_ms, canary = job[:6]
    shard, nshards = (job[6], job[7]) if len(job) > 7 else (0, 1)
    t0 = time.time()
    out = {"target": target, "obligations": [], "undecided": None, "error": None, "fallback": None}
    from .core import EngineError
    import copy as _copy

    try:
        import z3  # noqa
        from . import contract as C, verify, solve

        load_contracts(prop)
        c = [x for x in C.BY_PROP[prop] if x.key == target][0]
        c.known = [k for k in load_known(prop) if k.get("status") == "known" and k.get("target") == c.target]
        need_fallback = False
        try:
            fv = verify.FnVerifier(c, repo, tier=tier)
            out["sha"] = fv.sha
            out["lines"] = fv.nlines
            obs = fv.generate(budget_s=600 if tier == "quick" else 3600)
            out["n_generated"] = len(obs)
            if nshards > 1:
                # obligation-level parallelism: every shard regenerates (cheap) and solves its share
                obs = [o for i, o in enumerate(obs) if i % nshards == shard]
            out["obligations"] = solve_all(prop, target, fv, obs, repo, tier, timeout_ms, tier == "thorough")
            out["assumed"] = fv.assumed
            out["abstracted"] = fv.abstract_notes
            out["bounded_loops"] = fv.bounded_notes
            out["stats"] = fv.stats
            need_fallback = any(r["verdict"] != "discharged" and r["kind"] in INTERNAL_KINDS for r in out["obligations"])
        except EngineError as e:
            out["undecided"] = "%s: %s" % (type(e).__name__, e)
            need_fallback = bool(c.loops)
        if need_fallback and c.loops:
            # proof lost (an invariant no longer holds or no longer matches the code): bounded
            # symbolic stand-in - same contract, loops unrolled k times instead of cut
            k = 3 if tier == "quick" else 5
            fb = {"k": k, "obligations": [], "undecided": None}
            try:
                c2 = _copy.copy(c)
                c2.loops = {}
                c2.unroll = k
                fv2 = verify.FnVerifier(c2, repo, tier=tier)
                out.setdefault("sha", fv2.sha)
                obs2 = [o for o in fv2.generate(budget_s=90 if tier == "quick" else 900) if o.kind in CONTRACT_KINDS]
                fb["obligations"] = solve_all(prop, target, fv2, obs2, repo, tier, timeout_ms, False, budget_s=100 if tier == "quick" else 600)
            except EngineError as e:
                fb["undecided"] = "%s: %s" % (type(e).__name__, e)
            except Exception as e:  # noqa  (solver resource errors in the stand-in are not verdicts)
                fb["undecided"] = "%s: %s" % (type(e).__name__, str(e)[:200])
            out["fallback"] = fb
        if canary and not out["undecided"] and shard == 0:
            # vacuity canary: `ensures False` must be refuted on at least one path
            c2 = _copy.copy(c)
            c2.ensures = {"canary": "False"}
            c2.lemmas = []
            fv2 = verify.FnVerifier(c2, repo, tier=tier)
            obs2 = [o for o in fv2.generate(budget_s=300) if o.kind == "ensures"]
            refuted = 0
            for ob in obs2:
                solve.solve_one(ob, timeout_ms=timeout_ms, use_cvc5=False)
                if ob.verdict == "refuted":
                    refuted += 1
                    break
                if ob.verdict == "unknown":
                    # a canary only asks "is some exit path reachable with the ensures checked": an untrusted-for-verdicts cvc5 `sat` is enough here
                    outc, _dt = solve.run_cli([solve.CVC5, "--strings-exp", "--tlimit=20000"], solve.to_smt2(ob.assumptions, ob.goal), 20)
                    if outc != "sat":
                        # the quantified well-formedness axioms make `sat` undecidable for both solvers: ask for the quantifier-free part only
                        # (reachability of the exit under the path condition proper; the axioms describe inputs that exist, e.g. any real dict)
                        from .interp import has_quant as _hq

                        qf = [a for a in ob.assumptions if not _hq(a)]
                        outc, _dt = solve.run_cli([solve.CVC5, "--strings-exp", "--tlimit=20000"], solve.to_smt2(qf, ob.goal), 20)
                    if outc == "sat":
                        refuted += 1
                        break
            out["canary"] = {"ensures_paths": len(obs2), "refuted": refuted}
    except Exception:  # noqa
        out["error"] = traceback.format_exc()
    out["wall"] = round(time.time() - t0, 3)
    return out


def native_worker(job):
    """run a native (enum / bounded) check in a subprocess with the tree on PYTHONPATH"""
    prop, name, repo, tier, seed = job
    env = dict(os.environ)
    env["PYTHONPATH"] = repo + os.pathsep + HERE
    env["XV_REPO"] = repo
    cmd = [sys.executable, "-m", "pyvc.nativecheck", prop, name, tier, str(seed)]
    t0 = time.time()
    try:
        p = subprocess.run(cmd, capture_output=True, text=True, env=env, cwd=HERE, timeout=3000)
        line = [l for l in p.stdout.splitlines() if l.startswith("RESULT ")]
        if not line:
            return {"name": name, "error": "native check produced no result (rc=%s)\n%s\n%s" % (p.returncode, p.stdout[-2000:], p.stderr[-4000:])}
        res = json.loads(line[-1][7:])
    except subprocess.TimeoutExpired:
        return {"name": name, "error": "native check timed out"}
    res["name"] = name
    res["wall"] = round(time.time() - t0, 3)
    return res


def run_replay(path, repo):
    env = dict(os.environ)
    env["PYTHONPATH"] = repo + os.pathsep + HERE
    env["XV_REPO"] = repo
    try:
        p = subprocess.run([sys.executable, "-m", "pyvc.replay", path], capture_output=True, text=True, env=env, cwd=HERE, timeout=600)
    except subprocess.TimeoutExpired:
        return {"status": "error", "detail": "replay timed out"}
    line = [l for l in p.stdout.splitlines() if l.startswith("REPLAY ")]
    if not line:
        return {"status": "error", "detail": (p.stdout[-1500:] + p.stderr[-3000:])}
    return json.loads(line[-1][7:])


def obl_key(name):
    """function / kind[label] of an obligation name (path id dropped)"""
    return name.split("@")[0]


def load_hints(prop):
    """obligation keys last discharged by cvc5 (pure scheduling hint: which solver to ask first)"""
    p = os.path.join(HERE, "baseline", "solver_hints.json")
    if not os.path.exists(p):
        return set()
    with open(p) as f:
        return set(json.load(f).get(prop, []))


def load_baseline(prop):
    p = os.path.join(HERE, "baseline", "obligations.json")
    if not os.path.exists(p):
        return {}
    with open(p) as f:
        return json.load(f).get(prop, {})


# ------------------------------------------------------------------------------ check
def check(prop, tier, repo, seed, jobs):
    from . import contract as C

    t0 = time.time()
    for old in glob.glob(os.path.join(HERE, "replays", prop + "-*.json")):
        os.unlink(old)
    contracts = load_contracts(prop)
    if not contracts:
        print("CHECKER-ERROR no contracts for %s" % prop)
        return 3
    natives = list(C.NATIVE_CHECKS.get(prop, []))
    timeout_ms = 15000 if tier == "quick" else 60000
    vjobs = []
    for c in contracts:
        if c.verify:
            n = max(1, int(getattr(c, "shards", 1) or 1))
            for sh in range(n):
                vjobs.append((prop, c.key, repo, tier, timeout_ms, tier == "thorough", sh, n))
    njobs = [(prop, n["name"], repo, tier, seed) for n in natives if tier in n.get("tiers", ("quick", "thorough"))]
    njobs += [(prop, "domain:" + c.target, repo, tier, seed) for c in contracts if c.native_domain is not None]
    ctx = mp.get_context("fork")
    if njobs:
        # xonsh writes its PLY parser tables next to the sources on first import when they are missing (a fresh copy of the tree):
        # do that ONCE here, so that native checks started in parallel never race on half-written table modules
        try:
            subprocess.run([sys.executable, "-c", "import warnings; warnings.simplefilter('ignore'); from xonsh.parser import Parser; Parser(); "
                            "from xonsh.parsers.completion_context import CompletionContextParser; CompletionContextParser()"],
                           env=dict(os.environ, PYTHONPATH=repo + os.pathsep + HERE), capture_output=True, timeout=300, stdin=subprocess.DEVNULL)
        except Exception:  # noqa  (a tree that does not import shows up in the native checks themselves)
            pass
    with ctx.Pool(min(jobs, max(1, len(vjobs) + len(njobs)))) as pool:
        vres_async = pool.map_async(verify_worker, vjobs, chunksize=1)
        nres_async = pool.map_async(native_worker, njobs, chunksize=1)
        vres = vres_async.get()
        nres = nres_async.get()
    known = load_known(prop)
    os.makedirs(os.path.join(HERE, "replays"), exist_ok=True)
    os.makedirs(os.path.join(HERE, "evidence"), exist_ok=True)

    violations = []  # (replay path, suffix, obligation)
    known_lines = []
    proof_lost = []  # downgraded, not an alarm
    undecided = []  # nothing could decide it -> exit 2
    errors = []
    n_obl = n_dis = 0
    by_backend = {}
    solver_time = 0.0
    slowest = []
    samples = []
    functions = []
    assumed = []
    abstracted = []
    bounded = []
    all_obl_names = []
    domain_results = {r.get("name"): r for r in nres if str(r.get("name", "")).startswith("domain:")}

    # --- known findings: replay witnesses natively (on this tree)
    for kf in known:
        if kf.get("status") != "known":
            continue
        if kf.get("native_check") and kf.get("native_class"):
            continue  # reported by that native check itself (it re-finds the class on every run)
        rp = os.path.join(HERE, "replays", "%s-known-%s.json" % (prop, kf["id"]))
        with open(rp, "w") as f:
            json.dump({"property": prop, "target": kf.get("target"), "obligation": kf.get("obligation"), "inputs": kf["witness"],
                       "label": kf.get("label"), "native_check": kf.get("native_check"), "known_id": kf["id"]}, f, indent=1)
        r = run_replay(rp, repo)
        if r.get("status") == "fail":
            known_lines.append("KNOWN-FINDING: property=%s %s [%s]" % (prop, kf["text"], kf["id"]))
        elif r.get("status") == "pass":
            print("NOTE known finding %s no longer reproduces on this tree (witness passes)" % kf["id"])
        else:
            errors.append("known-finding witness %s could not be replayed: %s" % (kf["id"], r.get("detail")))

    baseline = load_baseline(prop)

    def regressed(ob):
        """An obligation that passed on the unchanged tree and now fails (brief: reportable even without a
        failing input): it is undecided by the complete query, a finite-instantiation counter-model exists
        that could NOT be replayed (no native harness - as opposed to a replay that passed), and every
        obligation of the same function / kind / label was discharged in the committed baseline."""
        cand = ob.get("discarded_candidate")
        if ob["verdict"] != "unknown" or not cand:
            return False
        st = (cand.get("replay") or {}).get("status")
        if st in ("pass", "pre-false"):
            return False
        return baseline.get(obl_key(ob["name"])) == "discharged"

    def report_refuted(ob):
        if ob.get("confirmed"):
            violations.append((ob.get("replay_path"), "", ob["name"]))
        elif ob.get("via") == "finite-instantiation":
            return False
        else:
            violations.append((ob.get("replay_path"), " no-failing-input-found", ob["name"]))
        return True

    merged = {}
    for res in vres:
        t_ = res["target"]
        if t_ not in merged:
            merged[t_] = res
            continue
        m_ = merged[t_]
        m_["obligations"] = m_.get("obligations", []) + res.get("obligations", [])
        m_["wall"] = max(m_.get("wall", 0), res.get("wall", 0))
        for k_ in ("error", "undecided"):
            m_[k_] = m_.get(k_) or res.get(k_)
        if res.get("fallback") and not m_.get("fallback"):
            m_["fallback"] = res["fallback"]
        for k_ in ("assumed", "abstracted"):
            for a_ in res.get(k_) or []:
                if a_ not in (m_.get(k_) or []):
                    m_.setdefault(k_, []).append(a_)
    vres = list(merged.values())
    for res in vres:
        if res.get("error"):
            errors.append("%s: %s" % (res["target"], res["error"]))
            continue
        qual = res["target"].split("::")[1]
        functions.append({"target": res["target"], "sha256_16": res.get("sha"), "lines": res.get("lines"),
                          "obligations": len(res["obligations"]), "wall_s": res.get("wall"),
                          "paths": (res.get("stats") or {}).get("paths")})
        for a in res.get("assumed", []) or []:
            assumed.append("%s: %s (%s)" % (qual, a[0], a[1]))
        for a in res.get("abstracted", []) or []:
            abstracted.append("%s %s" % (qual, a))
        if res.get("canary") is not None and res["canary"]["ensures_paths"] and not res["canary"]["refuted"]:
            errors.append("%s: vacuity canary `ensures False` was NOT refuted" % res["target"])
        if not res["obligations"] and not res.get("undecided"):
            errors.append("%s: zero obligations generated" % res["target"])
        lost = []  # reasons the unbounded proof of this function is gone
        if res.get("undecided"):
            lost.append(res["undecided"])
        for ob in res["obligations"]:
            all_obl_names.append(ob["name"])
            solver_time += ob["time"]
            slowest.append((ob["time"], ob["name"]))
            if ob.get("bounded"):
                bounded.append({"obligation": ob["name"], "why": ob["bounded"], "verdict": ob["verdict"]})
            else:
                n_obl += 1
            if ob["verdict"] == "discharged":
                if not ob.get("bounded"):
                    n_dis += 1
                    by_backend[ob["solver"]] = by_backend.get(ob["solver"], 0) + 1
            elif ob["verdict"] == "solver-disagreement":
                errors.append("solver disagreement on %s: %s" % (ob["name"], ob["detail"]))
            elif ob["kind"] == "lemma":
                errors.append("lemma not discharged: %s (%s %s)" % (ob["name"], ob["verdict"], ob["detail"]))
            elif ob["kind"] == "cover":
                errors.append("vacuity guard: %s - %s" % (ob["name"], ob["clause"]))
            elif ob["kind"] in INTERNAL_KINDS:
                if ob["verdict"] == "refuted" and ob.get("confirmed"):
                    violations.append((ob.get("replay_path"), "", ob["name"]))
                else:
                    lost.append("%s %s" % (ob["name"], ob["verdict"]))
            else:
                if ob["verdict"] == "refuted":
                    if not report_refuted(ob):
                        lost.append("%s unknown (unconfirmed candidate model)" % ob["name"])
                elif regressed(ob):
                    violations.append((ob["discarded_candidate"].get("replay_path"), " no-failing-input-found", ob["name"]))
                else:
                    lost.append("%s %s %s" % (ob["name"], ob["verdict"], ob["detail"]))
        for ob in res["obligations"][:2]:
            samples.append({"obligation": ob["name"], "clause": ob["clause"], "verdict": ob["verdict"], "solver": ob["solver"],
                            "time_s": ob["time"], "assumptions": ob["size"]})
        if lost:
            stand_ins = []
            decided = False
            fb = res.get("fallback")
            if fb is not None and not fb.get("undecided"):
                bad = [o for o in fb["obligations"] if o["verdict"] != "discharged"]
                for o in fb["obligations"]:
                    bounded.append({"obligation": o["name"], "why": "fallback: loops unrolled %d times" % fb["k"], "verdict": o["verdict"]})
                    if o["verdict"] == "refuted":
                        report_refuted(o)
                if not bad:
                    stand_ins.append("bounded symbolic stand-in passed (every loop unrolled %d times, %d obligations)" % (fb["k"], len(fb["obligations"])))
                    decided = True
                elif any(o["verdict"] == "refuted" and (o.get("confirmed") or o.get("via") != "finite-instantiation") for o in bad):
                    decided = True
            dr = domain_results.get("domain:" + res["target"])
            if dr is not None and not dr.get("error"):
                if not dr.get("failures"):
                    stand_ins.append("native bounded domain passed (%s evaluations, %s)" % (dr.get("evaluations"), dr.get("domain")))
                    decided = True
                else:
                    decided = True  # reported below with the other native failures
            entry = {"target": res["target"], "reasons": lost[:6], "stand_ins": stand_ins}
            if decided:
                proof_lost.append(entry)
            else:
                undecided.append(entry)

    native_summ = []
    enum_evals = 0
    for r in nres:
        if r.get("error"):
            errors.append("native check %s: %s" % (r.get("name"), r["error"]))
            continue
        native_summ.append({k: r.get(k) for k in ("name", "kind", "evaluations", "distinct_nontrivial", "exhaustive", "bound", "domain", "wall", "failures_n", "samples")})
        enum_evals += r.get("evaluations", 0)
        if r.get("kind") == "enum":
            n_obl += r.get("obligations", 1)
            if not r.get("failures"):
                n_dis += r.get("obligations", 1)
                by_backend["enum(native, exhaustive)"] = by_backend.get("enum(native, exhaustive)", 0) + r.get("obligations", 1)
        for fl in r.get("failures", [])[:3]:
            rp = os.path.join(HERE, "replays", "%s-%s.json" % (prop, hashlib.sha1((r["name"] + json.dumps(fl, sort_keys=True, default=str)).encode()).hexdigest()[:12]))
            doc = {"property": prop, "native_check": r["name"], "target": fl.get("target"), "obligation": "%s/%s/%s" % (prop, r["name"], fl.get("clause", "")),
                   "inputs": fl.get("inputs"), "observed": fl.get("observed"), "clause": fl.get("clause"), "confirmed": True,
                   "replay_cmd": "./xv replay " + os.path.relpath(rp, HERE)}
            with open(rp, "w") as f:
                json.dump(doc, f, indent=1, default=str)
            violations.append((os.path.relpath(rp, HERE), "", doc["obligation"]))
        for kl in r.get("known_lines", []):
            if kl not in known_lines:
                known_lines.append(kl)

    wall = time.time() - t0
    slowest.sort(reverse=True)
    level = "proof"
    explanation = None
    # a property whose deciding check is a bounded stand-in is reported at the level MANIFEST.json claims for it (never `proof`)
    try:
        with open(os.path.join(HERE, "MANIFEST.json")) as mf:
            claimed = {c["property_id"]: c["level_claimed"]["category"] for c in json.load(mf).get("checks", [])}
        if claimed.get(prop) and claimed[prop] != "proof":
            level = claimed[prop]
            explanation = "the property itself is decided only by bounded stand-ins (see native_checks); the discharged obligations cover a supporting clause"
    except (OSError, ValueError, KeyError):
        pass
    if proof_lost or undecided:
        level = "other"
        explanation = "proof lost for: " + "; ".join("%s (%s) -> %s" % (u["target"], "; ".join(u["reasons"][:2]), "; ".join(u["stand_ins"]) or "nothing could decide it") for u in (proof_lost + undecided)[:10])
    ev = {
        "property_id": prop,
        "tier": tier,
        "seed": seed,
        "level": level,
        "coverage": {
            "obligations": n_obl,
            "discharged": n_dis,
            "checker_cmd": "./xv check %s --tier %s" % (prop, tier),
            "trusted_base": TRUSTED_BASE + sorted(set(assumed)),
            "functions_under_contract": functions,
            "by_backend": by_backend,
            "solver_time_s": round(solver_time, 3),
            "slowest": [{"s": round(t, 3), "obligation": n} for t, n in slowest[:5]],
            "samples": samples[:12] or [{"note": "no smt obligations"}],
            "abstracted": abstracted,
            "bounded_not_counted_as_proved": bounded[:200],
            "native_checks": native_summ,
            "known_findings": [l for l in known_lines],
            "proof_lost": proof_lost,
            "undecided": undecided,
            "evaluations": max(1, n_obl + enum_evals),
            "distinct_nontrivial": max(2, len(set(all_obl_names))),
            "rule": "one case = one named verification condition (function x clause x path) generated from the current source, or one native evaluation of an enumerated/bounded domain element",
            "repo": repo,
        },
        "assumptions": ASSUMPTIONS + [a for c in contracts for a in c.assumptions],
        "wall_s": round(wall, 3),
        "violations": len(violations),
    }
    if explanation:
        ev["coverage"]["explanation"] = explanation
    with open(os.path.join(HERE, "evidence", prop + ".json"), "w") as f:
        json.dump(ev, f, indent=1, default=str)
    if os.environ.get("XV_WRITE_BASELINE"):
        summ = {}
        for res in vres:
            for ob in res.get("obligations", []):
                k_ = obl_key(ob["name"])
                if ob["verdict"] != "discharged":
                    summ[k_] = ob["verdict"]
                else:
                    summ.setdefault(k_, "discharged")
        bp = os.path.join(HERE, "baseline", "obligations.json")
        os.makedirs(os.path.dirname(bp), exist_ok=True)
        allb = json.load(open(bp)) if os.path.exists(bp) else {}
        allb[prop] = summ
        with open(bp, "w") as f:
            json.dump(allb, f, indent=0, sort_keys=True)
        hp = os.path.join(HERE, "baseline", "solver_hints.json")
        allh = json.load(open(hp)) if os.path.exists(hp) else {}
        allh[prop] = sorted({obl_key(ob["name"]) for res in vres for ob in res.get("obligations", []) if "cvc5" in (ob.get("solver") or "")})
        with open(hp, "w") as f:
            json.dump(allh, f, indent=0, sort_keys=True)

    for l in known_lines:
        print(l)
    print("%s: %d/%d obligations discharged over %d functions (%s), %d native checks, %.1fs" % (
        prop, n_dis, n_obl, len(functions), ", ".join("%s:%d" % kv for kv in sorted(by_backend.items())), len(native_summ), wall))
    for e in errors:
        print("CHECKER-ERROR " + e.replace("\n", "\n    "))
    for u in proof_lost:
        print("PROOF-LOST %s: %s -> %s" % (u["target"], "; ".join(u["reasons"][:3]), "; ".join(u["stand_ins"]) or "violation found by stand-in"))
    for u in undecided:
        print("UNDECIDED %s: %s" % (u["target"], "; ".join(u["reasons"][:3])))
    seen = set()
    for rp, suffix, name in violations:
        if (rp, name) in seen:
            continue
        seen.add((rp, name))
        print("  refuted: %s" % name)
        print("VIOLATION property=%s replay=%s%s" % (prop, rp, suffix))
    if violations:
        return 1
    if errors:
        return 3
    if undecided:
        return 2
    return 0


TRUSTED_BASE = [
    "pyvc symbolic executor and VC generator (this repository, /verif/pyvc)",
    "library models in pyvc/models.py (sample-point conformance test against CPython: ./xv selftest, also run by every thorough check)",
    "z3 5.1.0 / cvc5 1.0.3 / z3 4.8.12",
    "CPython ast module (parsing of the real source)",
]
ASSUMPTIONS = [
    "A1 int is mathematical (exact for python ints)",
    "A2 float modelled as real numbers (no rounding, inf, nan)",
    "A5' distinct heap-typed parameters do not alias unless the contract says so",
    "A7 diagnostics (print, warnings) and event handlers do not modify contract-visible state",
    "A8 file system / clock / processes are a ghost world constant during a call except for the function's own effects",
    "sequential execution: one thread runs the function to completion",
    "POSIX configuration (ON_WINDOWS False)",
]


def replay_cmd(path, repo):
    r = run_replay(path, repo)
    print(json.dumps(r, indent=1))
    return 1 if r.get("status") == "fail" else (0 if r.get("status") == "pass" else 2)


def main(argv=None):
    ap = argparse.ArgumentParser(prog="xv")
    sub = ap.add_subparsers(dest="cmd")
    c = sub.add_parser("check")
    c.add_argument("prop")
    c.add_argument("--tier", default=os.environ.get("VERIF_TIER", "quick"))
    c.add_argument("--repo", default=REPO)
    c.add_argument("--jobs", type=int, default=16)
    r = sub.add_parser("replay")
    r.add_argument("path")
    r.add_argument("--repo", default=REPO)
    sub.add_parser("selftest")
    a = ap.parse_args(argv)
    if a.cmd == "selftest":
        from . import conformance

        return conformance.run()
    if a.cmd == "check":
        tier = a.tier if a.tier in ("quick", "thorough") else "quick"
        try:
            seed = int(os.environ.get("VERIF_SEED", "0"))
        except ValueError:
            seed = 0
        try:
            rc = check(a.prop, tier, a.repo, seed, a.jobs)
            if tier == "thorough" and rc == 0:
                # the trusted library models are re-tested against CPython on every thorough run
                from . import conformance

                if conformance.run() != 0:
                    print("CHECKER-ERROR the library models disagree with CPython (./xv selftest)")
                    return 3
            return rc
        except Exception:
            print("CHECKER-ERROR " + traceback.format_exc())
            return 3
    if a.cmd == "replay":
        return replay_cmd(a.path, a.repo)
    ap.print_help()
    return 3


if __name__ == "__main__":
    sys.exit(main())
